"""Core module for handling non-hierarchical gate-level circuits.

The class :class:`Circuit` is a container of nodes connected by lines.
A node is an instance of class :class:`Node`,
and a line is an instance of class :class:`Line`.

The data structures are designed to work together nicely with numpy arrays.
For example, all the nodes and connections in the circuit graph have consecutive integer indices that can be used to access ndarrays with associated data.
Circuit graphs also define an ordering of inputs, outputs and other nodes to easily process test vector data and alike.

"""

from collections import deque, defaultdict
import re

import numpy as np


class GrowingList(list):
    def __setitem__(self, index, value):
        if index >= len(self):
            self.extend([None] * (index + 1 - len(self)))
        super().__setitem__(index, value)

    def free_index(self):
        return next((i for i, x in enumerate(self) if x is None), len(self))


class IndexList(list):
    def __delitem__(self, index):
        if index == len(self) - 1:
            super().__delitem__(index)
        else:
            replacement = self.pop()
            replacement.index = index
            super().__setitem__(index, replacement)


class Node:
    """A node is a named entity in a circuit (e.g. a gate, a standard cell,
    a named signal, or a fan-out point) that is connected to other nodes via lines.

    The constructor automatically adds the new node to the given circuit.
    """
    def __init__(self, circuit, name, kind='__fork__'):
        if kind == '__fork__':
            assert name not in circuit.forks, f'fork of name {name} already in circuit.'
            circuit.forks[name] = self
        else:
            assert name not in circuit.cells, f'cell of name {name} already in circuit.'
            circuit.cells[name] = self
        circuit.nodes.append(self)
        self.circuit = circuit
        """The :class:`Circuit` object the node is part of.
        """
        self.name = name
        """The name of the node.

        Names must be unique among all forks and all cells in the circuit.
        However, a fork (:py:attr:`kind` is set to '__fork__') and a cell with the same name may coexist.
        """
        self.kind = kind
        """A string describing the type of the node.

        Common types are the names from a standard cell library or general gate names like 'AND' or 'NOR'.
        If :py:attr:`kind` is set to '__fork__', it receives special treatment.
        A `fork` describes a named signal or a fan-out point in the circuit and not a physical `cell` like a gate.
        In the circuit, the namespaces of forks and cells are kept separate.
        While :py:attr:`name` must be unique among all forks and all cells, a fork can have the same name as a cell.
        The :py:attr:`index`, however, is unique among all nodes; a fork cannot have the same index as a cell.
        """
        self.index = len(circuit.nodes) - 1
        """A unique and consecutive integer index of the node within the circuit.

        It can be used to associate additional data to a node :code:`n`
        by allocating an array or list :code:`my_data` of length :code:`len(n.circuit.nodes)` and
        accessing it by :code:`my_data[n.index]` or simply by :code:`my_data[n]`.
        """
        self.ins = GrowingList()
        """A list of input connections (:class:`Line` objects).
        """
        self.outs = GrowingList()
        """A list of output connections (:class:`Line` objects).
        """

    def __index__(self):
        return self.index

    def __repr__(self):
        ins = ' '.join([f'<{line.index}' if line is not None else '<None' for line in self.ins])
        outs = ' '.join([f'>{line.index}' if line is not None else '>None' for line in self.outs])
        ins = ' ' + ins if len(ins) else ''
        outs = ' ' + outs if len(outs) else ''
        return f'{self.index}:{self.kind}"{self.name}"{ins}{outs}'

    def remove(self):
        """Removes the node from its circuit.

        Lines may still reference the removed node.
        The user must connect such lines to other nodes or remove the lines from the circuit.
        To keep the indices consecutive, the node with the highest index within the circuit
        will be assigned the index of the removed node.
        """
        if self.circuit is not None:
            del self.circuit.nodes[self.index]
            if self.kind == '__fork__':
                del self.circuit.forks[self.name]
            else:
                del self.circuit.cells[self.name]
            self.circuit = None

    def __eq__(self, other):
        """Checks equality of node name and kind. Does not check pin connections.

        This is ok, because (name, kind) is unique within a circuit.
        """
        return self.name == other.name and self.kind == other.kind

    def __hash__(self):
        return hash((self.name, self.kind))


class Line:
    """A line is a directional 1:1 connection between two nodes.

    It always connects an output of one `driver` node to an input of one `reader` node.
    If a signal fans out to multiple readers, a '__fork__' node needs to be added.

    The constructor automatically adds the new line to the given circuit and inserts references into the connection
    lists of connected nodes.

    When adding a line, input and output pins can either be specified explicitly
    :code:`Line(circuit, (driver, 2), (reader, 0))`, or implicitly :code:`Line(circuit, driver, reader)`.
    In the implicit case, the line will be connected to the first free pin of the node.
    Use the explicit case only if connections to specific pins are required.
    It may overwrite any previous line references in the connection list of the nodes.
    """
    def __init__(self, circuit, driver, reader):
        self.circuit = circuit
        """The :class:`Circuit` object the line is part of.
        """
        self.circuit.lines.append(self)
        self.index = len(self.circuit.lines) - 1
        """A unique and consecutive integer index of the line within the circuit.

        It can be used to store additional data about the line :code:`l`
        by allocating an array or list :code:`my_data` of length :code:`len(l.circuit.lines)` and
        accessing it by :code:`my_data[l.index]` or simply by :code:`my_data[l]`.
        """
        if not isinstance(driver, tuple): driver = (driver, driver.outs.free_index())
        self.driver = driver[0]
        """The :class:`Node` object that drives this line.
        """
        self.driver_pin = driver[1]
        """The output pin position of the driver node this line is connected to.

        This is the position in the list :py:attr:`Node.outs` of the driving node this line referenced from:
        :code:`self.driver.outs[self.driver_pin] == self`.
        """
        if not isinstance(reader, tuple): reader = (reader, reader.ins.free_index())
        self.reader = reader[0]
        """The :class:`Node` object that reads this line.
        """
        self.reader_pin = reader[1]
        """The input pin position of the reader node this line is connected to.

        This is the position in the list :py:attr:`Node.ins` of the reader node this line referenced from:
        :code:`self.reader.ins[self.reader_pin] == self`.
        """
        self.driver.outs[self.driver_pin] = self
        self.reader.ins[self.reader_pin] = self

    def remove(self):
        """Removes the line from its circuit and its referencing nodes.

        To keep the indices consecutive, the line with the highest index within the circuit
        will be assigned the index of the removed line.
        """
        if self.driver is not None:
            self.driver.outs[self.driver_pin] = None
            if self.driver.kind == '__fork__':  # squeeze outputs
                del self.driver.outs[self.driver_pin]
                for i, l in enumerate(self.driver.outs): l.driver_pin = i
        if self.reader is not None: self.reader.ins[self.reader_pin] = None
        if self.circuit is not None: del self.circuit.lines[self.index]
        self.driver = None
        self.reader = None
        self.circuit = None

    def __index__(self):
        return self.index

    def __repr__(self):
        return f'{self.index}'

    def __lt__(self, other):
        return self.index < other.index

    def __eq__(self, other):
        return self.driver == other.driver and self.driver_pin == other.driver_pin and \
               self.reader == other.reader and self.reader_pin == other.reader_pin

    def __hash__(self):
        return hash((self.driver, self.driver_pin, self.reader, self.reader_pin))


class Circuit:
    """A Circuit is a container for interconnected nodes and lines.

    It provides access to lines by index and to nodes by index and by name.
    Nodes come in two flavors: `cells` and `forks` (see :py:attr:`Node.kind`).
    The name spaces of cells and forks are kept separate.

    The indices of nodes and lines are kept consecutive and unique.
    Whenever lines or nodes are removed from the circuit, the indices of some other lines or nodes may change
    to enforce consecutiveness.

    A subset of nodes can be designated as primary input- or output-ports of the circuit.
    This is done by adding them to the :py:attr:`io_nodes` list.
    """
    def __init__(self, name=None):
        self.name = name
        """The name of the circuit.
        """
        self.nodes : list[Node] = IndexList()
        """A list of all :class:`Node` objects contained in the circuit.

        The position of a node in this list equals its index :code:`self.nodes[42].index == 42`.
        This list must not be changed directly.
        Use the :class:`Node` constructor and :py:attr:`Node.remove()` to add and remove nodes.
        """
        self.lines : list[Line] = IndexList()
        """A list of all :class:`Line` objects contained in the circuit.

        The position of a line in this list equals its index :code:`self.lines[42].index == 42`.
        This list must not be changed directly.
        Use the :class:`Line` constructor and :py:attr:`Line.remove()` to add and remove lines.
        """
        self.io_nodes : list[Node] = GrowingList()
        """A list of nodes that are designated as primary input- or output-ports.

        Port-nodes are contained in :py:attr:`nodes` as well as :py:attr:`io_nodes`.
        The position of a node in the io_nodes list corresponds to positions of logic values in test vectors.
        The port direction is not stored explicitly.
        Usually, nodes in the io_nodes list without any lines in their :py:attr:`Node.ins` list are primary inputs,
        and all other nodes in the io_nodes list are regarded as primary outputs.
        """
        self.cells : dict[str, Node] = {}
        """A dictionary to access cells by name.

        This dictionary must not be changed directly.
        Use the :class:`Node` constructor and :py:attr:`Node.remove()` to add and remove nodes.
        """
        self.forks : dict[str, Node] = {}
        """A dictionary to access forks by name.

        This dictionary must not be changed directly.
        Use the :class:`Node` constructor and :py:attr:`Node.remove()` to add and remove nodes.
        """

    @property
    def s_nodes(self):
        """A list of all primary I/Os as well as all flip-flops and latches in the circuit (in that order).

        The s_nodes list defines the order of all ports and all sequential elements in the circuit.
        This list is constructed on-the-fly. If used in some inner toop, consider caching the list for better performance.
        """
        return list(self.io_nodes) + [n for n in self.nodes if 'dff' in n.kind.lower()] + [n for n in self.nodes if 'latch' in n.kind.lower()]

    def io_locs(self, prefix):
        """Returns the indices of primary I/Os that start with given name prefix.

        The returned values are used to index into the :py:attr:`io_nodes` array.
        If only one I/O cell matches the given prefix, a single integer is returned.
        If a bus matches the given prefix, a sorted list of indices is returned.
        Busses are identified by integers in the cell names following the given prefix.
        Lists for bus indices are sorted from LSB (e.g. :code:`data[0]`) to MSB (e.g. :code:`data[31]`).
        If a prefix matches multiple different signals or busses, alphanumerically sorted
        lists of lists are returned. Therefore, higher-dimensional busses
        (e.g. :code:`data0[0], data0[1], ...`, :code:`data1[0], data1[1], ...`) are supported as well.
        """
        return self._locs(prefix, list(self.io_nodes))

    def s_locs(self, prefix):
        """Returns the indices of I/Os and sequential elements that start with given name prefix.

        The returned values are used to index into the :py:attr:`s_nodes` list.
        It works the same as :py:attr:`io_locs`. See there for more details.
        """
        return self._locs(prefix, self.s_nodes)

    def _locs(self, prefix, nodes):
        d_top = dict()
        for i, n in enumerate(nodes):
            if m := re.match(fr'({prefix}.*?)((?:[\d_\[\]])*$)', n.name):
                path = [m[1]] + [int(v) for v in re.split(r'[_\[\]]+', m[2]) if len(v) > 0]
                d = d_top
                for j in path[:-1]:
                    d[j] = d.get(j, dict())
                    d = d[j]
                d[path[-1]] = i

        # sort recursively for multi-dimensional lists.
        def sorted_values(d): return [sorted_values(v) for k, v in sorted(d.items())] if isinstance(d, dict) else d
        l = sorted_values(d_top)
        while isinstance(l, list) and len(l) == 1: l = l[0]
        return None if isinstance(l, list) and len(l) == 0 else l

    @property
    def stats(self):
        """A dictionary with the counts of all different elements in the circuit.

        The dictionary contains the number of all different kinds of nodes, the number
        of lines, as well various sums like number of combinational gates, number of
        primary I/Os, number of sequential elements, and so on.

        The count of regular cells use their :py:attr:`Node.kind` as key, other statistics use
        dunder-keys like: `__comb__`, `__io__`, `__seq__`, and so on.
        """
        stats = defaultdict(int)
        stats['__node__'] = len(self.nodes)
        stats['__cell__'] = len(self.cells)
        stats['__fork__'] = len(self.forks)
        stats['__io__'] = len(self.io_nodes)
        stats['__line__'] = len(self.lines)
        for n in self.cells.values():
            stats[n.kind] += 1
            if 'dff' in n.kind.lower(): stats['__dff__'] += 1
            elif 'latch' in n.kind.lower(): stats['__latch__'] += 1
            elif 'put' not in n.kind.lower(): stats['__comb__'] += 1 # no input or output
        stats['__seq__'] = stats['__dff__'] + stats['__latch__']
        return dict(stats)

    def get_or_add_fork(self, name):
        return self.forks[name] if name in self.forks else Node(self, name)

    def remove_dangling_nodes(self, root_node:Node):
        if len([l for l in root_node.outs if l is not None]) > 0: return
        lines = [l for l in root_node.ins if l is not None]
        drivers = [l.driver for l in lines]
        root_node.remove()
        for l in lines:
            l.remove()
        for d in drivers:
            self.remove_dangling_nodes(d)

    def eliminate_1to1_forks(self):
        """Removes all forks that drive only one node.

        Such forks are inserted by parsers to annotate signal names. If this
        information is not needed, such forks can be removed and the two neighbors
        can be connected directly using one line. Forks that drive more than one node
        are not removed by this function.

        This function may remove some nodes and some lines from the circuit.
        Therefore that indices of other nodes and lines may change to keep the indices consecutive.
        It may therefore invalidate external data for nodes and lines.
        """
        ios = set(self.io_nodes)
        for n in list(self.forks.values()):
            if n in ios: continue
            if len(n.outs) != 1: continue
            in_line = n.ins[0]
            out_line = n.outs[0]
            out_reader = out_line.reader
            out_reader_pin = out_line.reader_pin
            n.remove()
            out_line.remove()
            in_line.reader = out_reader
            in_line.reader_pin = out_reader_pin
            in_line.reader.ins[in_line.reader_pin] = in_line

    def substitute(self, node, impl):
        """Replaces a given node with the given implementation circuit.

        The given node will be removed, the implementation is copied in and
        the signal lines are connected appropriately. The number and arrangement
        of the input and output ports must match the pins of the replaced node.

        This function tries to preserve node and line indices as much as possible.
        Usually, it only adds additional nodes and lines, preserving the order of
        all existing nodes and lines. If an implementation is empty, however, nodes
        and lines may get removed, changing indices and invalidating external data.
        """
        ios = set(impl.io_nodes)
        impl_in_nodes = [n for n in impl.io_nodes if len(n.ins) == 0]
        impl_out_lines = [n.ins[0] for n in impl.io_nodes if len(n.ins) > 0]
        designated_cell = None
        if len(impl_out_lines) > 0:
            n = impl_out_lines[0].driver
            while n.kind == '__fork__' and n not in ios:
                n = n.ins[0].driver
            designated_cell = n
        node_in_lines = list(node.ins) + [None] * (len(impl_in_nodes)-len(node.ins))
        node_out_lines = list(node.outs) + [None] * (len(impl_out_lines)-len(node.outs))
        assert len(node_in_lines) == len(impl_in_nodes)
        assert len(node_out_lines) == len(impl_out_lines)
        node_map = dict()
        if designated_cell is not None:
            node.kind = designated_cell.kind
            node_map[designated_cell] = node
            node.ins = GrowingList()
            node.outs = GrowingList()
        else:
            node.remove()
        ios = set(impl.io_nodes)
        for n in impl.nodes:  # add all nodes to main circuit
            if n not in ios:
                if n != designated_cell:
                    node_map[n] = Node(self, f'{node.name}~{n.name}', n.kind)
            elif len(n.outs) > 0 and len(n.ins) > 0:  # output is also read by impl. circuit, need to add a fork.
                node_map[n] = Node(self, f'{node.name}~{n.name}')
            elif len(n.ins) == 0 and len(n.outs) > 1:  # input is read by multiple nodes, need to add fork.
                node_map[n] = Node(self, f'{node.name}~{n.name}')
        for l in impl.lines:  # add all internal lines to main circuit
            if l.reader in node_map and l.driver in node_map:
                Line(self, (node_map[l.driver], l.driver_pin), (node_map[l.reader], l.reader_pin))
        for inn, ll in zip(impl_in_nodes, node_in_lines):  # connect inputs
            if ll is None: continue
            if len(inn.outs) == 0:  # input is not read by impl. circuit, drop the connection.
                ll.reader = None
                ll.remove()
                continue
            if len(inn.outs) == 1:
                l = inn.outs[0]
                ll.reader = node_map[l.reader]
                ll.reader_pin = l.reader_pin
            else:
                ll.reader = node_map[inn]  # connect to existing fork
                ll.reader_pin = 0
            ll.reader.ins[ll.reader_pin] = ll
        unused = []
        for l, ll in zip(impl_out_lines, node_out_lines):  # connect outputs
            if ll is None:
                if l.driver in node_map:
                    unused.append(node_map[l.driver])
                continue
            if len(l.reader.outs) > 0:  # output is also read by impl. circuit, connect to fork.
                ll.driver = node_map[l.reader]
                ll.driver_pin = len(l.reader.outs)
            else:
                ll.driver = node_map[l.driver]
                ll.driver_pin = l.driver_pin
            ll.driver.outs[ll.driver_pin] = ll
        for n in unused:  # prune logic of unconnected outputs only after all connected outputs are attached
            if n.circuit is not None:
                self.remove_dangling_nodes(n)
        for n in node_map.values():  # a copied fork that lost the branch to an unconnected output must not keep a gap
            if n.circuit is not None and n.kind == '__fork__' and any(l is None for l in n.outs):
                n.outs = GrowingList(l for l in n.outs if l is not None)
                for i, l in enumerate(n.outs): l.driver_pin = i

    def resolve_tlib_cells(self, tlib):
        """Substitute all technology library cells with kyupy native simulation primitives.

        See :py:attr:`substitute()` for more detail.
        """
        for n in list(self.nodes):
            if n.kind in tlib.cells:
                self.substitute(n, tlib.cells[n.kind][0])

    def copy(self):
        """Returns a deep copy of the circuit.
        """
        c = Circuit(self.name)
        for node in self.nodes:
            Node(c, node.name, node.kind)
        for line in self.lines:
            d = c.forks[line.driver.name] if line.driver.kind == '__fork__' else c.cells[line.driver.name]
            r = c.forks[line.reader.name] if line.reader.kind == '__fork__' else c.cells[line.reader.name]
            Line(c, (d, line.driver_pin), (r, line.reader_pin))
        for node in self.io_nodes:
            if node.kind == '__fork__':
                n = c.forks[node.name]
            else:
                n = c.cells[node.name]
            c.io_nodes.append(n)
        return c

    def __getstate__(self):
        nodes = [(node.name, node.kind) for node in self.nodes]
        lines = [(line.driver.index, line.driver_pin, line.reader.index, line.reader_pin) for line in self.lines]
        io_nodes = [n.index for n in self.io_nodes]
        return {'name': self.name,
                'nodes': nodes,
                'lines': lines,
                'io_nodes': io_nodes }

    def __setstate__(self, state):
        self.name = state['name']
        self.nodes = IndexList()
        self.lines = IndexList()
        self.io_nodes = GrowingList()
        self.cells = {}
        self.forks = {}
        for s in state['nodes']:
            Node(self, *s)
        for driver, driver_pin, reader, reader_pin in state['lines']:
            Line(self, (self.nodes[driver], driver_pin), (self.nodes[reader], reader_pin))
        for n in state['io_nodes']:
            self.io_nodes.append(self.nodes[n])

    def __eq__(self, other):
        return self.nodes == other.nodes and self.lines == other.lines and self.io_nodes == other.io_nodes

    def __repr__(self):
        return f'{{name: "{self.name}", cells: {len(self.cells)}, forks: {len(self.forks)}, lines: {len(self.lines)}, io_nodes: {len(self.io_nodes)}}}'

    def topological_order(self):
        """Generator function to iterate over all nodes in topological order.

        Nodes without input lines and nodes whose :py:attr:`Node.kind` contains the
        substrings 'dff' or 'latch' are yielded first.
        """
        visit_count = np.zeros(len(self.nodes), dtype=np.uint32)
        queue = deque(n for n in self.nodes if all(l is None for l in n.ins) or 'dff' in n.kind.lower() or 'latch' in n.kind.lower())
        while len(queue) > 0:
            n = queue.popleft()
            for line in n.outs:
                if line is None: continue
                succ = line.reader
                visit_count[succ] += 1
                if visit_count[succ] == sum(l is not None for l in succ.ins) and 'dff' not in succ.kind.lower() and 'latch' not in succ.kind.lower():
                    queue.append(succ)
            yield n

    def topological_order_with_level(self):
        level = np.zeros(len(self.nodes), dtype=np.int32) - 1
        for n in self.topological_order():
            if all(l is None for l in n.ins) or 'dff' in n.kind.lower() or 'latch' in n.kind.lower():
                l = 0
            else:
                l = level[[l.driver.index for l in n.ins if l is not None]].max() + 1
            level[n] = l
            yield n, l

    def topological_line_order(self):
        """Generator function to iterate over all lines in topological order.
        """
        for n in self.topological_order():
            for line in n.outs:
                if line is not None:
                    yield line

    def reversed_topological_order(self):
        """Generator function to iterate over all nodes in reversed topological order.

        Nodes without output lines and nodes whose :py:attr:`Node.kind` contains the
        substrings 'dff' or 'latch' are yielded first.
        """
        visit_count = [0] * len(self.nodes)
        queue = deque(n for n in self.nodes if all(l is None for l in n.outs) or 'dff' in n.kind.lower() or 'latch' in n.kind.lower())
        while len(queue) > 0:
            n = queue.popleft()
            for line in n.ins:
                if line is None: continue
                pred = line.driver
                visit_count[pred] += 1
                if visit_count[pred] == sum(l is not None for l in pred.outs) and 'dff' not in pred.kind.lower() and 'latch' not in pred.kind.lower():
                    queue.append(pred)
            yield n

    def fanin(self, origin_nodes):
        """Generator function to iterate over the fan-in cone of a given list of origin nodes.

        Nodes are yielded in reversed topological order.
        """
        marks = [False] * len(self.nodes)
        for n in origin_nodes:
            marks[n] = True
        for n in self.reversed_topological_order():
            if not marks[n]:
                for line in n.outs:
                    if line is not None:
                        marks[n] |= marks[line.reader]
            if marks[n]:
                yield n

    def fanout_free_regions(self):
        for stem in self.reversed_topological_order():
            if len(stem.outs) == 1 and 'dff' not in stem.kind.lower(): continue
            region = []
            if 'dff' in stem.kind.lower():
                n = stem.ins[0]
                if len(n.driver.outs) == 1 and 'dff' not in n.driver.kind.lower():
                    queue = deque([n.driver])
                else:
                    queue = deque()
            else:
                queue = deque(n.driver for n in stem.ins
                              if len(n.driver.outs) == 1 and 'dff' not in n.driver.kind.lower())
            while len(queue) > 0:
                n = queue.popleft()
                preds = [pred.driver for pred in n.ins
                         if len(pred.driver.outs) == 1 and 'dff' not in pred.driver.kind.lower()]
                queue.extend(preds)
                region.append(n)
            yield stem, region

    def dot(self, format='svg'):
        from graphviz import Digraph
        dot = Digraph(format=format, graph_attr={'rankdir': 'LR', 'splines': 'true'})

        s_dict = dict((n, i) for i, n in enumerate(self.s_nodes))
        node_level = np.zeros(len(self.nodes), dtype=np.uint32)
        level_nodes = defaultdict(list)
        for n, lv in self.topological_order_with_level():
            level_nodes[lv].append(n)
            node_level[n] = lv

        for lv in level_nodes:
            with dot.subgraph() as s:
                s.attr(rank='same')
                for n in level_nodes[lv]:
                    ins = '|'.join([f'<i{i}>{i}' for i in range(len(n.ins))])
                    outs = '|'.join([f'<o{i}>{i}' for i in range(len(n.outs))])
                    io = f' [{s_dict[n]}]' if n in s_dict else ''
                    s.node(name=str(n.index), label = f'{{{{{ins}}}|{n.index}{io}\n{n.kind}\n{n.name}|{{{outs}}}}}', shape='record')

        for l in self.lines:
            driver, reader = f'{l.driver.index}:o{l.driver_pin}', f'{l.reader.index}:i{l.reader_pin}'
            if node_level[l.driver] >= node_level[l.reader]:
                dot.edge(driver, reader, style='dotted', label=str(l.index))
                pass
            else:
                dot.edge(driver, reader, label=str(l.index))

        return dot
