"""A parser for the ISCAS89 benchmark format.

The ISCAS89 benchmark format (`.bench`-suffix) is a very simple textual description of gate-level netlists.
Historically it was first used in the
`ISCAS89 benchmark set <https://people.engr.ncsu.edu/brglez/CBL/benchmarks/ISCAS89/>`_.
Besides loading these benchmarks, this module is also useful for easily constructing simple circuits:
``c = bench.parse('input(x, y) output(a, o, n) a=and(x,y) o=or(x,y) n=not(x)')``.
"""

from lark import Lark, Transformer

from .circuit import Circuit, Node, Line
from . import readtext


class BenchTransformer(Transformer):

    def __init__(self, name):
        super().__init__()
        self.c = Circuit(name)

    def start(self, _): return self.c

    def parameters(self, args): return [self.c.get_or_add_fork(str(name)) for name in args]

    def interface(self, args): self.c.io_nodes.extend(args[0])

    def assignment(self, args):
        name, cell_type, drivers = args
        cell = Node(self.c, str(name), str(cell_type))
        Line(self.c, cell, self.c.get_or_add_fork(str(name)))
        for d in drivers: Line(self.c, d, cell)


GRAMMAR = r"""
    start: (statement)*
    statement: input | output | assignment
    input: ("INPUT" | "input") parameters -> interface
    output: ("OUTPUT" | "output") parameters -> interface
    assignment: NAME "=" NAME parameters
    parameters: "(" [ NAME ( "," NAME )* ] ")"
    NAME: /[-_a-z0-9]+/i
    %ignore ( /\r?\n/ | "#" /[^\n]*/ | /[\t\f ]/ )+
    """


def parse(text, name=None):
    """Parses the given ``text`` as ISCAS89 bench code.

    :param text: A string with bench code.
    :param name: The name of the circuit. Circuit names are not included in bench descriptions.
    :return: A :class:`Circuit` object.
    """
    return Lark(GRAMMAR, parser="lalr", transformer=BenchTransformer(name)).parse(text)


def load(file, name=None):
    """Parses the contents of ``file`` as ISCAS89 bench code.

    :param file: The file to be loaded. Files with `.gz`-suffix are decompressed on-the-fly.
    :param name: The name of the circuit. If None, the file name is used as circuit name.
    :return: A :class:`Circuit` object.
    """
    return parse(readtext(file), name=name or str(file))
