"""Core module for handling 2-, 4-, and 8-valued logic data and signal values.

Logic values are stored in numpy arrays with data type ``np.uint8``.
There are no explicit data structures in KyuPy for holding patterns, pattern sets or vectors.
However, there are conventions on logic value encoding and on the order of axes.
Utility functions defined here follow these conventions.

8 logic values are defined as integer constants.

* For 2-valued logic: ``ZERO`` and ``ONE``
* 4-valued logic adds: ``UNASSIGNED`` and ``UNKNOWN``
* 8-valued logic adds: ``RISE``, ``FALL``, ``PPULSE``, and ``NPULSE``.

In general, the bits in these constants have the following meaning:

* bit0: Final/settled binary value of a signal
* bit1: Initial binary value of a signal
* bit2: Activity or transitions are present on a signal

Except when bit0 differs from bit1, but bit2 (activity) is 0:

* bit0 = 1, bit1 = 0, bit2 = 0 means ``UNKNOWN`` in 4-valued and 8-valued logic.
* bit0 = 0, bit1 = 1, bit2 = 0 means ``UNASSIGNED`` in 4-valued and 8-valued logic.

2-valued logic only considers bit0, but should store logic one as ``ONE=0b011`` for interoperability.
4-valued logic only considers bit0 and bit1.
8-valued logic considers all 3 bits.

Logic values are stored in numpy arrays of data type ``np.uint8``.
The axis convention is as follows:

* The **last** axis goes along patterns/vectors. I.e. ``values[...,0]`` is pattern 0, ``values[...,1]`` is pattern 1, etc.
* The **second-to-last** axis goes along the I/O and flip-flops of circuits. For a circuit ``c``, this axis is usually
  ``len(c.s_nodes)`` long. The values of all inputs, outputs and flip-flops are stored within the same array and the location
  along the second-to-last axis is determined by the order in :py:attr:`~kyupy.circuit.Circuit.s_nodes`.

Two storage formats are used in KyuPy:

* ``mv...`` (for "multi-valued"): Each logic value is stored in the least significant 3 bits of ``np.uint8``.
* ``bp...`` (for "bit-parallel"): Groups of 8 logic values are stored as three ``np.uint8``. This format is used
  for bit-parallel logic simulations. It is also more memory-efficient.

The functions in this module use the ``mv...`` and ``bp...`` prefixes to signify the storage format they operate on.

"""

from collections.abc import Iterable

import numpy as np

from . import numba, hr_bytes


ZERO = 0b000
"""Integer constant ``0b000`` for logic-0. ``'0'``, ``0``, ``False``, ``'L'``, and ``'l'`` are interpreted as ``ZERO``.
"""
UNKNOWN = 0b001
"""Integer constant ``0b001`` for unknown or conflict. ``'X'``, or any other value is interpreted as ``UNKNOWN``.
"""
UNASSIGNED = 0b010
"""Integer constant ``0b010`` for unassigned or high-impedance. ``'-'``, ``None``, ``'Z'``, and ``'z'`` are
interpreted as ``UNASSIGNED``.
"""
ONE = 0b011
"""Integer constant ``0b011`` for logic-1. ``'1'``, ``1``, ``True``, ``'H'``, and ``'h'`` are interpreted as ``ONE``.
"""
PPULSE = 0b100
"""Integer constant ``0b100`` for positive pulse, meaning initial and final values are 0, but there is some activity
on a signal. ``'P'``, ``'p'``, and ``'^'`` are interpreted as ``PPULSE``.
"""
RISE = 0b101
"""Integer constant ``0b110`` for a rising transition. ``'R'``, ``'r'``, and ``'/'`` are interpreted as ``RISE``.
"""
FALL = 0b110
"""Integer constant ``0b101`` for a falling transition. ``'F'``, ``'f'``, and ``'\\'`` are interpreted as ``FALL``.
"""
NPULSE = 0b111
"""Integer constant ``0b111`` for negative pulse, meaning initial and final values are 1, but there is some activity
on a signal. ``'N'``, ``'n'``, and ``'v'`` are interpreted as ``NPULSE``.
"""


def interpret(value):
    """Converts characters, strings, and lists of them to lists of logic constants defined above.

    :param value: A character (string of length 1), Boolean, Integer, None, or Iterable.
        Iterables (such as strings) are traversed and their individual characters are interpreted.
    :return: A logic constant or a (possibly multi-dimensional) list of logic constants.
    """
    if isinstance(value, Iterable) and not (isinstance(value, str) and len(value) == 1):
        return list(map(interpret, value))
    if value in [0, '0', False, 'L', 'l']: return ZERO
    if value in [1, '1', True, 'H', 'h']: return ONE
    if value in [None, '-', 'Z', 'z']: return UNASSIGNED
    if value in ['R', 'r', '/']: return RISE
    if value in ['F', 'f', '\\']: return FALL
    if value in ['P', 'p', '^']: return PPULSE
    if value in ['N', 'n', 'v']: return NPULSE
    return UNKNOWN


def mvarray(*a):
    """Converts (lists of) Boolean values or strings into a multi-valued array.

    The given values are interpreted and the axes are arranged as per KyuPy's convention.
    Use this function to convert strings into multi-valued arrays.
    """
    mva = np.array(interpret(a), dtype=np.uint8)
    if mva.ndim < 2: return mva
    if mva.shape[-2] > 1: return mva.swapaxes(-1, -2)
    return mva[..., 0, :]


def mv_str(mva, delim='\n'):
    """Renders a given multi-valued array into a string.
    """
    sa = np.choose(mva, np.array([*'0X-1PRFN'], dtype=np.str_))
    if not hasattr(mva, 'ndim') or mva.ndim == 0: return sa
    if mva.ndim == 1: return ''.join(sa)
    return delim.join([''.join(c) for c in sa.swapaxes(-1,-2)])


def _mv_not(out, inp):
    np.bitwise_xor(inp, 0b11, out=out)  # this also exchanges UNASSIGNED <-> UNKNOWN
    np.putmask(out, (inp == UNKNOWN), UNKNOWN)  # restore UNKNOWN


def mv_not(x1 : np.ndarray, out=None):
    """A multi-valued NOT operator.

    :param x1: A multi-valued array.
    :param out: An optional storage destination. If None, a new multi-valued array is returned.
    :return: A multi-valued array with the result.
    """
    if out is None: out = np.empty(x1.shape, dtype=np.uint8)
    _mv_not(out, x1)
    return out


def _mv_or(out, *ins):
    any_unknown = (ins[0] == UNKNOWN) | (ins[0] == UNASSIGNED)
    for inp in ins[1:]: any_unknown = any_unknown | ((inp == UNKNOWN) | (inp == UNASSIGNED))
    any_one = (ins[0] == ONE)
    for inp in ins[1:]: any_one = any_one | (inp == ONE)

    out[...] = ZERO
    np.putmask(out, any_one, ONE)
    for inp in ins:
        np.bitwise_or(out, inp, out=out, where=~any_one)
    np.putmask(out, (any_unknown & ~any_one), UNKNOWN)


def mv_or(x1, x2, out=None):
    """A multi-valued OR operator.

    :param x1: A multi-valued array.
    :param x2: A multi-valued array.
    :param out: An optional storage destination. If None, a new multi-valued array is returned.
    :return: A multi-valued array with the result.
    """
    if out is None: out = np.empty(np.broadcast(x1, x2).shape, dtype=np.uint8)
    _mv_or(out, x1, x2)
    return out


def _mv_and(out, *ins):
    any_unknown = (ins[0] == UNKNOWN) | (ins[0] == UNASSIGNED)
    for inp in ins[1:]: any_unknown = any_unknown | ((inp == UNKNOWN) | (inp == UNASSIGNED))
    any_zero = (ins[0] == ZERO)
    for inp in ins[1:]: any_zero = any_zero | (inp == ZERO)

    out[...] = ONE
    np.putmask(out, any_zero, ZERO)
    for inp in ins:
        np.bitwise_and(out, inp | 0b100, out=out, where=~any_zero)
        np.bitwise_or(out, inp & 0b100, out=out, where=~any_zero)
    np.putmask(out, (any_unknown & ~any_zero), UNKNOWN)


def mv_and(x1, x2, out=None):
    """A multi-valued AND operator.

    :param x1: A multi-valued array.
    :param x2: A multi-valued array.
    :param out: An optional storage destination. If None, a new multi-valued array is returned.
    :return: A multi-valued array with the result.
    """
    if out is None: out = np.empty(np.broadcast(x1, x2).shape, dtype=np.uint8)
    _mv_and(out, x1, x2)
    return out


def _mv_xor(out, *ins):
    any_unknown = (ins[0] == UNKNOWN) | (ins[0] == UNASSIGNED)
    for inp in ins[1:]: any_unknown = any_unknown | ((inp == UNKNOWN) | (inp == UNASSIGNED))

    out[...] = ZERO
    for inp in ins:
        np.bitwise_xor(out, inp & 0b011, out=out)
        np.bitwise_or(out, inp & 0b100, out=out)
    np.putmask(out, any_unknown, UNKNOWN)


def mv_xor(x1, x2, out=None):
    """A multi-valued XOR operator.

    :param x1: A multi-valued array.
    :param x2: A multi-valued array.
    :param out: An optional storage destination. If None, a new multi-valued array is returned.
    :return: A multi-valued array with the result.
    """
    if out is None: out = np.empty(np.broadcast(x1, x2).shape, dtype=np.uint8)
    _mv_xor(out, x1, x2)
    return out


def mv_latch(d, t, q_prev, out=None):
    """A multi-valued latch operator.

    A latch outputs ``d`` when transparent (``t`` is high).
    It outputs ``q_prev`` when in latched state (``t`` is low).

    :param d: A multi-valued array for the data input.
    :param t: A multi-valued array for the control input.
    :param q_prev: A multi-valued array with the output value of this latch from the previous clock cycle.
    :param out: An optional storage destination. If None, a new multi-valued array is returned.
    :return: A multi-valued array for the latch output ``q``.
    """
    if out is None: out = np.empty(np.broadcast(d, t, q_prev).shape, dtype=np.uint8)
    out[...] = t & d & 0b011
    out[...] |= ~t & 0b010 & (q_prev << 1)
    out[...] |= ~t & 0b001 & (out >> 1)
    out[...] |= ((out << 1) ^ (out << 2)) & 0b100
    unknown = (t == UNKNOWN) \
              | (t == UNASSIGNED) \
              | (((d == UNKNOWN) | (d == UNASSIGNED)) & (t != ZERO))
    np.putmask(out, unknown, UNKNOWN)
    return out


def mv_transition(init, final, out=None):
    """Computes the logic transitions from the initial values of ``init`` to the final values of ``final``.
    Pulses in the input data are ignored. If any of the inputs are ``UNKNOWN``, the result is ``UNKNOWN``.
    If both inputs are ``UNASSIGNED``, the result is ``UNASSIGNED``.

    :param init: A multi-valued array.
    :param final: A multi-valued array.
    :param out: An optional storage destination. If None, a new multi-valued array is returned.
    :return: A multi-valued array with the result.
    """
    if out is None: out = np.empty(np.broadcast(init, final).shape, dtype=np.uint8)
    out[...] = (init & 0b010) | (final & 0b001)
    out[...] |= ((out << 1) ^ (out << 2)) & 0b100
    unknown = (init == UNKNOWN) | (init == UNASSIGNED) | (final == UNKNOWN) | (final == UNASSIGNED)
    unassigned = (init == UNASSIGNED) & (final == UNASSIGNED)
    np.putmask(out, unknown, UNKNOWN)
    np.putmask(out, unassigned, UNASSIGNED)
    return out


def mv_to_bp(mva):
    """Converts a multi-valued array into a bit-parallel array.
    """
    if mva.ndim == 1: mva = mva[..., np.newaxis]
    return np.packbits(unpackbits(mva)[...,:3], axis=-2, bitorder='little').swapaxes(-1,-2)


def bparray(*a):
    """Converts (lists of) Boolean values or strings into a bit-parallel array.

    The given values are interpreted and the axes are arranged as per KyuPy's convention.
    Use this function to convert strings into bit-parallel arrays.
    """
    return mv_to_bp(mvarray(*a))


def bp_to_mv(bpa):
    """Converts a bit-parallel array into a multi-valued array.
    """
    return packbits(np.unpackbits(bpa, axis=-1, bitorder='little').swapaxes(-1,-2))


def bp4v_buf(out, inp):
    unknown = inp[..., 0, :] ^ inp[..., 1, :]
    out[..., 0, :] = inp[..., 0, :] | unknown
    out[..., 1, :] = inp[..., 1, :] & ~unknown
    return out


def bp8v_buf(out, inp):
    unknown = (inp[..., 0, :] ^ inp[..., 1, :]) & ~inp[..., 2, :]
    out[..., 0, :] = inp[..., 0, :] | unknown
    out[..., 1, :] = inp[..., 1, :] & ~unknown
    out[..., 2, :] = inp[..., 2, :] & ~unknown
    return out


def bp4v_not(out, inp):
    unknown = inp[..., 0, :] ^ inp[..., 1, :]
    out[..., 0, :] = ~inp[..., 0, :] | unknown
    out[..., 1, :] = ~inp[..., 1, :] & ~unknown
    return out


def bp8v_not(out, inp):
    unknown = (inp[..., 0, :] ^ inp[..., 1, :]) & ~inp[..., 2, :]
    out[..., 0, :] = ~inp[..., 0, :] | unknown
    out[..., 1, :] = ~inp[..., 1, :] & ~unknown
    out[..., 2, :] = inp[..., 2, :] & ~unknown
    return out


def bp4v_or(out, *ins):
    out[...] = 0
    any_unknown = ins[0][..., 0, :] ^ ins[0][..., 1, :]
    for inp in ins[1:]: any_unknown = any_unknown | (inp[..., 0, :] ^ inp[..., 1, :])
    any_one = ins[0][..., 0, :] & ins[0][..., 1, :]
    for inp in ins[1:]: any_one = any_one | (inp[..., 0, :] & inp[..., 1, :])
    for inp in ins:
        out[..., 0, :] |= inp[..., 0, :] | any_unknown
        out[..., 1, :] |= inp[..., 1, :] & (~any_unknown | any_one)
    return out


def bp8v_or(out, *ins):
    out[...] = 0
    any_unknown = (ins[0][..., 0, :] ^ ins[0][..., 1, :]) & ~ins[0][..., 2, :]
    for inp in ins[1:]: any_unknown = any_unknown | ((inp[..., 0, :] ^ inp[..., 1, :]) & ~inp[..., 2, :])
    any_one = ins[0][..., 0, :] & ins[0][..., 1, :] & ~ins[0][..., 2, :]
    for inp in ins[1:]: any_one = any_one | (inp[..., 0, :] & inp[..., 1, :] & ~inp[..., 2, :])
    for inp in ins:
        out[..., 0, :] |= inp[..., 0, :] | any_unknown
        out[..., 1, :] |= inp[..., 1, :] & (~any_unknown | any_one)
        out[..., 2, :] |= inp[..., 2, :] & (~any_unknown | any_one) & ~any_one
    return out


def bp4v_and(out, *ins):
    out[...] = 0xff
    any_unknown = ins[0][..., 0, :] ^ ins[0][..., 1, :]
    for inp in ins[1:]: any_unknown = any_unknown | (inp[..., 0, :] ^ inp[..., 1, :])
    any_zero = ~ins[0][..., 0, :] & ~ins[0][..., 1, :]
    for inp in ins[1:]: any_zero = any_zero | (~inp[..., 0, :] & ~inp[..., 1, :])
    for inp in ins:
        out[..., 0, :] &= inp[..., 0, :] | (any_unknown & ~any_zero)
        out[..., 1, :] &= inp[..., 1, :] & ~any_unknown
    return out


def bp8v_and(out, *ins):
    out[...] = 0xff
    any_unknown = (ins[0][..., 0, :] ^ ins[0][..., 1, :]) & ~ins[0][..., 2, :]
    for inp in ins[1:]: any_unknown = any_unknown | ((inp[..., 0, :] ^ inp[..., 1, :]) & ~inp[..., 2, :])
    any_zero = ~ins[0][..., 0, :] & ~ins[0][..., 1, :] & ~ins[0][..., 2, :]
    for inp in ins[1:]: any_zero = any_zero | (~inp[..., 0, :] & ~inp[..., 1, :] & ~inp[..., 2, :])
    out[..., 2, :] = 0
    for inp in ins:
        out[..., 0, :] &= inp[..., 0, :] | (any_unknown & ~any_zero)
        out[..., 1, :] &= inp[..., 1, :] & ~any_unknown
        out[..., 2, :] |= inp[..., 2, :] & (~any_unknown | any_zero) & ~any_zero
    return out


def bp4v_xor(out, *ins):
    out[...] = 0
    any_unknown = ins[0][..., 0, :] ^ ins[0][..., 1, :]
    for inp in ins[1:]: any_unknown = any_unknown | (inp[..., 0, :] ^ inp[..., 1, :])
    for inp in ins:
        out[..., 0, :] ^= inp[..., 0, :]
        out[..., 1, :] ^= inp[..., 1, :]
    out[..., 0, :] |= any_unknown
    out[..., 1, :] &= ~any_unknown
    return out


def bp8v_xor(out, *ins):
    out[...] = 0
    any_unknown = (ins[0][..., 0, :] ^ ins[0][..., 1, :]) & ~ins[0][..., 2, :]
    for inp in ins[1:]: any_unknown = any_unknown | ((inp[..., 0, :] ^ inp[..., 1, :]) & ~inp[..., 2, :])
    for inp in ins:
        out[..., 0, :] ^= inp[..., 0, :]
        out[..., 1, :] ^= inp[..., 1, :]
        out[..., 2, :] |= inp[..., 2, :]
    out[..., 0, :] |= any_unknown
    out[..., 1, :] &= ~any_unknown
    out[..., 2, :] &= ~any_unknown
    return out


def bp8v_latch(out, d, t, q_prev):
    any_unknown = (t[..., 0, :] ^ t[..., 1, :]) & ~t[..., 2, :]
    any_unknown |= ((d[..., 0, :] ^ d[..., 1, :]) & ~d[..., 2, :]) & (t[..., 0, :] | t[..., 1, :] | t[..., 2, :])
    out[..., 1, :] = (d[..., 1, :] & t[..., 1, :]) | (q_prev[..., 0, :] & ~t[..., 1, :])
    out[..., 0, :] = (d[..., 0, :] & t[..., 0, :]) | (out[..., 1, :] & ~t[..., 0, :])
    out[..., 2, :] = out[..., 1, :] ^ out[..., 0, :]
    out[..., 0, :] |= any_unknown
    out[..., 1, :] &= ~any_unknown
    out[..., 2, :] &= ~any_unknown
    return out


_bit_in_lut = np.array([2 ** x for x in range(7, -1, -1)], dtype='uint8')


@numba.njit
def bit_in(a, pos):
    return a[pos >> 3] & _bit_in_lut[pos & 7]


def unpackbits(a : np.ndarray):
    """Unpacks the bits of given ndarray ``a``.

    Similar to ``np.unpackbits``, but accepts any dtype, preserves the shape of ``a`` and
    adds a new last axis with the bits of each item. Bits are in 'little'-order, i.e.,
    a[...,0] is the least significant bit of each item.
    """
    return np.unpackbits(a.view(np.uint8), bitorder='little').reshape(*a.shape, 8*a.itemsize)


def packbits(a, dtype=np.uint8):
    """Packs the values of a boolean-valued array ``a`` along its last axis into bits.

    Similar to ``np.packbits``, but returns an array of given dtype and the shape of ``a`` with the last axis removed.
    The last axis of `a` is truncated or padded according to the bit-width of the given dtype.
    Signed integer datatypes are padded with the most significant bit, all others are padded with `0`.
    """
    dtype = np.dtype(dtype)
    bits = 8 * dtype.itemsize
    a = a[...,:bits]
    if a.shape[-1] < bits:
        p = [(0,0)]*(len(a.shape)-1) + [(0, bits-a.shape[-1])]
        a = np.pad(a, p, 'edge') if dtype.name[0] == 'i' else np.pad(a, p, 'constant', constant_values=0)
    return np.packbits(a, bitorder='little').view(dtype).reshape(a.shape[:-1])
