"""KyuPy's Built-In Technology Libraries

Technology libraries provide cell definitions and their implementation with simulation primitives.
A couple of common standard cell libraries are built-in.
Others can be easily added by providing a bench-like description of the cells.
"""

import re
from itertools import product

from . import bench


class TechLibOld:
    @staticmethod
    def pin_index(kind, pin):
        if isinstance(pin, int):
            return max(0, pin-1)
        if kind[:3] in ('OAI', 'AOI'):
            if pin[0] == 'A': return int(pin[1]) - 1
            if pin == 'B': return int(kind[3])
            if pin[0] == 'B': return int(pin[1]) - 1 + int(kind[3])
        for prefix, pins, index in [('HADD', ('B0', 'SO'), 1),
                                    ('HADD', ('A0', 'C1'), 0),
                                    ('MUX21', ('S', 'S0'), 2),
                                    ('MX2', ('S0',), 2),
                                    ('TBUF', ('OE',), 1),
                                    ('TINV', ('OE',), 1),
                                    ('LATCH', ('D',), 0),
                                    ('LATCH', ('QN',), 1),
                                    ('DFF', ('D',), 0),
                                    ('DFF', ('QN',), 1),
                                    ('SDFF', ('D',), 0),
                                    ('SDFF', ('QN',), 1),
                                    ('SDFF', ('CLK',), 3),
                                    ('SDFF', ('RSTB', 'RN'), 4),
                                    ('SDFF', ('SETB',), 5),
                                    ('ISOL', ('ISO',), 0),
                                    ('ISOL', ('D',), 1)]:
            if kind.startswith(prefix) and pin in pins: return index
        for index, pins in enumerate([('A1', 'IN1', 'A', 'S', 'INP', 'I', 'Q', 'QN', 'Y', 'Z', 'ZN'),
                                      ('A2', 'IN2', 'B', 'CK', 'CLK', 'CO', 'SE'),
                                      ('A3', 'IN3', 'C', 'RN', 'RSTB', 'CI', 'SI'),
                                      ('A4', 'IN4', 'D', 'SN', 'SETB'),
                                      ('A5', 'IN5', 'E'),
                                      ('A6', 'IN6', 'F')]):
            if pin in pins: return index
        raise ValueError(f'Unknown pin index for {kind}.{pin}')

    @staticmethod
    def pin_is_output(kind, pin):
        if isinstance(pin, int):
            return pin == 0
        if 'MUX' in kind and pin == 'S': return False
        return pin in ('Q', 'QN', 'Z', 'ZN', 'Y', 'CO', 'S', 'SO', 'C1')


class TechLib:
    """Class for standard cell library definitions.

    :py:class:`~kyupy.circuit.Node` objects do not have pin names.
    This class maps pin names to pin directions and defined positions in the ``node.ins`` and ``node.outs`` lists.
    Furthermore, it gives access to implementations of complex cells. See also :py:func:`~kyupy.circuit.substitute` and
    :py:func:`~kyupy.circuit.resolve_tlib_cells`.
    """
    def __init__(self, lib_src):
        self.cells = dict()
        """A dictionary with pin definitions and circuits for each cell kind (type).
        """
        for c_str in re.split(r';\s+', lib_src):
            c_str = re.sub(r'^\s+', '', c_str)
            name_len = c_str.find(' ')
            if name_len <= 0: continue
            c = bench.parse(c_str[name_len:])
            c.name = c_str[:name_len]
            c.eliminate_1to1_forks()
            i_idx, o_idx = 0, 0
            pin_dict = dict()
            for n in c.io_nodes:
                if len(n.ins) == 0:
                    pin_dict[n.name] = (i_idx, False)
                    i_idx += 1
                else:
                    pin_dict[n.name] = (o_idx, True)
                    o_idx += 1
            parts = [s[1:-1].split(',') if s[0] == '{' else [s] for s in re.split(r'({[^}]+})', c.name) if len(s) > 0]
            for name in [''.join(item) for item in product(*parts)]:
                self.cells[name] = (c, pin_dict)

    def pin_index(self, kind, pin):
        """Returns a pin list position for a given node kind and pin name."""
        assert kind in self.cells, f'Unknown cell: {kind}'
        assert pin in self.cells[kind][1], f'Unknown pin: {pin} for cell {kind}'
        return self.cells[kind][1][pin][0]

    def pin_is_output(self, kind, pin):
        """Returns True, if given pin name of a node kind is an output."""
        assert kind in self.cells, f'Unknown cell: {kind}'
        assert pin in self.cells[kind][1], f'Unknown pin: {pin} for cell {kind}'
        return self.cells[kind][1][pin][1]


GSC180 = TechLib(r"""
BUFX{1,3}      input(A)    output(Y) Y=BUF1(A)    ;
CLKBUFX{1,2,3} input(A)    output(Y) Y=BUF1(A)    ;
INVX{1,2,4,8}  input(A)    output(Y) Y=INV1(A)    ;
TBUFX{1,2,4,8} input(A,OE) output(Y) Y=AND2(A,OE) ;
TINVX1         input(A,OE) output(Y) AB=INV1(A) Y=AND2(AB,OE) ;

AND2X1      input(A,B)     output(Y) Y=AND2(A,B)      ;
NAND2X{1,2} input(A,B)     output(Y) Y=NAND2(A,B)     ;
NAND3X1     input(A,B,C)   output(Y) Y=NAND3(A,B,C)   ;
NAND4X1     input(A,B,C,D) output(Y) Y=NAND4(A,B,C,D) ;
OR2X1       input(A,B)     output(Y) Y=OR2(A,B)       ;
OR4X1       input(A,B,C,D) output(Y) Y=OR4(A,B,C,D)   ;
NOR2X1      input(A,B)     output(Y) Y=NOR2(A,B)      ;
NOR3X1      input(A,B,C)   output(Y) Y=NOR3(A,B,C)    ;
NOR4X1      input(A,B,C,D) output(Y) Y=NOR4(A,B,C,D)  ;
XOR2X1      input(A,B)     output(Y) Y=XOR2(A,B)      ;

MX2X1   input(A,B,S0)            output(Y)    Y=MUX21(A,B,S0)      ;
AOI21X1 input(A0,A1,B0)          output(Y)    Y=AOI21(A0,A1,B0)    ;
AOI22X1 input(A0,A1,B0,B1)       output(Y)    Y=AOI22(A0,A1,B0,B1) ;
OAI21X1 input(A0,A1,B0)          output(Y)    Y=OAI21(A0,A1,B0)    ;
OAI22X1 input(A0,A1,B0,B1)       output(Y)    Y=OAI22(A0,A1,B0,B1) ;
OAI33X1 input(A0,A1,A2,B0,B1,B2) output(Y)    AA=OR2(A0,A1) BB=OR2(B0,B1) Y=OAI22(AA,A2,BB,B2) ;
ADDFX1  input(A,B,CI)            output(CO,S) AB=XOR2(A,B) S=XOR2(AB,CI) CO=AO22(AB,CI,A,B)    ;
ADDHX1  input(A,B)               output(CO,S) S=XOR2(A,B) CO=AND2(A,B)                         ;

DFFX1    input(CK,D)             output(Q,QN) Q=DFF(D,CK) QN=INV1(Q) ;
DFFSRX1  input(CK,D,RN,SN)       output(Q,QN) DR=AND2(D,RN) SET=INV1(SN) DRS=OR2(DR,SET) Q=DFF(DRS,CK) QN=INV1(Q) ;
SDFFSRX1 input(CK,D,RN,SE,SI,SN) output(Q,QN) DR=AND2(D,RN) SET=INV1(SN) DRS=OR2(DR,SET) DI=MUX21(DRS,SI,SE) Q=DFF(DI,CK) QN=INV1(Q) ;

TLATSRX1 input(D,G,RN,SN) output(Q,QN) DR=AND2(D,RN) SET=INV1(SN) DRS=OR2(DR,SET) Q=LATCH(DRS,G) QN=INV1(Q) ;
TLATX1   input(C,D)       output(Q,QN) Q=LATCH(D,C) QN=INV1(Q) ;
""")
"""The GSC 180nm generic standard cell library.
"""


_nangate_common = r"""
FILLCELL_X{1,2,4,8,16,32} ;

LOGIC0_X1 output(Z) Z=__const0__() ;
LOGIC1_X1 output(Z) Z=__const1__() ;

BUF_X{1,2,4,8,16,32}  input(A) output(Z)  Z=BUF1(A)  ;
CLKBUF_X{1,2,3}       input(A) output(Z)  Z=BUF1(A)  ;

NAND2_X{1,2,4} input(A1,A2)       output(ZN) ZN=NAND2(A1,A2)       ;
NAND3_X{1,2,4} input(A1,A2,A3)    output(ZN) ZN=NAND3(A1,A2,A3)    ;
NAND4_X{1,2,4} input(A1,A2,A3,A4) output(ZN) ZN=NAND4(A1,A2,A3,A4) ;
NOR2_X{1,2,4}  input(A1,A2)       output(ZN) ZN=NOR2(A1,A2)        ;
NOR3_X{1,2,4}  input(A1,A2,A3)    output(ZN) ZN=NOR3(A1,A2,A3)     ;
NOR4_X{1,2,4}  input(A1,A2,A3,A4) output(ZN) ZN=NOR4(A1,A2,A3,A4)  ;

AOI21_X{1,2,4} input(A,B1,B2)     output(ZN) ZN=AOI21(B1,B2,A)     ;
OAI21_X{1,2,4} input(A,B1,B2)     output(ZN) ZN=OAI21(B1,B2,A)     ;
AOI22_X{1,2,4} input(A1,A2,B1,B2) output(ZN) ZN=AOI22(A1,A2,B1,B2) ;
OAI22_X{1,2,4} input(A1,A2,B1,B2) output(ZN) ZN=OAI22(A1,A2,B1,B2) ;

OAI211_X{1,2,4} input(A,B,C1,C2) output(ZN) ZN=OAI211(C1,C2,A,B)   ;
AOI211_X{1,2,4} input(A,B,C1,C2) output(ZN) ZN=AOI211(C1,C2,A,B)   ;

MUX2_X{1,2} input(A,B,S) output(Z) Z=MUX21(A,B,S) ;

AOI221_X{1,2,4} input(A,B1,B2,C1,C2) output(ZN) BC=AO22(B1,B2,C1,C2) ZN=NOR2(BC,A)  ;
OAI221_X{1,2,4} input(A,B1,B2,C1,C2) output(ZN) BC=OA22(B1,B2,C1,C2) ZN=NAND2(BC,A) ;

AOI222_X{1,2,4} input(A1,A2,B1,B2,C1,C2) output(ZN) BC=AO22(B1,B2,C1,C2) ZN=AOI21(A1,A2,BC) ;
OAI222_X{1,2,4} input(A1,A2,B1,B2,C1,C2) output(ZN) BC=OA22(B1,B2,C1,C2) ZN=OAI21(A1,A2,BC) ;

OAI33_X1 input(A1,A2,A3,B1,B2,B3) output(ZN) AA=OR2(A1,A2) BB=OR2(B1,B2) ZN=OAI22(AA,A3,BB,B3) ;

HA_X1 input(A,B) output(CO,S) S=XOR2(A,B) CO=AND2(A,B) ;

FA_X1 input(A,B,CI) output(CO,S) AB=XOR2(A,B) S=XOR2(AB,CI) CO=AO22(AB,CI,A,B) ;

CLKGATE_X{1,2,4,8} input(CK,E) output(GCK) GCK=AND2(CK,E) ;

CLKGATETST_X{1,2,4,8} input(CK,E,SE) output(GCK) GCK=OA21(CK,E,SE) ;

DFF_X{1,2}   input(D,CK)       output(Q,QN)  Q=DFF(D,CK) QN=INV1(Q) ;
DFFR_X{1,2}  input(D,RN,CK)    output(Q,QN)  DR=AND2(D,RN) Q=DFF(DR,CK) QN=INV1(Q) ;
DFFS_X{1,2}  input(D,SN,CK)    output(Q,QN)  S=INV1(SN) DS=OR2(D,S) Q=DFF(DS,CK) QN=INV1(Q) ;
DFFRS_X{1,2} input(D,RN,SN,CK) output(Q,QN)  S=INV1(SN) DS=OR2(D,S) DRS=AND2(DS,RN) Q=DFF(DRS,CK) QN=INV1(Q) ;

SDFF_X{1,2}   input(D,SE,SI,CK)       output(Q,QN)  DI=MUX21(D,SI,SE) Q=DFF(DI,CK) QN=INV1(Q) ;
SDFFR_X{1,2}  input(D,RN,SE,SI,CK)    output(Q,QN)  DR=AND2(D,RN) DI=MUX21(DR,SI,SE) Q=DFF(DI,CK) QN=INV1(Q) ;
SDFFS_X{1,2}  input(D,SE,SI,SN,CK)    output(Q,QN)  S=INV1(SN) DS=OR2(D,S) DI=MUX21(DS,SI,SE) Q=DFF(DI,CK) QN=INV1(Q) ;
SDFFRS_X{1,2} input(D,RN,SE,SI,SN,CK) output(Q,QN)  S=INV1(SN) DS=OR2(D,S) DRS=AND2(DS,RN) DI=MUX21(DRS,SI,SE) Q=DFF(DI,CK) QN=INV1(Q) ;

TBUF_X{1,2,4,8,16} input(A,EN)   output(Z)  Z=BUF1(A)    ;
TINV_X1            input(I,EN)   output(ZN) ZN=INV1(I)   ;
TLAT_X1            input(D,G,OE) output(Q)  Q=LATCH(D,G) ;

DLH_X{1,2} input(D,G) output(Q)  Q=LATCH(D,G)            ;
DLL_X{1,2} input(D,GN) output(Q) G=INV1(GN) Q=LATCH(D,G) ;
"""


NANGATE = TechLib(_nangate_common + r"""
INV_X{1,2,4,8,16,32}  input(I) output(ZN) ZN=INV1(I) ;

AND2_X{1,2,4}  input(A1,A2)       output(Z)  Z=AND2(A1,A2)        ;
AND3_X{1,2,4}  input(A1,A2,A3)    output(Z)  Z=AND3(A1,A2,A3)     ;
AND4_X{1,2,4}  input(A1,A2,A3,A4) output(Z)  Z=AND4(A1,A2,A3,A4)  ;
OR2_X{1,2,4}   input(A1,A2)       output(Z)  Z=OR2(A1,A2)         ;
OR3_X{1,2,4}   input(A1,A2,A3)    output(Z)  Z=OR3(A1,A2,A3)      ;
OR4_X{1,2,4}   input(A1,A2,A3,A4) output(Z)  Z=OR4(A1,A2,A3,A4)   ;
XOR2_X{1,2}    input(A1,A2)       output(Z)  Z=XOR2(A1,A2)        ;
XNOR2_X{1,2}   input(A1,A2)       output(ZN) ZN=XNOR2(A1,A2)      ;
""")
"""An newer NANGATE-variant that uses 'Z' as output pin names for AND and OR gates.
"""


NANGATE_ZN = TechLib(_nangate_common + r"""
INV_X{1,2,4,8,16,32}  input(A) output(ZN) ZN=INV1(A) ;

AND2_X{1,2,4}  input(A1,A2)       output(ZN) ZN=AND2(A1,A2)        ;
AND3_X{1,2,4}  input(A1,A2,A3)    output(ZN) ZN=AND3(A1,A2,A3)     ;
AND4_X{1,2,4}  input(A1,A2,A3,A4) output(ZN) ZN=AND4(A1,A2,A3,A4)  ;
OR2_X{1,2,4}   input(A1,A2)       output(ZN) ZN=OR2(A1,A2)         ;
OR3_X{1,2,4}   input(A1,A2,A3)    output(ZN) ZN=OR3(A1,A2,A3)      ;
OR4_X{1,2,4}   input(A1,A2,A3,A4) output(ZN) ZN=OR4(A1,A2,A3,A4)   ;
XOR2_X{1,2}    input(A,B)         output(Z)  Z=XOR2(A,B)           ;
XNOR2_X{1,2}   input(A,B)         output(ZN) ZN=XNOR2(A,B)         ;
""")
"""An older NANGATE-variant that uses 'ZN' as output pin names for AND and OR gates.
"""


SAED32 = TechLib(r"""
NBUFFX{2,4,8,16,32}$ input(A) output(Y) Y=BUF1(A) ;
AOBUFX{1,2,4}$       input(A) output(Y) Y=BUF1(A) ;
DELLN{1,2,3}X2$      input(A) output(Y) Y=BUF1(A) ;

INVX{0,1,2,4,8,16,32}$ input(A) output(Y) Y=INV1(A) ;
AOINVX{1,2,4}$         input(A) output(Y) Y=INV1(A) ;
IBUFFX{2,4,8,16,32}$   input(A) output(Y) Y=INV1(A) ;

TIEH$ output(Y) Y=__const1__() ;
TIEL$ output(Y) Y=__const0__() ;

HEAD2X{2,4,8,16,32}$ input(SLEEP) output(SLEEPOUT) SLEEPOUT=BUF1(SLEEP) ;
HEADX{2,4,8,16,32}$  input(SLEEP) ;

FOOT2X{2,4,8,16,32}$ input(SLEEP) output(SLEEPOUT) SLEEPOUT=BUF1(SLEEP) ;
FOOTX{2,4,8,16,32}$  input(SLEEP) ;

ANTENNA$ input(INP)   ;
CLOAD1$  input(A)     ;
DCAP$                 ;
DHFILLH2$             ;
DHFILLHL2$            ;
DHFILLHLHLS11$        ;
SHFILL{1,2,3,64,128}$ ;

AND2X{1,2,4}$    input(A1,A2)       output(Y) Y=AND2(A1,A2)        ;
AND3X{1,2,4}$    input(A1,A2,A3)    output(Y) Y=AND3(A1,A2,A3)     ;
AND4X{1,2,4}$    input(A1,A2,A3,A4) output(Y) Y=AND4(A1,A2,A3,A4)  ;
OR2X{1,2,4}$     input(A1,A2)       output(Y) Y=OR2(A1,A2)         ;
OR3X{1,2,4}$     input(A1,A2,A3)    output(Y) Y=OR3(A1,A2,A3)      ;
OR4X{1,2,4}$     input(A1,A2,A3,A4) output(Y) Y=OR4(A1,A2,A3,A4)   ;
XOR2X{1,2}$      input(A1,A2)       output(Y) Y=XOR2(A1,A2)        ;
XOR3X{1,2}$      input(A1,A2,A3)    output(Y) Y=XOR3(A1,A2,A3)     ;
NAND2X{0,1,2,4}$ input(A1,A2)       output(Y) Y=NAND2(A1,A2)       ;
NAND3X{0,1,2,4}$ input(A1,A2,A3)    output(Y) Y=NAND3(A1,A2,A3)    ;
NAND4X{0,1}$     input(A1,A2,A3,A4) output(Y) Y=NAND4(A1,A2,A3,A4) ;
NOR2X{0,1,2,4}$  input(A1,A2)       output(Y) Y=NOR2(A1,A2)        ;
NOR3X{0,1,2,4}$  input(A1,A2,A3)    output(Y) Y=NOR3(A1,A2,A3)     ;
NOR4X{0,1}$      input(A1,A2,A3,A4) output(Y) Y=NOR4(A1,A2,A3,A4)  ;
XNOR2X{1,2}$     input(A1,A2)       output(Y) Y=XNOR2(A1,A2)       ;
XNOR3X{1,2}$     input(A1,A2,A3)    output(Y) Y=XNOR3(A1,A2,A3)    ;

ISOLAND{,AO}X{1,2,4,8}$ input(ISO,D) output(Q) ISOB=NOT1(ISO) Q=AND2(ISOB,D) ;
ISOLOR{,AO}X{1,2,4,8}$  input(ISO,D) output(Q) Q=OR2(ISO,D)  ;

AO21X{1,2}$  input(A1,A2,A3) output(Y) Y=AO21(A1,A2,A3)  ;
OA21X{1,2}$  input(A1,A2,A3) output(Y) Y=OA21(A1,A2,A3)  ;
AOI21X{1,2}$ input(A1,A2,A3) output(Y) Y=AOI21(A1,A2,A3) ;
OAI21X{1,2}$ input(A1,A2,A3) output(Y) Y=OAI21(A1,A2,A3) ;

AO22X{1,2}$  input(A1,A2,A3,A4) output(Y) Y=AO22(A1,A2,A3,A4)  ;
OA22X{1,2}$  input(A1,A2,A3,A4) output(Y) Y=OA22(A1,A2,A3,A4)  ;
AOI22X{1,2}$ input(A1,A2,A3,A4) output(Y) Y=AOI22(A1,A2,A3,A4) ;
OAI22X{1,2}$ input(A1,A2,A3,A4) output(Y) Y=OAI22(A1,A2,A3,A4) ;

MUX21X{1,2}$ input(A1,A2,S0) output(Y) Y=MUX21(A1,A2,S0) ;

AO221X{1,2}$  input(A1,A2,A3,A4,A5) output(Y) A=AO22(A1,A2,A3,A4) Y=OR2(A5,A)   ;
OA221X{1,2}$  input(A1,A2,A3,A4,A5) output(Y) A=OA22(A1,A2,A3,A4) Y=AND2(A5,A)  ;
AOI221X{1,2}$ input(A1,A2,A3,A4,A5) output(Y) A=AO22(A1,A2,A3,A4) Y=NOR2(A5,A)  ;
OAI221X{1,2}$ input(A1,A2,A3,A4,A5) output(Y) A=OA22(A1,A2,A3,A4) Y=NAND2(A5,A) ;

AO222X{1,2}$ input(A1,A2,A3,A4,A5,A6)  output(Y) A=AO22(A1,A2,A3,A4) Y=AO21(A5,A6,A)  ;
OA222X{1,2}$ input(A1,A2,A3,A4,A5,A6)  output(Y) A=OA22(A1,A2,A3,A4) Y=OA21(A5,A6,A)  ;
AOI222X{1,2}$ input(A1,A2,A3,A4,A5,A6) output(Y) A=AO22(A1,A2,A3,A4) Y=AOI21(A5,A6,A) ;
OAI222X{1,2}$ input(A1,A2,A3,A4,A5,A6) output(Y) A=OA22(A1,A2,A3,A4) Y=OAI21(A5,A6,A) ;

MUX41X{1,2}$ input(A1,A2,A3,A4,S0,S1) output(Y) A=MUX21(A1,A2,S0) B=MUX21(A3,A4,S0) Y=MUX21(A,B,S1) ;

DEC24X{1,2}$ input(A0,A1) output(Y0,Y1,Y2,Y3) A0B=INV1(A0) A1B=INV1(A1) Y0=NOR2(A0,A1) Y1=AND(A0,A1B) Y2=AND(A0B,A1) Y3=AND(A0,A1) ;
FADDX{1,2}$ input(A,B,CI) output(S,CO) AB=XOR2(A,B) S=XOR2(AB,CI) CO=AO22(AB,CI,A,B) ;
HADDX{1,2}$ input(A0,B0) output(SO,C1) SO=XOR2(A0,B0) C1=AND2(A0,B0) ;

{,AO}DFFARX{1,2}$ input(D,CLK,RSTB)      output(Q,QN) DR=AND2(D,RSTB) Q=DFF(DR,CLK) QN=INV1(Q) ;
DFFASRX{1,2}$     input(D,CLK,RSTB,SETB) output(Q,QN) DR=AND2(D,RSTB) SET=INV1(SETB) DRS=OR2(DR,SET) Q=DFF(DRS,CLK) QN=INV1(Q) ;
DFFASX{1,2}$      input(D,CLK,SETB)      output(Q,QN) SET=INV1(SETB) DS=OR2(D,SET) Q=DFF(DS,CLK) QN=INV1(Q) ;
DFFSSRX{1,2}$     input(CLK,D,RSTB,SETB) output(Q,QN) DR=AND2(D,RSTB) SET=INV1(SETB) DRS=OR2(DR,SET) Q=DFF(DRS,CLK) QN=INV1(Q) ;
DFFX{1,2}$        input(D,CLK)           output(Q,QN) Q=DFF(D,CLK) QN=INV1(Q) ;

SDFFARX{1,2}$   input(D,CLK,RSTB,SE,SI)      output(Q,QN) DR=AND2(D,RSTB) DI=MUX21(DR,SI,SE) Q=DFF(DI,CLK) QN=INV1(Q) ;
SDFFASRSX{1,2}$ input(D,CLK,RSTB,SETB,SE,SI) output(Q,QN,SO) DR=AND2(D,RSTB) SET=INV1(SETB) DRS=OR2(DR,SET) DI=MUX21(DRS,SI,SE) Q=DFF(DI,CLK) QN=INV1(Q) SO=BUF1(Q) ;
SDFFASRX{1,2}$  input(D,CLK,RSTB,SETB,SE,SI) output(Q,QN) DR=AND2(D,RSTB) SET=INV1(SETB) DRS=OR2(DR,SET) DI=MUX21(DRS,SI,SE) Q=DFF(DI,CLK) QN=INV1(Q) ;
SDFFASX{1,2}$   input(D,CLK,SETB,SE,SI)      output(Q,QN) SET=INV1(SETB) DS=OR2(D,SET) DI=MUX21(DS,SI,SE) Q=DFF(DI,CLK) QN=INV1(Q) ;
SDFFSSRX{1,2}$  input(CLK,D,RSTB,SETB,SI,SE) output(Q,QN) DR=AND2(D,RSTB) SET=INV1(SETB) DRS=OR2(DR,SET) DI=MUX21(DRS,SI,SE) Q=DFF(DI,CLK) QN=INV1(Q) ;
SDFFX{1,2}$     input(D,CLK,SE,SI)           output(Q,QN) DI=MUX21(D,SI,SE) Q=DFF(DI,CLK) QN=INV1(Q) ;

LATCHX{1,2}$ input(D,CLK) output(Q,QN) Q=LATCH(D,CLK) QN=INV1(Q) ;
""".replace('$','_RVT'))
"""The SAED 32nm educational technology library.
It defines all cells except: negative-edge flip-flops, tri-state, latches, clock gating, level shifters
"""


SAED90 = TechLib(r"""
NBUFFX{2,4,8,16,32}$ input(INP) output(Z) Z=BUF1(INP) ;
AOBUFX{1,2,4}$       input(INP) output(Z) Z=BUF1(INP) ;
DELLN{1,2,3}X2$      input(INP) output(Z)Z=BUF1(INP) ;

INVX{0,1,2,4,8,16,32}$ input(INP) output(ZN) ZN=INV1(INP) ;
AOINVX{1,2,4}$         input(INP) output(ZN) ZN=INV1(INP) ;
IBUFFX{2,4,8,16,32}$   input(INP) output(ZN) ZN=INV1(INP) ;

TIEH$ output(Z)   Z=__const1__() ;
TIEL$ output(ZN) ZN=__const0__() ;

HEAD2X{2,4,8,16,32}$ input(SLEEP) output(SLEEPOUT) SLEEPOUT=BUF1(SLEEP) ;
HEADX{2,4,8,16,32}$  input(SLEEP) ;

ANTENNA$ input(INP)   ;
CLOAD1$  input(INP)   ;
DCAP$                 ;
DHFILL{HLH,LHL}2      ;
DHFILLHLHLS11$        ;
SHFILL{1,2,3,64,128}$ ;

AND2X{1,2,4}$    input(IN1,IN2)         output(Q)   Q=AND2(IN1,IN2)          ;
AND3X{1,2,4}$    input(IN1,IN2,IN3)     output(Q)   Q=AND3(IN1,IN2,IN3)      ;
AND4X{1,2,4}$    input(IN1,IN2,IN3,IN4) output(Q)   Q=AND4(IN1,IN2,IN3,IN4)  ;
OR2X{1,2,4}$     input(IN1,IN2)         output(Q)   Q=OR2(IN1,IN2)           ;
OR3X{1,2,4}$     input(IN1,IN2,IN3)     output(Q)   Q=OR3(IN1,IN2,IN3)       ;
OR4X{1,2,4}$     input(IN1,IN2,IN3,IN4) output(Q)   Q=OR4(IN1,IN2,IN3,IN4)   ;
XOR2X{1,2}$      input(IN1,IN2)         output(Q)   Q=XOR2(IN1,IN2)          ;
XOR3X{1,2}$      input(IN1,IN2,IN3)     output(Q)   Q=XOR3(IN1,IN2,IN3)      ;
NAND2X{0,1,2,4}$ input(IN1,IN2)         output(QN) QN=NAND2(IN1,IN2)         ;
NAND3X{0,1,2,4}$ input(IN1,IN2,IN3)     output(QN) QN=NAND3(IN1,IN2,IN3)     ;
NAND4X{0,1}$     input(IN1,IN2,IN3,IN4) output(QN) QN=NAND4(IN1,IN2,IN3,IN4) ;
NOR2X{0,1,2,4}$  input(IN1,IN2)         output(QN) QN=NOR2(IN1,IN2)          ;
NOR3X{0,1,2,4}$  input(IN1,IN2,IN3)     output(QN) QN=NOR3(IN1,IN2,IN3)      ;
NOR4X{0,1}$      input(IN1,IN2,IN3,IN4) output(QN) QN=NOR4(IN1,IN2,IN3,IN4)  ;
XNOR2X{1,2}$     input(IN1,IN2)         output(Q)   Q=XNOR2(IN1,IN2)         ;
XNOR3X{1,2}$     input(IN1,IN2,IN3)     output(Q)   Q=XNOR3(IN1,IN2,IN3)     ;

ISOLAND{,AO}X{1,2,4,8}$ input(ISO,D) output(Q) ISOB=NOT1(ISO) Q=AND2(ISOB,D) ;
ISOLOR{,AO}X{1,2,4,8}$  input(ISO,D) output(Q) Q=OR2(ISO,D)  ;

AO21X{1,2}$  input(IN1,IN2,IN3) output(Q)   Q=AO21(IN1,IN2,IN3)  ;
OA21X{1,2}$  input(IN1,IN2,IN3) output(Q)   Q=OA21(IN1,IN2,IN3)  ;
AOI21X{1,2}$ input(IN1,IN2,IN3) output(QN) QN=AOI21(IN1,IN2,IN3) ;
OAI21X{1,2}$ input(IN1,IN2,IN3) output(QN) QN=OAI21(IN1,IN2,IN3) ;

AO22X{1,2}$  input(IN1,IN2,IN3,IN4) output(Q)   Q=AO22(IN1,IN2,IN3,IN4)  ;
OA22X{1,2}$  input(IN1,IN2,IN3,IN4) output(Q)   Q=OA22(IN1,IN2,IN3,IN4)  ;
AOI22X{1,2}$ input(IN1,IN2,IN3,IN4) output(QN) QN=AOI22(IN1,IN2,IN3,IN4) ;
OAI22X{1,2}$ input(IN1,IN2,IN3,IN4) output(QN) QN=OAI22(IN1,IN2,IN3,IN4) ;

MUX21X{1,2}$ input(IN1,IN2,S) output(Q) Q=MUX21(IN1,IN2,S) ;

AO221X{1,2}$  input(IN1,IN2,IN3,IN4,IN5) output(Q)  A=AO22(IN1,IN2,IN3,IN4)  Q=OR2(IN5,A)   ;
OA221X{1,2}$  input(IN1,IN2,IN3,IN4,IN5) output(Q)  A=OA22(IN1,IN2,IN3,IN4)  Q=AND2(IN5,A)  ;
AOI221X{1,2}$ input(IN1,IN2,IN3,IN4,IN5) output(QN) A=AO22(IN1,IN2,IN3,IN4) QN=NOR2(IN5,A)  ;
OAI221X{1,2}$ input(IN1,IN2,IN3,IN4,IN5) output(QN) A=OA22(IN1,IN2,IN3,IN4) QN=NAND2(IN5,A) ;

AO222X{1,2}$ input(IN1,IN2,IN3,IN4,IN5,IN6)  output(Q)  A=AO22(IN1,IN2,IN3,IN4)  Q=AO21(IN5,IN6,A)  ;
OA222X{1,2}$ input(IN1,IN2,IN3,IN4,IN5,IN6)  output(Q)  A=OA22(IN1,IN2,IN3,IN4)  Q=OA21(IN5,IN6,A)  ;
AOI222X{1,2}$ input(IN1,IN2,IN3,IN4,IN5,IN6) output(QN) A=AO22(IN1,IN2,IN3,IN4) QN=AOI21(IN5,IN6,A) ;
OAI222X{1,2}$ input(IN1,IN2,IN3,IN4,IN5,IN6) output(QN) A=OA22(IN1,IN2,IN3,IN4) QN=OAI21(IN5,IN6,A) ;

MUX41X{1,2}$ input(IN1,IN2,IN3,IN4,S0,S1) output(Q) A=MUX21(IN1,IN2,S0) B=MUX21(IN3,IN4,S0) Q=MUX21(A,B,S1) ;

DEC24X{1,2}$ input(IN1,IN2) output(Q0,Q1,Q2,Q3) IN1B=INV1(IN1) IN2B=INV1(IN2) Q0=NOR2(IN1,IN2) Q1=AND(IN1,IN2B) Q2=AND(IN1B,IN2) Q3=AND(IN1,IN2) ;
FADDX{1,2}$ input(A,B,CI) output(S,CO) AB=XOR2(A,B) S=XOR2(AB,CI) CO=AO22(AB,CI,A,B) ;
HADDX{1,2}$ input(A0,B0) output(SO,C1) SO=XOR2(A0,B0) C1=AND2(A0,B0) ;

{,AO}DFFARX{1,2}$ input(D,CLK,RSTB)      output(Q,QN) DR=AND2(D,RSTB) Q=DFF(DR,CLK) QN=INV1(Q) ;
DFFASRX{1,2}$     input(D,CLK,RSTB,SETB) output(Q,QN) DR=AND2(D,RSTB) SET=INV1(SETB) DRS=OR2(DR,SET) Q=DFF(DRS,CLK) QN=INV1(Q) ;
DFFASX{1,2}$      input(D,CLK,SETB)      output(Q,QN) SET=INV1(SETB) DS=OR2(D,SET) Q=DFF(DS,CLK) QN=INV1(Q) ;
DFFSSRX{1,2}$     input(CLK,D,RSTB,SETB) output(Q,QN) DR=AND2(D,RSTB) SET=INV1(SETB) DRS=OR2(DR,SET) Q=DFF(DRS,CLK) QN=INV1(Q) ;
DFFX{1,2}$        input(D,CLK)           output(Q,QN) Q=DFF(D,CLK) QN=INV1(Q) ;

SDFFARX{1,2}$   input(D,CLK,RSTB,SE,SI)      output(Q,QN) DR=AND2(D,RSTB) DI=MUX21(DR,SI,SE) Q=DFF(DI,CLK) QN=INV1(Q) ;
SDFFASRSX{1,2}$ input(D,CLK,RSTB,SETB,SE,SI) output(Q,QN,S0) DR=AND2(D,RSTB) SET=INV1(SETB) DRS=OR2(DR,SET) DI=MUX21(DRS,SI,SE) Q=DFF(DI,CLK) QN=INV1(Q) S0=BUF1(Q) ;
SDFFASRX{1,2}$  input(D,CLK,RSTB,SETB,SE,SI) output(Q,QN) DR=AND2(D,RSTB) SET=INV1(SETB) DRS=OR2(DR,SET) DI=MUX21(DRS,SI,SE) Q=DFF(DI,CLK) QN=INV1(Q) ;
SDFFASX{1,2}$   input(D,CLK,SETB,SE,SI)      output(Q,QN) SET=INV1(SETB) DS=OR2(D,SET) DI=MUX21(DS,SI,SE) Q=DFF(DI,CLK) QN=INV1(Q) ;
SDFFSSRX{1,2}$  input(CLK,D,RSTB,SETB,SI,SE) output(Q,QN) DR=AND2(D,RSTB) SET=INV1(SETB) DRS=OR2(DR,SET) DI=MUX21(DRS,SI,SE) Q=DFF(DI,CLK) QN=INV1(Q) ;
SDFFX{1,2}$     input(D,CLK,SE,SI)           output(Q,QN) DI=MUX21(D,SI,SE) Q=DFF(DI,CLK) QN=INV1(Q) ;

LATCHX{1,2}$ input(D,CLK) output(Q,QN) Q=LATCH(D,CLK) QN=INV1(Q) ;
""".replace('$','{,_LVT,_HVT}'))
"""The SAED 90nm educational technology library.
It defines all cells except: negative-edge flip-flops, tri-state, latches, clock gating, level shifters
"""
