"""High-throughput combinational logic timing simulators.

These simulators work similarly to :py:class:`~kyupy.logic_sim.LogicSim`.
They propagate values through the combinational circuit from (pseudo) primary inputs to (pseudo) primary outputs.
Instead of propagating logic values, these simulators propagate signal histories (waveforms).
They are designed to run many simulations in parallel and while their latencies are quite high, they can achieve
high throughput.

The simulators are not event-based and are not capable of simulating sequential circuits directly.

Two simulators are available: :py:class:`WaveSim` runs on the CPU, and the derived class
:py:class:`WaveSimCuda` runs on the GPU.
"""

import math

import numpy as np

from . import numba, cuda, sim, cdiv


TMAX = np.float32(2 ** 127)
"""A large 32-bit floating point value used to mark the end of a waveform."""
TMAX_OVL = np.float32(1.1 * 2 ** 127)
"""A large 32-bit floating point value used to mark the end of a waveform that
may be incomplete due to an overflow."""
TMIN = np.float32(-2 ** 127)
"""A large negative 32-bit floating point value used at the beginning of waveforms that start with logic-1."""


class WaveSim(sim.SimOps):
    """A waveform-based combinational logic timing simulator running on CPU.

    :param circuit: The circuit to simulate.
    :param delays: One or more delay annotations for the circuit (see :py:func:`kyupy.sdf.DelayFile.iopaths` for details).
        Each parallel simulation may use the same delays or different delays, depending on the use-case (see :py:attr:`simctl_int`).
    :param sims: The number of parallel simulations.
    :param c_caps: The number of floats available in each waveform. Values must be positive and a multiple of 4.
        Waveforms encode the signal switching history by storing transition times.
        The waveform capacity roughly corresponds to the number of transitions
        that can be stored. A capacity of ``n`` can store at least ``n-2`` transitions. If more transitions are
        generated during simulation, the latest glitch is removed (freeing up two transition times) and an overflow
        flag is set. If an integer is given, all waveforms are set to that same capacity. With an array of length
        ``len(circuit.lines)`` the capacity is set individually for each intermediate waveform.
    :param a_ctrl: An integer array controlling the accumulation of weighted switching activity during simulation.
        Its shape must be ``(len(circuit.lines), 3)``. ``a_ctrl[...,0]`` is the index into the accumulation buffer, -1 means ignore.
        ``a_ctrl[...,1]`` is the (integer) weight for a rising transition, ``a_ctrl[...,2]`` is the (integer) weight for
        a falling transition. The accumulation buffer (:py:attr:`abuf`) is allocated automatically if ``a_ctrl`` is given.
    :param c_reuse: If enabled, memory of intermediate signal waveforms will be re-used. This greatly reduces
        memory footprint, but intermediate signal waveforms may become unaccessible after a propagation.
    :param strip_forks: If enabled, the simulator will not evaluate fork nodes explicitly. This saves simulation time
        and memory by reducing the number of nodes to simulate, but (interconnect) delay annotations of lines read by fork nodes
        are ignored.
    """
    def __init__(self, circuit, delays, sims=8, c_caps=16, a_ctrl=None, c_reuse=False, strip_forks=False):
        super().__init__(circuit, c_caps=c_caps, c_caps_min=4, a_ctrl=a_ctrl, c_reuse=c_reuse, strip_forks=strip_forks)
        self.sims = sims
        if delays.ndim == 3: delays = np.expand_dims(delays, axis=0)
        self.delays = np.zeros((len(delays), self.c_locs_len, 2, 2), dtype=delays.dtype)
        self.delays[:, :delays.shape[1]] = delays

        self.c = np.zeros((self.c_len, sims), dtype=np.float32) + TMAX
        self.s = np.zeros((11, self.s_len, sims), dtype=np.float32)
        """Information about the logic values and transitions around the sequential elements (flip-flops) and ports.

        The first 3 values are read by :py:func:`s_to_c`.
        The remaining values are written by :py:func:`c_to_s`.

        The elements are as follows:

        * ``s[0]`` (P)PI initial value
        * ``s[1]`` (P)PI transition time
        * ``s[2]`` (P)PI final value
        * ``s[3]`` (P)PO initial value
        * ``s[4]`` (P)PO earliest arrival time (EAT): The time at which the output transitioned from its initial value.
        * ``s[5]`` (P)PO latest stabilization time (LST): The time at which the output settled to its final value.
        * ``s[6]`` (P)PO final value
        * ``s[7]`` (P)PO capture value: probability of capturing a 1 at a given capture time
        * ``s[8]`` (P)PO sampled capture value: decided by random sampling according to a given seed.
        * ``s[9]`` (P)PO sampled capture slack: (capture time - LST) - decided by random sampling according to a given seed.
        * ``s[10]`` Overflow indicator: If non-zero, some signals in the input cone of this output had more
          transitions than specified in ``c_caps``. Some transitions have been discarded, the
          final values in the waveforms are still valid.
        """

        self.abuf_len = self.ops[:,6].max() + 1
        self.abuf = np.zeros((self.abuf_len, sims), dtype=np.int32) if self.abuf_len > 0 else np.zeros((1, 1), dtype=np.int32)

        self.simctl_int = np.zeros((2, sims), dtype=np.int32)
        """Integer array for per-simulation delay configuration.

        * ``simctl_int[0]`` delay dataset or random seed for picking a delay. By default, each sim has a unique seed.
        * ``simctl_int[1]`` Method for picking a delay:
            * 0: seed parameter of :py:func:`c_prop` directly specifies dataset for all simulations
            * 1: ``simctl_int[0]`` specifies dataset on a per-simulation basis
            * 2 (default): ``simctl_int[0]`` and seed parameter of :py:func:`c_prop` together are a random seed for picking a delay dataset.
        """
        self.simctl_int[0] = range(sims)  # unique seed for each sim by default, zero this to pick same delays for all sims.
        self.simctl_int[1] = 2  # random picking by default.

        self.nbytes = sum([a.nbytes for a in (self.c, self.s, self.c_locs, self.c_caps, self.ops, self.simctl_int)])

    def __repr__(self):
        dev = 'GPU' if hasattr(self.c, 'copy_to_host') else 'CPU'
        return f'{{name: "{self.circuit.name}", device: "{dev}", sims: {self.sims}, ops: {len(self.ops)}, ' + \
               f'levels: {len(self.level_starts)}, nbytes: {self.nbytes}}}'

    def s_to_c(self):
        """Transfers values of sequential elements and primary inputs to the combinational portion.

        Waveforms are generated on the input lines of the combinational circuit based on the data in :py:attr:`s`.
        """
        sins = self.s[:, self.pippi_s_locs]
        cond = (sins[2] != 0) + 2*(sins[0] != 0)  # choices order: 0 R F 1
        self.c[self.pippi_c_locs] = np.choose(cond, [TMAX, sins[1], TMIN, TMIN])
        self.c[self.pippi_c_locs+1] = np.choose(cond, [TMAX, TMAX, sins[1], TMAX])
        self.c[self.pippi_c_locs+2] = TMAX

    def c_prop(self, sims=None, seed=1):
        """Propagates all waveforms from the (pseudo) primary inputs to the (pseudo) primary outputs.

        :param sims: Number of parallel simulations to execute. If None, all available simulations are performed.
        :param seed: Seed for picking delays. See also: :py:attr:`simctl_int`.
        """
        sims = min(sims or self.sims, self.sims)
        for op_start, op_stop in zip(self.level_starts, self.level_stops):
            level_eval_cpu(self.ops, op_start, op_stop, self.c, self.c_locs, self.c_caps, self.abuf, 0, sims, self.delays, self.simctl_int, seed)

    def c_to_s(self, time=TMAX, sd=0.0, seed=1):
        """Simulates a capture operation at all sequential elements and primary outputs.

        Propagated waveforms at the outputs of the combinational circuit at and around the given capture time are analyzed and
        the results are stored in :py:attr:`s`.

        :param time: The desired capture time. By default, a capture of the settled value is performed.
        :param sd: A standard deviation for uncertainty in the actual capture time.
        :param seed: The random seed for a capture with uncertainty.
        """
        for s_loc, c_loc, c_len in zip(self.poppo_s_locs, self.c_locs[self.ppo_offset+self.poppo_s_locs], self.c_caps[self.ppo_offset+self.poppo_s_locs]):
            for vector in range(self.sims):
                self.s[3:, s_loc, vector] = wave_capture_cpu(self.c, c_loc, c_len, vector, time=time, sd=sd, seed=seed)

    def s_ppo_to_ppi(self, time=0.0):
        """Re-assigns the last sampled capture of the PPOs to the appropriate pseudo-primary inputs (PPIs).
        Each PPI transition is constructed from the final value of the previous assignment, the
        given time, and the sampled captured value of its PPO. Reads and modifies :py:attr:`s`.

        :param time: The transition time at the inputs (usually 0.0).
        """
        self.s[0, self.ppio_s_locs] = self.s[2, self.ppio_s_locs]
        self.s[1, self.ppio_s_locs] = time
        self.s[2, self.ppio_s_locs] = self.s[8, self.ppio_s_locs]


def _wave_eval(op, cbuf, c_locs, c_caps, sim, delays, simctl_int, seed=0):
    overflows = int(0)

    lut = op[0]
    z_idx = op[1]
    a_idx = op[2]
    b_idx = op[3]
    c_idx = op[4]
    d_idx = op[5]

    if len(delays) > 1:
        if simctl_int[1] == 0:
            delays = delays[seed]
        elif simctl_int[1] == 1:
            delays = delays[simctl_int[0]]
        else:
            _rnd = (int(seed) << 4) + (int(z_idx) << 20) + int(simctl_int[0])
            for _ in range(4):
                _rnd = int(0xDEECE66D) * _rnd + 0xB
            delays = delays[_rnd % len(delays)]
    else:
        delays = delays[0]

    a_mem = c_locs[a_idx]
    b_mem = c_locs[b_idx]
    c_mem = c_locs[c_idx]
    d_mem = c_locs[d_idx]
    z_mem = c_locs[z_idx]
    z_cap = c_caps[z_idx]

    a_cur = int(0)
    b_cur = int(0)
    c_cur = int(0)
    d_cur = int(0)
    z_cur = lut & 1
    if z_cur == 1:
        cbuf[z_mem, sim] = TMIN

    z_val = z_cur

    a = cbuf[a_mem + a_cur, sim] + delays[a_idx, 0, z_val]
    b = cbuf[b_mem + b_cur, sim] + delays[b_idx, 0, z_val]
    c = cbuf[c_mem + c_cur, sim] + delays[c_idx, 0, z_val]
    d = cbuf[d_mem + d_cur, sim] + delays[d_idx, 0, z_val]

    previous_t = TMIN

    current_t = min(a, b, c, d)
    inputs = int(0)

    while current_t < TMAX:
        if a == current_t:
            a_cur += 1
            inputs ^= 1
            thresh = delays[a_idx, a_cur & 1, z_val]
            a = cbuf[a_mem + a_cur, sim] + delays[a_idx, a_cur & 1, z_val]
            next_t = cbuf[a_mem + a_cur, sim] + delays[a_idx, (a_cur & 1) ^ 1, z_val ^ 1]
        elif b == current_t:
            b_cur += 1
            inputs ^= 2
            thresh = delays[b_idx, b_cur & 1, z_val]
            b = cbuf[b_mem + b_cur, sim] + delays[b_idx, b_cur & 1, z_val]
            next_t = cbuf[b_mem + b_cur, sim] + delays[b_idx, (b_cur & 1) ^ 1, z_val ^ 1]
        elif c == current_t:
            c_cur += 1
            inputs ^= 4
            thresh = delays[c_idx, c_cur & 1, z_val]
            c = cbuf[c_mem + c_cur, sim] + delays[c_idx, c_cur & 1, z_val]
            next_t = cbuf[c_mem + c_cur, sim] + delays[c_idx, (c_cur & 1) ^ 1, z_val ^ 1]
        else:
            d_cur += 1
            inputs ^= 8
            thresh = delays[d_idx, d_cur & 1, z_val]
            d = cbuf[d_mem + d_cur, sim] + delays[d_idx, d_cur & 1, z_val]
            next_t = cbuf[d_mem + d_cur, sim] + delays[d_idx, (d_cur & 1) ^ 1, z_val ^ 1]

        if (z_cur & 1) != ((lut >> inputs) & 1):
            # we generate an edge in z_mem, if ...
            if (z_cur == 0                            # it is the first edge in z_mem ...
                or next_t < current_t                 # -OR- the next edge on SAME input is EARLIER (need current edge to filter BOTH in next iteration) ...
                or (current_t - previous_t) > thresh  # -OR- the generated hazard is wider than pulse threshold.
                ):
                if z_cur < (z_cap - 1):  # enough space in z_mem?
                    cbuf[z_mem + z_cur, sim] = current_t
                    previous_t = current_t
                    z_cur += 1
                else:
                    overflows += 1
                    previous_t = cbuf[z_mem + z_cur - 1, sim]
                    z_cur -= 1
            else:
                z_cur -= 1
                previous_t = cbuf[z_mem + z_cur - 1, sim] if z_cur > 0 else TMIN

            # output value of cell changed. update all delayed inputs.
            z_val = z_val ^ 1
            a = cbuf[a_mem + a_cur, sim] + delays[a_idx, a_cur & 1, z_val]
            b = cbuf[b_mem + b_cur, sim] + delays[b_idx, b_cur & 1, z_val]
            c = cbuf[c_mem + c_cur, sim] + delays[c_idx, c_cur & 1, z_val]
            d = cbuf[d_mem + d_cur, sim] + delays[d_idx, d_cur & 1, z_val]

        current_t = min(a, b, c, d)

    # generate or propagate overflow flag
    cbuf[z_mem + z_cur, sim] = TMAX_OVL if overflows > 0 else max(a, b, c, d)

    nrise = max(0, (z_cur+1) // 2 - (cbuf[z_mem, sim] == TMIN))
    nfall = z_cur // 2

    return nrise, nfall


wave_eval_cpu = numba.njit(_wave_eval)


@numba.njit
def level_eval_cpu(ops, op_start, op_stop, c, c_locs, c_caps, abuf, sim_start, sim_stop, delays, simctl_int, seed):
    for op_idx in range(op_start, op_stop):
        op = ops[op_idx]
        for sim in range(sim_start, sim_stop):
            nrise, nfall = wave_eval_cpu(op, c, c_locs, c_caps, sim, delays, simctl_int[:, sim], seed)
            a_loc = op[6]
            a_wr = op[7]
            a_wf = op[8]
            if a_loc >= 0:
                abuf[a_loc, sim] += nrise*a_wr + nfall*a_wf


@numba.njit
def wave_capture_cpu(c, c_loc, c_len, vector, time=TMAX, sd=0.0, seed=1):
    s_sqrt2 = sd * math.sqrt(2)
    m = 0.5
    acc = 0.0
    eat = TMAX
    lst = TMIN
    tog = 0
    ovl = 0
    val = int(0)
    final = int(0)
    w = c[c_loc:c_loc+c_len, vector]
    for t in w:
        if t >= TMAX:
            if t == TMAX_OVL:
                ovl = 1
            break
        m = -m
        final ^= 1
        if t < time:
            val ^= 1
        if t <= TMIN: continue
        if s_sqrt2 > 0:
            acc += m * (1 + math.erf((t - time) / s_sqrt2))
        eat = min(eat, t)
        lst = max(lst, t)
        tog += 1
    if s_sqrt2 > 0:
        if m < 0:
            acc += 1
        if acc >= 0.99:
            val = 1
        elif acc > 0.01:
            seed = (seed << 4) + (vector << 20) + int(c_loc)
            seed = int(0xDEECE66D) * seed + 0xB
            seed = int(0xDEECE66D) * seed + 0xB
            rnd = float((seed >> 8) & 0xffffff) / float(1 << 24)
            val = rnd < acc
        else:
            val = 0
    else:
        acc = val

    return (w[0] <= TMIN), eat, lst, final, acc, val, 0, ovl


class WaveSimCuda(WaveSim):
    """A GPU-accelerated waveform-based combinational logic timing simulator.

    The API is identical to :py:class:`WaveSim`. See there for complete documentation.

    All internal memories are mirrored into GPU memory upon construction.
    Some operations like access to single waveforms can involve large communication overheads.
    """
    def __init__(self, circuit, delays, sims=8, c_caps=16, a_ctrl=None, c_reuse=False, strip_forks=False):
        super().__init__(circuit, delays, sims, c_caps, a_ctrl=a_ctrl, c_reuse=c_reuse, strip_forks=strip_forks)

        self.c = cuda.to_device(self.c)
        self.s = cuda.to_device(self.s)
        self.ops = cuda.to_device(self.ops)
        self.c_locs = cuda.to_device(self.c_locs)
        self.c_caps = cuda.to_device(self.c_caps)
        self.delays = cuda.to_device(self.delays)
        self.simctl_int = cuda.to_device(self.simctl_int)
        self.abuf = cuda.to_device(self.abuf)

        self._block_dim = (32, 16)

    def __getstate__(self):
        state = self.__dict__.copy()
        state['c'] = np.array(self.c)
        state['s'] = np.array(self.s)
        state['ops'] = np.array(self.ops)
        state['c_locs'] = np.array(self.c_locs)
        state['c_caps'] = np.array(self.c_caps)
        state['delays'] = np.array(self.delays)
        state['simctl_int'] = np.array(self.simctl_int)
        state['abuf'] = np.array(self.abuf)
        return state

    def __setstate__(self, state):
        self.__dict__.update(state)
        self.c = cuda.to_device(self.c)
        self.s = cuda.to_device(self.s)
        self.ops = cuda.to_device(self.ops)
        self.c_locs = cuda.to_device(self.c_locs)
        self.c_caps = cuda.to_device(self.c_caps)
        self.delays = cuda.to_device(self.delays)
        self.simctl_int = cuda.to_device(self.simctl_int)
        self.abuf = cuda.to_device(self.abuf)

    def s_to_c(self):
        grid_dim = self._grid_dim(self.sims, self.s_len)
        wave_assign_gpu[grid_dim, self._block_dim](self.c, self.s, self.c_locs, self.ppi_offset)

    def _grid_dim(self, x, y): return cdiv(x, self._block_dim[0]), cdiv(y, self._block_dim[1])

    def c_prop(self, sims=None, seed=1):
        sims = min(sims or self.sims, self.sims)
        for op_start, op_stop in zip(self.level_starts, self.level_stops):
            grid_dim = self._grid_dim(sims, op_stop - op_start)
            wave_eval_gpu[grid_dim, self._block_dim](self.ops, op_start, op_stop, self.c, self.c_locs, self.c_caps, self.abuf, int(0),
                sims, self.delays, self.simctl_int, seed)
        cuda.synchronize()

    def c_to_s(self, time=TMAX, sd=0.0, seed=1):
        grid_dim = self._grid_dim(self.sims, self.s_len)
        wave_capture_gpu[grid_dim, self._block_dim](self.c, self.s, self.c_locs, self.c_caps, self.ppo_offset,
            time, sd * math.sqrt(2), seed)

    def s_ppo_to_ppi(self, time=0.0):
        grid_dim = self._grid_dim(self.sims, self.s_len)
        ppo_to_ppi_gpu[grid_dim, self._block_dim](self.s, self.c_locs, time, self.ppi_offset, self.ppo_offset, len(self.circuit.io_nodes))


@cuda.jit()
def wave_assign_gpu(c, s, c_locs, ppi_offset):
    x, y = cuda.grid(2)
    if y >= s.shape[1]: return
    c_loc = c_locs[ppi_offset + y]
    if c_loc < 0: return
    if x >= c.shape[-1]: return
    value = int(s[2, y, x] >= 0.5) | (2*int(s[0, y, x] >= 0.5))
    ttime = s[1, y, x]
    if value == 0:
        c[c_loc, x] = TMAX
        c[c_loc+1, x] = TMAX
    elif value == 1:
        c[c_loc, x] = ttime
        c[c_loc+1, x] = TMAX
    elif value == 2:
        c[c_loc, x] = TMIN
        c[c_loc+1, x] = ttime
    else:
        c[c_loc, x] = TMIN
        c[c_loc+1, x] = TMAX
    c[c_loc+2, x] = TMAX


_wave_eval_gpu = cuda.jit(_wave_eval, device=True)


@cuda.jit()
def wave_eval_gpu(ops, op_start, op_stop, cbuf, c_locs, c_caps, abuf, sim_start, sim_stop, delays, simctl_int, seed):
    x, y = cuda.grid(2)
    sim = sim_start + x
    op_idx = op_start + y
    if sim >= sim_stop: return
    if op_idx >= op_stop: return

    op = ops[op_idx]
    a_loc = op[6]
    a_wr = op[7]
    a_wf = op[8]

    nrise, nfall = _wave_eval_gpu(op, cbuf, c_locs, c_caps, sim, delays, simctl_int[:, sim], seed)

    # accumulate WSA into abuf
    if a_loc >= 0:
        cuda.atomic.add(abuf, (a_loc, sim), nrise*a_wr + nfall*a_wf)


@cuda.jit()
def wave_capture_gpu(c, s, c_locs, c_caps, ppo_offset, time, s_sqrt2, seed):
    x, y = cuda.grid(2)
    if ppo_offset + y >= len(c_locs): return
    line = c_locs[ppo_offset + y]
    tdim = c_caps[ppo_offset + y]
    if line < 0: return
    if x >= c.shape[-1]: return
    vector = x
    m = 0.5
    acc = 0.0
    eat = TMAX
    lst = TMIN
    tog = 0
    ovl = 0
    val = int(0)
    final = int(0)
    for tidx in range(tdim):
        t = c[line + tidx, vector]
        if t >= TMAX:
            if t == TMAX_OVL:
                ovl = 1
            break
        m = -m
        final ^= 1
        if t < time:
            val ^= 1
        if t <= TMIN: continue
        if s_sqrt2 > 0:
            acc += m * (1 + math.erf((t - time) / s_sqrt2))
        eat = min(eat, t)
        lst = max(lst, t)
        tog += 1
    if s_sqrt2 > 0:
        if m < 0:
            acc += 1
        if acc >= 0.99:
            val = 1
        elif acc > 0.01:
            seed = (seed << 4) + (vector << 20) + (y << 1)
            seed = int(0xDEECE66D) * seed + 0xB
            seed = int(0xDEECE66D) * seed + 0xB
            rnd = float((seed >> 8) & 0xffffff) / float(1 << 24)
            val = rnd < acc
        else:
            val = 0
    else:
        acc = val

    s[3, y, vector] = (c[line, vector] <= TMIN)
    s[4, y, vector] = eat
    s[5, y, vector] = lst
    s[6, y, vector] = final
    s[7, y, vector] = acc
    s[8, y, vector] = val
    s[9, y, vector] = 0  # TODO
    s[10, y, vector] = ovl


@cuda.jit()
def ppo_to_ppi_gpu(s, c_locs, time, ppi_offset, ppo_offset, ppio_start):
    x, y = cuda.grid(2)
    if y < ppio_start: return  # only state elements are PPO/PPI; ports that are read and driven keep their assignment (as in WaveSim.s_ppo_to_ppi)
    if y >= s.shape[1]: return
    if x >= s.shape[2]: return

    if c_locs[ppi_offset + y] < 0: return
    if c_locs[ppo_offset + y] < 0: return

    s[0, y, x] = s[2, y, x]
    s[1, y, x] = time
    s[2, y, x] = s[8, y, x]
