"""A simple and incomplete parser for the Design Exchange Format (DEF).

This parser extracts information on components and nets from DEF files and make them available
as an intermediate representation (:class:`DefFile` object).
"""

from collections import defaultdict

from lark import Lark, Transformer, Tree

from kyupy import readtext


class DefNet:
    def __init__(self, name):
        self.name = name
        self.pins = []
        self.routed = []

    @property
    def wires(self):
        ww = defaultdict(list)
        [ww[dw.layer].append((int(dw.width) if dw.width is not None else None, dw.wire_points)) for dw in self.routed if len(dw.wire_points) > 0]
        return ww

    @property
    def vias(self):
        vv = defaultdict(list)
        [vv[vtype].extend(locs) for dw in self.routed for vtype, locs in dw.vias.items()]
        return vv


class DefWire:
    def __init__(self):
        self.layer = None
        self.width = None
        self.points = []

    @property
    def wire_points(self):
        pts = [self.points[0]]
        for p in self.points[1:]:
            if isinstance(p[0], str): continue  # skip over vias
            prev = pts[-1]
            pts.append((prev[0] if p[0] is None else p[0], prev[1] if p[1] is None else p[1]) + tuple(p[2:]))  # if None, keep previous value
        return pts if len(pts) > 1 else []

    @property
    def vias(self):
        vv = defaultdict(list)
        loc = self.points[0]
        for p in self.points[1:]:
            if not isinstance(p[0], str):  # new location
                loc = (loc[0] if p[0] is None else p[0], loc[1] if p[1] is None else p[1])  # if None, keep previous value
                continue
            vtype, param = p
            if isinstance(param, tuple):  # expand "DO x BY y STEP xs ys"
                x_cnt, y_cnt, x_sp, y_sp = param
                [vv[vtype].append((loc[0] + x*x_sp, loc[1] + y*y_sp, 'N')) for x in range(x_cnt) for y in range(y_cnt)]
            else:
                vv[vtype].append((loc[0], loc[1], param or 'N'))
        return vv

    def __repr__(self):
        return f'<DefWire {self.layer} {self.width} {self.points}>'


class DefVia:
    def __init__(self, name):
        self.name = name
        self.rowcol = [1, 1]
        self.cutspacing = [0, 0]


class DefPin:
    def __init__(self, name):
        self.name = name
        self.points = []


class DefFile:
    """Intermediate representation of a DEF file."""
    def __init__(self):
        self.rows = []
        self.tracks = []
        self.units = []
        self.vias = {}
        self.components = {}
        self.pins = {}
        self.specialnets = {}
        self.nets = {}


class DefTransformer(Transformer):
    def __init__(self): self.def_file = DefFile()
    def start(self, args): return self.def_file
    def design(self, args): self.def_file.design = args[0].value
    def point(self, args): return tuple(int(arg.value) if arg != '*' else None for arg in args)
    def do_step(self, args): return tuple(map(int, args))
    def spnet_wires(self, args): return args[0].lower(), args[1:]
    def net_wires(self, args): return args[0].lower(), args[1:]
    def sppoints(self, args): return args
    def points(self, args): return args
    def net_pin(self, args): return '__pin__', (args[0].value, args[1].value)
    def net_opt(self, args): return args[0].lower(), args[1].value

    def file_stmt(self, args):
        value = args[1].value
        value = value[1:-1] if value[0] == '"' else value
        setattr(self.def_file, args[0].lower(), value)

    def design_stmt(self, args):
        stmt = args[0].lower()
        if stmt == 'units': self.def_file.units.append((args[1].value, args[2].value, int(args[3])))
        elif stmt == 'diearea': self.def_file.diearea = args[1:]
        elif stmt == 'row':
            self.def_file.rows.append((args[1].value,  # rowName
                                       args[2].value,  # siteName
                                       (int(args[3]), int(args[4])),  # origin x/y
                                       args[5].value,  # orientation
                                       max(args[6][0], args[6][1]),  # number of sites
                                       max(args[6][2], args[6][3])  # site width
                                      ))
        elif stmt == 'tracks':
            self.def_file.tracks.append((args[1].value,  # orientation
                                         int(args[2]),  # start
                                         int(args[3]),  # number of tracks
                                         int(args[4]),  # spacing
                                         args[5].value  # layer
                                        ))

    def vias_stmt(self, args):
        via = DefVia(args[0].value)
        [setattr(via, opt, val) for opt, val in args[1:]]
        self.def_file.vias[via.name] = via

    def vias_opt(self, args):
        opt = args[0].lower()
        if opt in ['viarule', 'pattern']: val = args[1].value
        elif opt in ['layers']: val = [arg.value for arg in args[1:]]
        else: val = [int(arg) for arg in args[1:]]
        return opt, val

    def comp_stmt(self, args):
        name = args[0].value
        kind = args[1].value
        point = args[2]
        orientation = args[3].value
        self.def_file.components[name] = (kind, point, orientation)

    def pins_stmt(self, args):
        pin = DefPin(args[0].value)
        [pin.points.append(val) if opt == 'placed' else setattr(pin, opt, val) for opt, val in args[1:]]
        self.def_file.pins[pin.name] = pin

    def pins_opt(self, args):
        opt = args[0].lower()
        if opt in ['net', 'direction', 'use']: val = args[1].value
        elif opt in ['layer']: val = [args[1].value] + args[2:]
        elif opt in ['placed']: val = (args[1][0], args[1][1], args[2].value)
        else: val = []
        return opt, val

    def spnets_stmt(self, args):
        dnet = DefNet(args[0].value)
        for arg in args[1:]:
            if arg[0] == '__pin__': dnet.pins.append(arg[1])
            else: setattr(dnet, arg[0], arg[1])
        self.def_file.specialnets[dnet.name] = dnet

    def nets_stmt(self, args):
        dnet = DefNet(args[0].value)
        for arg in args[1:]:
            if arg[0] == '__pin__': dnet.pins.append(arg[1])
            else: setattr(dnet, arg[0], arg[1])
        self.def_file.nets[dnet.name] = dnet

    def spwire(self, args):
        wire = DefWire()
        wire.layer = args[0].value
        wire.width = args[1].value
        wire.points = args[-1]
        return wire

    def wire(self, args):
        wire = DefWire()
        wire.layer = args[0].value
        wire.points = args[-1]
        return wire

    def sppoints_via(self, args):
        if len(args) == 1: return args[0].value, None
        else: return args[0].value, args[1]

    def points_via(self, args):
        if len(args) == 1: return args[0].value, 'N'
        else: return args[0].value, args[1].value.strip()


GRAMMAR = r"""
    start: /#[^\n]*/? file_stmt*

    ?file_stmt: /VERSION/ ID ";"
              | /DIVIDERCHAR/ STRING ";"
              | /BUSBITCHARS/ STRING ";"
              | design

    design: "DESIGN" ID ";" design_stmt* "END" "DESIGN"

    ?design_stmt: /UNITS/ ID ID NUMBER ";"
                | /DIEAREA/ point+ ";"
                | /ROW/ ID ID NUMBER NUMBER ID do_step ";"
                | /TRACKS/ /[XY]/ NUMBER "DO" NUMBER "STEP" NUMBER "LAYER" ID ";"
                | propdef | vias | nondef | comp | pins | pinprop | spnets | nets

    propdef: "PROPERTYDEFINITIONS" propdef_stmt* "END" "PROPERTYDEFINITIONS"
    propdef_stmt: /COMPONENTPIN/ ID ID ";"

    vias: "VIAS" NUMBER ";" vias_stmt* "END" "VIAS"
    vias_stmt: "-" ID vias_opt* ";"
    vias_opt: "+" /VIARULE/ ID
            | "+" /CUTSIZE/ NUMBER NUMBER
            | "+" /LAYERS/ ID ID ID
            | "+" /CUTSPACING/ NUMBER NUMBER
            | "+" /ENCLOSURE/ NUMBER NUMBER NUMBER NUMBER
            | "+" /ROWCOL/ NUMBER NUMBER
            | "+" /PATTERN/ ID

    nondef: "NONDEFAULTRULES" NUMBER ";" nondef_stmt+ "END" "NONDEFAULTRULES"
    nondef_stmt: "-" ID ( "+" /HARDSPACING/
                        | "+" /LAYER/ ID "WIDTH" NUMBER "SPACING" NUMBER
                        | "+" /VIA/ ID )* ";"

    comp: "COMPONENTS" NUMBER ";" comp_stmt* "END" "COMPONENTS"
    comp_stmt: "-" ID ID "+" "PLACED" point ID ";"

    pins: "PINS" NUMBER ";" pins_stmt* "END" "PINS"
    pins_stmt: "-" ID pins_opt* ";"
    pins_opt: "+" /NET/ ID
            | "+" /SPECIAL/
            | "+" /DIRECTION/ ID
            | "+" /USE/ ID
            | "+" /PORT/
            | "+" /LAYER/ ID point point
            | "+" /PLACED/ point ID

    pinprop: "PINPROPERTIES" NUMBER ";" pinprop_stmt* "END" "PINPROPERTIES"
    pinprop_stmt: "-" "PIN" ID "+" "PROPERTY" ID STRING ";"

    spnets: "SPECIALNETS" NUMBER ";" spnets_stmt* "END" "SPECIALNETS"
    spnets_stmt: "-" ID ( net_pin | net_opt | spnet_wires )* ";"

    spnet_wires: "+" ( /COVER/ | /FIXED/ | /ROUTED/ ) spwire ( "NEW" spwire )*

    spwire: ID NUMBER spwire_opt* sppoints
    spwire_opt: "+" /SHAPE/ ID
              | "+" /STYLE/ ID

    sppoints: point ( point | sppoints_via )+
    sppoints_via: ID do_step?

    nets: "NETS" NUMBER ";" nets_stmt* "END" "NETS"
    nets_stmt: "-" ID ( net_pin | net_opt | net_wires )* ";"

    net_pin: "(" ID ID ")"
    net_opt: "+" /USE/ ID
           | "+" /NONDEFAULTRULE/ ID
    net_wires: "+" ( /COVER/ | /FIXED/ | /ROUTED/ | /NOSHIELD/ ) wire ( "NEW" wire )*

    wire: ID wire_opt points
    wire_opt: ( "TAPER" | "TAPERRULE" ID )? ("STYLE" ID)?

    points: point ( point | points_via )+
    points_via: ID ORIENTATION?

    point: "(" (NUMBER|/\*/) (NUMBER|/\*/) NUMBER? ")"

    do_step: "DO" NUMBER "BY" NUMBER "STEP" (NUMBER|SIGNED_NUMBER) (NUMBER|SIGNED_NUMBER)

    ORIENTATION.2: /F?[NWES]/ WS
    ID: /[^ \t\f\r\n+][^ \t\f\r\n]*/
    STRING : "\"" /.*?/s /(?<!\\)(\\\\)*?/ "\""
    WS: /[ \t\f\r\n]/

    %import common.NUMBER
    %import common.SIGNED_NUMBER
    %ignore WS (/#[^\n]*/)?
    """


def parse(text):
    """Parses the given ``text`` and returns a :class:`DefFile` object."""
    return Lark(GRAMMAR, parser="lalr", transformer=DefTransformer()).parse(text)


def load(file):
    """Parses the contents of ``file`` and returns a :class:`DefFile` object.

    Files with `.gz`-suffix are decompressed on-the-fly.
    """
    return parse(readtext(file))