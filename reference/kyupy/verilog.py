"""A simple and incomplete parser for Verilog files.

The main purpose of this parser is to load synthesized, non-hierarchical (flat) gate-level netlists.
It supports only a subset of Verilog.
"""

from collections import namedtuple

from lark import Lark, Transformer, Tree

from . import log, readtext
from .circuit import Circuit, Node, Line
from .techlib import NANGATE

Instantiation = namedtuple('Instantiation', ['type', 'name', 'pins'])


class SignalDeclaration:

    def __init__(self, kind, name, rnge=None):
        self.left = None
        self.right = None
        self.kind = kind
        self.basename = name
        self.rnge = rnge

    @property
    def names(self):
        if self.rnge is None:
            return [self.basename]
        return [f'{self.basename}[{i}]' for i in self.rnge]

    def __repr__(self):
        return f"{self.kind}:{self.basename}[{self.rnge}]"


class VerilogTransformer(Transformer):
    def __init__(self, branchforks=False, tlib=NANGATE):
        super().__init__()
        self.branchforks = branchforks
        self.tlib = tlib

    @staticmethod
    def name(args):
        s = args[0].value
        return s[1:-1] if s[0] == '\\' else s

    @staticmethod
    def namedpin(args):
        return tuple(args) if len(args) > 1 else (args[0], None)

    @staticmethod
    def instantiation(args):
        pinmap = {}
        for idx, pin in enumerate(args[2:]):
            p = pin.children[0]
            if isinstance(p, tuple):  # named pin
                if p[1] is not None:
                    pinmap[p[0]] = p[1]
            else:  # unnamed pin
                pinmap[idx] = p
        return Instantiation(args[0], args[1], pinmap)

    def range(self, args):
        left = int(args[0].value)
        right = int(args[1].value) if len(args) > 1 else left
        return range(left, right+1) if left <= right else range(left, right-1, -1)

    def sigsel(self, args):
        if len(args) > 1 and isinstance(args[1], range):
            l = [f'{args[0]}[{i}]' for i in args[1]]
            return l if len(l) > 1 else l[0]
        elif "'" in args[0]:
            width, rest = args[0].split("'")
            width = int(width)
            base, const = rest[0], rest[1:]
            const = int(const, {'b': 2, 'd':10, 'h':16}[base.lower()])
            l = []
            for _ in range(width):
                l.insert(0, "1'b1" if (const & 1) else "1'b0")
                const >>= 1
            return l if len(l) > 1 else l[0]
        else:
            return args[0]

    def concat(self, args):
        sigs = []
        for a in args:
            if isinstance(a, list):
                sigs += a
            else:
                sigs.append(a)
        return sigs

    def declaration(self, kind, args):
        rnge = None
        if isinstance(args[0], range):
            rnge = args[0]
            args = args[1:]
        return [SignalDeclaration(kind, signal, rnge) for signal in args]

    def input(self, args): return self.declaration("input", args)
    def output(self, args): return self.declaration("output", args)
    def inout(self, args): return self.declaration("input", args)  # just treat as input
    def wire(self, args): return self.declaration("wire", args)

    def module(self, args):
        c = Circuit(args[0])
        positions = {}
        pos = 0
        const_count = 0
        sig_decls = {}
        for decls in args[2:]:  # pass 0: collect signal declarations
            if isinstance(decls, list):
                if len(decls) > 0 and isinstance(decls[0], SignalDeclaration):
                    for decl in decls:
                        if decl.basename not in sig_decls or sig_decls[decl.basename].kind == 'wire':
                            sig_decls[decl.basename] = decl
        for intf_sig in args[1].children:
            for name in sig_decls[intf_sig].names:
                positions[name] = pos
                pos += 1
        assignments = []
        for stmt in args[2:]:  # pass 1: instantiate cells and driven signals
            if isinstance(stmt, Instantiation):
                n = Node(c, stmt.name, kind=stmt.type)
                for p, s in stmt.pins.items():
                    if self.tlib.pin_is_output(n.kind, p):
                        if s in sig_decls:
                            s = sig_decls[s].names
                            if isinstance(s, list) and len(s) == 1:
                                s = s[0]
                        Line(c, (n, self.tlib.pin_index(stmt.type, p)), Node(c, s))
            elif hasattr(stmt, 'data') and stmt.data == 'assign':
                assignments.append((stmt.children[0], stmt.children[1]))
        for sd in sig_decls.values():
            if sd.kind == 'output' or sd.kind == 'input':
                for name in sd.names:
                    n = Node(c, name, kind=sd.kind)
                    if name in positions:
                        c.io_nodes[positions[name]] = n
                    if sd.kind == 'input':
                        Line(c, n, Node(c, name))
        for target, source in assignments:  # pass 1.5: process signal assignments
            target_sigs = []
            if not isinstance(target, list): target = [target]
            for s in target:
                if s in sig_decls:
                    target_sigs += sig_decls[s].names
                else:
                    target_sigs.append(s)
            source_sigs = []
            if not isinstance(source, list): source = [source]
            for s in source:
                if s in sig_decls:
                    source_sigs += sig_decls[s].names
                else:
                    source_sigs.append(s)
            for t, s in zip(target_sigs, source_sigs):
                if t in c.forks:
                    assert s not in c.forks, 'assignment between two driven signals'
                    Line(c, c.forks[t], Node(c, s))
                elif s in c.forks:
                    assert t not in c.forks, 'assignment between two driven signals'
                    Line(c, c.forks[s], Node(c, t))
                elif s.startswith("1'b"):
                    cnode = Node(c, f'__const{s[3]}_{const_count}__', f'__const{s[3]}__')
                    const_count += 1
                    Line(c, cnode, Node(c, t))
        for stmt in args[2:]:  # pass 2: connect signals to readers
            if isinstance(stmt, Instantiation):
                for p, s in stmt.pins.items():
                    n = c.cells[stmt.name]
                    if self.tlib.pin_is_output(n.kind, p): continue
                    if s.startswith("1'b"):
                        cname = f'__const{s[3]}_{const_count}__'
                        cnode = Node(c, cname, f'__const{s[3]}__')
                        const_count += 1
                        s = cname
                        Line(c, cnode, Node(c, s))
                    if s not in c.forks and s in sig_decls and len(sig_decls[s].names) == 1:
                        s = sig_decls[s].names[0]  # a 1-bit bus read by its bare name
                    if s not in c.forks:
                        if f'{s}[0]' in c.forks:  # actually a 1-bit bus?
                            s = f'{s}[0]'
                        else:
                            log.warn(f'Signal not driven: {s}')
                            Node(c, s)  # generate fork here
                    fork = c.forks[s]
                    if self.branchforks:
                        branchfork = Node(c, fork.name + "~" + n.name + "/" + p)
                        Line(c, fork, branchfork)
                        fork = branchfork
                    Line(c, fork, (n, self.tlib.pin_index(stmt.type, p)))
        for sd in sig_decls.values():
            if sd.kind == 'output':
                for name in sd.names:
                    if name not in c.forks:
                        if f'{name}[0]' in c.forks:  # actually a 1-bit bus?
                            name = f'{name}[0]'
                        else:
                            log.warn(f'Output not driven: {name}')
                            continue
                    Line(c, c.forks[name], c.cells[name])
        return c

    @staticmethod
    def start(args): return args[0] if len(args) == 1 else args


GRAMMAR = r"""
    start: (module)*
    module: "module" name parameters ";" (_statement)* "endmodule"
    parameters: "(" [ _namelist ] ")"
    _statement: input | output | inout | tri | wire | assign | instantiation
    input: "input" range? _namelist ";"
    output: "output" range? _namelist ";"
    inout: "inout" range? _namelist ";"
    tri: "tri" range? _namelist ";"
    wire: "wire" range? _namelist ";"
    assign: "assign" sigsel "=" sigsel ";"
    instantiation: name name "(" [ pin ( "," pin )* ] ")" ";"
    pin: namedpin | sigsel
    namedpin: "." name "(" sigsel? ")"
    range: "[" /[0-9]+/ (":" /[0-9]+/)? "]"
    sigsel: name range? | concat
    concat: "{" sigsel ( "," sigsel )*  "}"
    _namelist: name ( "," name )*
    name: ( /[a-z_][a-z0-9_]*/i | /\\[^\t \r\n]+[\t \r\n]/i | /[0-9]+'[bdh][0-9a-f]+/i )
    %import common.NEWLINE
    COMMENT: /\/\*(\*(?!\/)|[^*])*\*\// | /\(\*(\*(?!\))|[^*])*\*\)/ |  "//" /(.)*/ NEWLINE
    %ignore ( /\r?\n/ | COMMENT )+
    %ignore /[\t \f]+/
    """


def parse(text, tlib=NANGATE, branchforks=False):
    """Parses the given ``text`` as Verilog code.

    :param text: A string with Verilog code.
    :param tlib: A technology library object that defines all known cells.
    :type tlib: :py:class:`~kyupy.techlib.TechLib`
    :param branchforks: If set to ``True``, the returned circuit will include additional `forks` on each fanout branch.
        These forks are needed to correctly annotate interconnect delays
        (see :py:func:`~kyupy.sdf.DelayFile.interconnects()`).
    :return: A :py:class:`~kyupy.circuit.Circuit` object.
    """
    return Lark(GRAMMAR, parser="lalr", transformer=VerilogTransformer(branchforks, tlib)).parse(text)


def load(file, tlib=NANGATE, branchforks=False):
    """Parses the contents of ``file`` as Verilog code.

    :param file: A file name or a file handle. Files with `.gz`-suffix are decompressed on-the-fly.
    :param tlib: A technology library object that defines all known cells.
    :type tlib: :py:class:`~kyupy.techlib.TechLib`
    :param branchforks: If set to ``True``, the returned circuit will include additional `forks` on each fanout branch.
        These forks are needed to correctly annotate interconnect delays
        (see :py:func:`~kyupy.sdf.DelayFile.interconnects()`).
    :return: A :py:class:`~kyupy.circuit.Circuit` object.
    """
    return parse(readtext(file), tlib, branchforks)
