"""A high-throughput combinational logic simulator.

The class :py:class:`~kyupy.logic_sim.LogicSim` performs parallel simulations of the combinational part of a circuit.
The logic operations are performed bit-parallel on packed numpy arrays (see bit-parallel (bp) array description in :py:mod:`~kyupy.logic`).
Simple sequential circuits can be simulated by repeated assignments and propagations.
However, this simulator ignores the clock network and simply assumes that all state-elements are clocked all the time.
"""

import math

import numpy as np

from . import numba, logic, hr_bytes, sim
from .circuit import Circuit

class LogicSim(sim.SimOps):
    """A bit-parallel naïve combinational simulator for 2-, 4-, or 8-valued logic.

    :param circuit: The circuit to simulate.
    :param sims: The number of parallel logic simulations to perform.
    :param m: The arity of the logic, must be 2, 4, or 8.
    :param c_reuse: If True, intermediate signal values may get overwritten when not needed anymore to save memory.
    :param strip_forks: If True, forks are not included in the simulation model to save memory and simulation time.
    """
    def __init__(self, circuit: Circuit, sims: int = 8, m: int = 8, c_reuse: bool = False, strip_forks: bool = False):
        assert m in [2, 4, 8]
        super().__init__(circuit, c_reuse=c_reuse, strip_forks=strip_forks)
        self.m = m
        self.mdim = math.ceil(math.log2(m))
        self.sims = sims
        nbytes = (sims - 1) // 8 + 1

        self.c = np.zeros((self.c_len, self.mdim, nbytes), dtype=np.uint8)
        self.s = np.zeros((2, self.s_len, 3, nbytes), dtype=np.uint8)
        """Logic values of the sequential elements (flip-flops) and ports.

        It is a pair of arrays in bit-parallel (bp) storage format:

        * ``s[0]`` Assigned values. Simulator will read (P)PI value from here.
        * ``s[1]`` Result values. Simulator will write (P)PO values here.

        Access this array to assign new values to the (P)PIs or read values from the (P)POs.
        """
        self.s[:,:,1,:] = 255  # unassigned

    def __repr__(self):
        return f'{{name: "{self.circuit.name}", sims: {self.sims}, m: {self.m}, c_bytes: {self.c.nbytes}}}'

    def s_to_c(self):
        """Copies the values from ``s[0]`` the inputs of the combinational portion.
        """
        self.c[self.pippi_c_locs] = self.s[0, self.pippi_s_locs, :self.mdim]

    def c_prop(self, inject_cb=None):
        """Propagate the input values through the combinational circuit towards the outputs.

        Performs all logic operations in topological order.
        If the circuit is sequential (it contains flip-flops), one call simulates one clock cycle.

        :param inject_cb: A callback function for manipulating intermediate signal values.
            This function is called with a line and its new logic values (in bit-parallel format) after
            evaluation of a node. The callback may manipulate the given values in-place, the simulation
            resumes with the manipulated values after the callback returns.
        :type inject_cb: ``f(Line, ndarray)``
        """
        t0 = self.c_locs[self.tmp_idx]
        t1 = self.c_locs[self.tmp2_idx]
        if self.m == 2:
            if inject_cb is None:
                _prop_cpu(self.ops, self.c_locs, self.c)
            else:
                for op, o0l, i0, i1, i2, i3 in self.ops[:,:6]:
                    o0, i0, i1, i2, i3 = [self.c_locs[x] for x in (o0l, i0, i1, i2, i3)]
                    if op == sim.BUF1: self.c[o0]=self.c[i0]
                    elif op == sim.INV1: self.c[o0] = ~self.c[i0]
                    elif op == sim.AND2: self.c[o0] = self.c[i0] & self.c[i1]
                    elif op == sim.AND3: self.c[o0] = self.c[i0] & self.c[i1] & self.c[i2]
                    elif op == sim.AND4: self.c[o0] = self.c[i0] & self.c[i1] & self.c[i2] & self.c[i3]
                    elif op == sim.NAND2: self.c[o0] = ~(self.c[i0] & self.c[i1])
                    elif op == sim.NAND3: self.c[o0] = ~(self.c[i0] & self.c[i1] & self.c[i2])
                    elif op == sim.NAND4: self.c[o0] = ~(self.c[i0] & self.c[i1] & self.c[i2] & self.c[i3])
                    elif op == sim.OR2: self.c[o0] = self.c[i0] | self.c[i1]
                    elif op == sim.OR3: self.c[o0] = self.c[i0] | self.c[i1] | self.c[i2]
                    elif op == sim.OR4: self.c[o0] = self.c[i0] | self.c[i1] | self.c[i2] | self.c[i3]
                    elif op == sim.NOR2: self.c[o0] = ~(self.c[i0] | self.c[i1])
                    elif op == sim.NOR3: self.c[o0] = ~(self.c[i0] | self.c[i1] | self.c[i2])
                    elif op == sim.NOR4: self.c[o0] = ~(self.c[i0] | self.c[i1] | self.c[i2] | self.c[i3])
                    elif op == sim.XOR2: self.c[o0] = self.c[i0] ^ self.c[i1]
                    elif op == sim.XOR3: self.c[o0] = self.c[i0] ^ self.c[i1] ^ self.c[i2]
                    elif op == sim.XOR4: self.c[o0] = self.c[i0] ^ self.c[i1] ^ self.c[i2] ^ self.c[i3]
                    elif op == sim.XNOR2: self.c[o0] = ~(self.c[i0] ^ self.c[i1])
                    elif op == sim.XNOR3: self.c[o0] = ~(self.c[i0] ^ self.c[i1] ^ self.c[i2])
                    elif op == sim.XNOR4: self.c[o0] = ~(self.c[i0] ^ self.c[i1] ^ self.c[i2] ^ self.c[i3])
                    elif op == sim.AO21: self.c[o0] = (self.c[i0] & self.c[i1]) | self.c[i2]
                    elif op == sim.AOI21: self.c[o0] = ~((self.c[i0] & self.c[i1]) | self.c[i2])
                    elif op == sim.OA21: self.c[o0] = (self.c[i0] | self.c[i1]) & self.c[i2]
                    elif op == sim.OAI21: self.c[o0] = ~((self.c[i0] | self.c[i1]) & self.c[i2])
                    elif op == sim.AO22: self.c[o0] = (self.c[i0] & self.c[i1]) | (self.c[i2] & self.c[i3])
                    elif op == sim.AOI22: self.c[o0] = ~((self.c[i0] & self.c[i1]) | (self.c[i2] & self.c[i3]))
                    elif op == sim.OA22: self.c[o0] = (self.c[i0] | self.c[i1]) & (self.c[i2] | self.c[i3])
                    elif op == sim.OAI22: self.c[o0] = ~((self.c[i0] | self.c[i1]) & (self.c[i2] | self.c[i3]))
                    elif op == sim.AO211: self.c[o0] =  (self.c[i0] & self.c[i1]) | self.c[i2] | self.c[i3]
                    elif op == sim.AOI211:self.c[o0] = ~((self.c[i0] & self.c[i1]) | self.c[i2] | self.c[i3])
                    elif op == sim.OA211: self.c[o0] =  (self.c[i0] | self.c[i1]) & self.c[i2] & self.c[i3]
                    elif op == sim.OAI211:self.c[o0] = ~((self.c[i0] | self.c[i1]) & self.c[i2] & self.c[i3])
                    elif op == sim.MUX21: self.c[o0] = (self.c[i0] & ~self.c[i2]) | (self.c[i1] & self.c[i2])
                    else: print(f'unknown op {op}')
                    if o0l < len(self.circuit.lines): inject_cb(self.circuit.lines[o0l], self.c[o0])
        elif self.m == 4:
            for op, o0l, i0, i1, i2, i3 in self.ops[:,:6]:
                o0, i0, i1, i2, i3 = [self.c_locs[x] for x in (o0l, i0, i1, i2, i3)]
                if op == sim.BUF1: self.c[o0]=self.c[i0]
                elif op == sim.INV1: logic.bp4v_not(self.c[o0], self.c[i0])
                elif op == sim.AND2: logic.bp4v_and(self.c[o0], self.c[i0], self.c[i1])
                elif op == sim.AND3: logic.bp4v_and(self.c[o0], self.c[i0], self.c[i1], self.c[i2])
                elif op == sim.AND4: logic.bp4v_and(self.c[o0], self.c[i0], self.c[i1], self.c[i2], self.c[i3])
                elif op == sim.NAND2: logic.bp4v_and(self.c[o0], self.c[i0], self.c[i1]); logic.bp4v_not(self.c[o0], self.c[o0])
                elif op == sim.NAND3: logic.bp4v_and(self.c[o0], self.c[i0], self.c[i1], self.c[i2]); logic.bp4v_not(self.c[o0], self.c[o0])
                elif op == sim.NAND4: logic.bp4v_and(self.c[o0], self.c[i0], self.c[i1], self.c[i2], self.c[i3]); logic.bp4v_not(self.c[o0], self.c[o0])
                elif op == sim.OR2: logic.bp4v_or(self.c[o0], self.c[i0], self.c[i1])
                elif op == sim.OR3: logic.bp4v_or(self.c[o0], self.c[i0], self.c[i1], self.c[i2])
                elif op == sim.OR4: logic.bp4v_or(self.c[o0], self.c[i0], self.c[i1], self.c[i2], self.c[i3])
                elif op == sim.NOR2: logic.bp4v_or(self.c[o0], self.c[i0], self.c[i1]); logic.bp4v_not(self.c[o0], self.c[o0])
                elif op == sim.NOR3: logic.bp4v_or(self.c[o0], self.c[i0], self.c[i1], self.c[i2]); logic.bp4v_not(self.c[o0], self.c[o0])
                elif op == sim.NOR4: logic.bp4v_or(self.c[o0], self.c[i0], self.c[i1], self.c[i2], self.c[i3]); logic.bp4v_not(self.c[o0], self.c[o0])
                elif op == sim.XOR2: logic.bp4v_xor(self.c[o0], self.c[i0], self.c[i1])
                elif op == sim.XOR3: logic.bp4v_xor(self.c[o0], self.c[i0], self.c[i1], self.c[i2])
                elif op == sim.XOR4: logic.bp4v_xor(self.c[o0], self.c[i0], self.c[i1], self.c[i2], self.c[i3])
                elif op == sim.XNOR2: logic.bp4v_xor(self.c[o0], self.c[i0], self.c[i1]); logic.bp4v_not(self.c[o0], self.c[o0])
                elif op == sim.XNOR3: logic.bp4v_xor(self.c[o0], self.c[i0], self.c[i1], self.c[i2]); logic.bp4v_not(self.c[o0], self.c[o0])
                elif op == sim.XNOR4: logic.bp4v_xor(self.c[o0], self.c[i0], self.c[i1], self.c[i2], self.c[i3]); logic.bp4v_not(self.c[o0], self.c[o0])
                elif op == sim.AO21:
                    logic.bp4v_and(self.c[t0], self.c[i0], self.c[i1])
                    logic.bp4v_or(self.c[o0], self.c[t0], self.c[i2])
                elif op == sim.AOI21:
                    logic.bp4v_and(self.c[t0], self.c[i0], self.c[i1])
                    logic.bp4v_or(self.c[o0], self.c[t0], self.c[i2])
                    logic.bp4v_not(self.c[o0], self.c[o0])
                elif op == sim.OA21:
                    logic.bp4v_or(self.c[t0], self.c[i0], self.c[i1])
                    logic.bp4v_and(self.c[o0], self.c[t0], self.c[i2])
                elif op == sim.OAI21:
                    logic.bp4v_or(self.c[t0], self.c[i0], self.c[i1])
                    logic.bp4v_and(self.c[o0], self.c[t0], self.c[i2])
                    logic.bp4v_not(self.c[o0], self.c[o0])
                elif op == sim.AO22:
                    logic.bp4v_and(self.c[t0], self.c[i0], self.c[i1])
                    logic.bp4v_and(self.c[t1], self.c[i2], self.c[i3])
                    logic.bp4v_or(self.c[o0], self.c[t0], self.c[t1])
                elif op == sim.AOI22:
                    logic.bp4v_and(self.c[t0], self.c[i0], self.c[i1])
                    logic.bp4v_and(self.c[t1], self.c[i2], self.c[i3])
                    logic.bp4v_or(self.c[o0], self.c[t0], self.c[t1])
                    logic.bp4v_not(self.c[o0], self.c[o0])
                elif op == sim.OA22:
                    logic.bp4v_or(self.c[t0], self.c[i0], self.c[i1])
                    logic.bp4v_or(self.c[t1], self.c[i2], self.c[i3])
                    logic.bp4v_and(self.c[o0], self.c[t0], self.c[t1])
                elif op == sim.OAI22:
                    logic.bp4v_or(self.c[t0], self.c[i0], self.c[i1])
                    logic.bp4v_or(self.c[t1], self.c[i2], self.c[i3])
                    logic.bp4v_and(self.c[o0], self.c[t0], self.c[t1])
                    logic.bp4v_not(self.c[o0], self.c[o0])
                elif op == sim.AO211:
                    logic.bp4v_and(self.c[t0], self.c[i0], self.c[i1])
                    logic.bp4v_or(self.c[o0], self.c[t0], self.c[i2], self.c[i3])
                elif op == sim.AOI211:
                    logic.bp4v_and(self.c[t0], self.c[i0], self.c[i1])
                    logic.bp4v_or(self.c[o0], self.c[t0], self.c[i2], self.c[i3])
                    logic.bp4v_not(self.c[o0], self.c[o0])
                elif op == sim.OA211:
                    logic.bp4v_or(self.c[t0], self.c[i0], self.c[i1])
                    logic.bp4v_and(self.c[o0], self.c[t0], self.c[i2], self.c[i3])
                elif op == sim.OAI211:
                    logic.bp4v_or(self.c[t0], self.c[i0], self.c[i1])
                    logic.bp4v_and(self.c[o0], self.c[t0], self.c[i2], self.c[i3])
                    logic.bp4v_not(self.c[o0], self.c[o0])
                elif op == sim.MUX21:
                    logic.bp4v_not(self.c[t1], self.c[i2])
                    logic.bp4v_and(self.c[t0], self.c[i0], self.c[t1])
                    logic.bp4v_and(self.c[t1], self.c[i1], self.c[i2])
                    logic.bp4v_or(self.c[o0], self.c[t0], self.c[t1])
                else: print(f'unknown op {op}')
                if inject_cb is not None and o0l < len(self.circuit.lines): inject_cb(self.circuit.lines[o0l], self.c[o0])
        else:
            for op, o0l, i0, i1, i2, i3 in self.ops[:,:6]:
                o0, i0, i1, i2, i3 = [self.c_locs[x] for x in (o0l, i0, i1, i2, i3)]
                if op == sim.BUF1: self.c[o0]=self.c[i0]
                elif op == sim.INV1: logic.bp8v_not(self.c[o0], self.c[i0])
                elif op == sim.AND2: logic.bp8v_and(self.c[o0], self.c[i0], self.c[i1])
                elif op == sim.AND3: logic.bp8v_and(self.c[o0], self.c[i0], self.c[i1], self.c[i2])
                elif op == sim.AND4: logic.bp8v_and(self.c[o0], self.c[i0], self.c[i1], self.c[i2], self.c[i3])
                elif op == sim.NAND2: logic.bp8v_and(self.c[o0], self.c[i0], self.c[i1]); logic.bp8v_not(self.c[o0], self.c[o0])
                elif op == sim.NAND3: logic.bp8v_and(self.c[o0], self.c[i0], self.c[i1], self.c[i2]); logic.bp8v_not(self.c[o0], self.c[o0])
                elif op == sim.NAND4: logic.bp8v_and(self.c[o0], self.c[i0], self.c[i1], self.c[i2], self.c[i3]); logic.bp8v_not(self.c[o0], self.c[o0])
                elif op == sim.OR2: logic.bp8v_or(self.c[o0], self.c[i0], self.c[i1])
                elif op == sim.OR3: logic.bp8v_or(self.c[o0], self.c[i0], self.c[i1], self.c[i2])
                elif op == sim.OR4: logic.bp8v_or(self.c[o0], self.c[i0], self.c[i1], self.c[i2], self.c[i3])
                elif op == sim.NOR2: logic.bp8v_or(self.c[o0], self.c[i0], self.c[i1]); logic.bp8v_not(self.c[o0], self.c[o0])
                elif op == sim.NOR3: logic.bp8v_or(self.c[o0], self.c[i0], self.c[i1], self.c[i2]); logic.bp8v_not(self.c[o0], self.c[o0])
                elif op == sim.NOR4: logic.bp8v_or(self.c[o0], self.c[i0], self.c[i1], self.c[i2], self.c[i3]); logic.bp8v_not(self.c[o0], self.c[o0])
                elif op == sim.XOR2: logic.bp8v_xor(self.c[o0], self.c[i0], self.c[i1])
                elif op == sim.XOR3: logic.bp8v_xor(self.c[o0], self.c[i0], self.c[i1], self.c[i2])
                elif op == sim.XOR4: logic.bp8v_xor(self.c[o0], self.c[i0], self.c[i1], self.c[i2], self.c[i3])
                elif op == sim.XNOR2: logic.bp8v_xor(self.c[o0], self.c[i0], self.c[i1]); logic.bp8v_not(self.c[o0], self.c[o0])
                elif op == sim.XNOR3: logic.bp8v_xor(self.c[o0], self.c[i0], self.c[i1], self.c[i2]); logic.bp8v_not(self.c[o0], self.c[o0])
                elif op == sim.XNOR4: logic.bp8v_xor(self.c[o0], self.c[i0], self.c[i1], self.c[i2], self.c[i3]); logic.bp8v_not(self.c[o0], self.c[o0])
                elif op == sim.AO21:
                    logic.bp8v_and(self.c[t0], self.c[i0], self.c[i1])
                    logic.bp8v_or(self.c[o0], self.c[t0], self.c[i2])
                elif op == sim.AOI21:
                    logic.bp8v_and(self.c[t0], self.c[i0], self.c[i1])
                    logic.bp8v_or(self.c[o0], self.c[t0], self.c[i2])
                    logic.bp8v_not(self.c[o0], self.c[o0])
                elif op == sim.OA21:
                    logic.bp8v_or(self.c[t0], self.c[i0], self.c[i1])
                    logic.bp8v_and(self.c[o0], self.c[t0], self.c[i2])
                elif op == sim.OAI21:
                    logic.bp8v_or(self.c[t0], self.c[i0], self.c[i1])
                    logic.bp8v_and(self.c[o0], self.c[t0], self.c[i2])
                    logic.bp8v_not(self.c[o0], self.c[o0])
                elif op == sim.AO22:
                    logic.bp8v_and(self.c[t0], self.c[i0], self.c[i1])
                    logic.bp8v_and(self.c[t1], self.c[i2], self.c[i3])
                    logic.bp8v_or(self.c[o0], self.c[t0], self.c[t1])
                elif op == sim.AOI22:
                    logic.bp8v_and(self.c[t0], self.c[i0], self.c[i1])
                    logic.bp8v_and(self.c[t1], self.c[i2], self.c[i3])
                    logic.bp8v_or(self.c[o0], self.c[t0], self.c[t1])
                    logic.bp8v_not(self.c[o0], self.c[o0])
                elif op == sim.OA22:
                    logic.bp8v_or(self.c[t0], self.c[i0], self.c[i1])
                    logic.bp8v_or(self.c[t1], self.c[i2], self.c[i3])
                    logic.bp8v_and(self.c[o0], self.c[t0], self.c[t1])
                elif op == sim.OAI22:
                    logic.bp8v_or(self.c[t0], self.c[i0], self.c[i1])
                    logic.bp8v_or(self.c[t1], self.c[i2], self.c[i3])
                    logic.bp8v_and(self.c[o0], self.c[t0], self.c[t1])
                    logic.bp8v_not(self.c[o0], self.c[o0])
                elif op == sim.AO211:
                    logic.bp8v_and(self.c[t0], self.c[i0], self.c[i1])
                    logic.bp8v_or(self.c[o0], self.c[t0], self.c[i2], self.c[i3])
                elif op == sim.AOI211:
                    logic.bp8v_and(self.c[t0], self.c[i0], self.c[i1])
                    logic.bp8v_or(self.c[o0], self.c[t0], self.c[i2], self.c[i3])
                    logic.bp8v_not(self.c[o0], self.c[o0])
                elif op == sim.OA211:
                    logic.bp8v_or(self.c[t0], self.c[i0], self.c[i1])
                    logic.bp8v_and(self.c[o0], self.c[t0], self.c[i2], self.c[i3])
                elif op == sim.OAI211:
                    logic.bp8v_or(self.c[t0], self.c[i0], self.c[i1])
                    logic.bp8v_and(self.c[o0], self.c[t0], self.c[i2], self.c[i3])
                    logic.bp8v_not(self.c[o0], self.c[o0])
                elif op == sim.MUX21:
                    logic.bp8v_not(self.c[t1], self.c[i2])
                    logic.bp8v_and(self.c[t0], self.c[i0], self.c[t1])
                    logic.bp8v_and(self.c[t1], self.c[i1], self.c[i2])
                    logic.bp8v_or(self.c[o0], self.c[t0], self.c[t1])
                else: print(f'unknown op {op}')
                if inject_cb is not None and o0l < len(self.circuit.lines): inject_cb(self.circuit.lines[o0l], self.c[o0])

    def c_to_s(self):
        """Copies (captures) the results of the combinational portion to ``s[1]``.
        """
        self.s[1, self.poppo_s_locs, :self.mdim] = self.c[self.poppo_c_locs]
        if self.mdim == 1:
            self.s[1, self.poppo_s_locs, 1:2] = self.c[self.poppo_c_locs]

    def s_ppo_to_ppi(self):
        """Constructs a new assignment based on the current data in ``s``.

        Use this function for simulating consecutive clock cycles.

        For 2-valued or 4-valued simulations, all valued from PPOs (in ``s[1]``) and copied to the PPIs (in ``s[0]``).
        For 8-valued simulations, PPI transitions are constructed from the final values of the assignment (in ``s[0]``) and the
        final values of the results (in ``s[1]``).
        """
        # TODO: handle latches correctly
        if self.mdim < 3:
            self.s[0, self.ppio_s_locs] = self.s[1, self.ppio_s_locs]
        else:
            self.s[0, self.ppio_s_locs, 1] = self.s[0, self.ppio_s_locs, 0]  # initial value is previously assigned final value
            self.s[0, self.ppio_s_locs, 0] = self.s[1, self.ppio_s_locs, 0]  # final value is newly captured final value
            self.s[0, self.ppio_s_locs, 2] = self.s[0, self.ppio_s_locs, 0] ^ self.s[0, self.ppio_s_locs, 1]  # TODO: not correct for X, -

    def cycle(self, cycles: int = 1, inject_cb=None):
        """Repeatedly assigns a state, propagates it, captures the new state, and transfers PPOs to PPIs.

        :param cycles: The number of cycles to simulate.
        :param inject_cb: A callback function for manipulating intermediate signal values. See :py:func:`c_prop`.
        """
        for _ in range(cycles):
            self.s_to_c()
            self.c_prop(inject_cb)
            self.c_to_s()
            self.s_ppo_to_ppi()


@numba.njit
def _prop_cpu(ops, c_locs, c):
    for op, o0, i0, i1, i2, i3 in ops[:,:6]:
        o0, i0, i1, i2, i3 = [c_locs[x] for x in (o0, i0, i1, i2, i3)]
        if op == sim.BUF1: c[o0]=c[i0]
        elif op == sim.INV1: c[o0] = ~c[i0]
        elif op == sim.AND2: c[o0] = c[i0] & c[i1]
        elif op == sim.AND3: c[o0] = c[i0] & c[i1] & c[i2]
        elif op == sim.AND4: c[o0] = c[i0] & c[i1] & c[i2] & c[i3]
        elif op == sim.NAND2: c[o0] = ~(c[i0] & c[i1])
        elif op == sim.NAND3: c[o0] = ~(c[i0] & c[i1] & c[i2])
        elif op == sim.NAND4: c[o0] = ~(c[i0] & c[i1] & c[i2] & c[i3])
        elif op == sim.OR2: c[o0] = c[i0] | c[i1]
        elif op == sim.OR3: c[o0] = c[i0] | c[i1] | c[i2]
        elif op == sim.OR4: c[o0] = c[i0] | c[i1] | c[i2] | c[i3]
        elif op == sim.NOR2: c[o0] = ~(c[i0] | c[i1])
        elif op == sim.NOR3: c[o0] = ~(c[i0] | c[i1] | c[i2])
        elif op == sim.NOR4: c[o0] = ~(c[i0] | c[i1] | c[i2] | c[i3])
        elif op == sim.XOR2: c[o0] = c[i0] ^ c[i1]
        elif op == sim.XOR3: c[o0] = c[i0] ^ c[i1] ^ c[i2]
        elif op == sim.XOR4: c[o0] = c[i0] ^ c[i1] ^ c[i2] ^ c[i3]
        elif op == sim.XNOR2: c[o0] = ~(c[i0] ^ c[i1])
        elif op == sim.XNOR3: c[o0] = ~(c[i0] ^ c[i1] ^ c[i2])
        elif op == sim.XNOR4: c[o0] = ~(c[i0] ^ c[i1] ^ c[i2] ^ c[i3])
        elif op == sim.AO21: c[o0] = (c[i0] & c[i1]) | c[i2]
        elif op == sim.OA21: c[o0] = (c[i0] | c[i1]) & c[i2]
        elif op == sim.AO22: c[o0] = (c[i0] & c[i1]) | (c[i2] & c[i3])
        elif op == sim.OA22: c[o0] = (c[i0] | c[i1]) & (c[i2] | c[i3])
        elif op == sim.AOI21: c[o0] = ~((c[i0] & c[i1]) | c[i2])
        elif op == sim.OAI21: c[o0] = ~((c[i0] | c[i1]) & c[i2])
        elif op == sim.AOI22: c[o0] = ~((c[i0] & c[i1]) | (c[i2] & c[i3]))
        elif op == sim.OAI22: c[o0] = ~((c[i0] | c[i1]) & (c[i2] | c[i3]))
        elif op == sim.AO211: c[o0] = (c[i0] & c[i1]) | c[i2] | c[i3]
        elif op == sim.OA211: c[o0] = (c[i0] | c[i1]) & c[i2] & c[i3]
        elif op == sim.AOI211: c[o0] = ~((c[i0] & c[i1]) | c[i2] | c[i3])
        elif op == sim.OAI211: c[o0] = ~((c[i0] | c[i1]) & c[i2] & c[i3])
        elif op == sim.MUX21: c[o0] = (c[i0] & ~c[i2]) | (c[i1] & c[i2])
        else: print(f'unknown op {op}')
