"""The kyupy package itself contains a miscellaneous utility functions.

In addition, it defines a ``numba`` and a ``cuda`` objects that point to the actual packages
if they are available and otherwise point to mocks.
"""

import time
import sys
from collections import defaultdict
import importlib.util
import gzip

import numpy as np


_pop_count_lut = np.asarray([bin(x).count('1') for x in range(256)])


def cdiv(x, y):
    return -(x // -y)


def popcount(a):
    """Returns the number of 1-bits in a given packed numpy array of type ``uint8``."""
    return np.sum(_pop_count_lut[a])


def readtext(file):
    """Reads and returns the text in a given file. Transparently decompresses \\*.gz files."""
    if hasattr(file, 'read'):
        return file.read().decode()
    if str(file).endswith('.gz'):
        with gzip.open(file, 'rt') as f:
            return f.read()
    else:
        with open(file, 'rt') as f:
            return f.read()


def hr_sci(value):
    """Formats a value in a human-readible scientific notation."""
    multiplier = 0
    while abs(value) >= 1000:
        value /= 1000
        multiplier += 1
    while abs(value) < 1:
        value *= 1000
        multiplier -= 1
    return f'{value:.3f}{" kMGTPEafpnµm"[multiplier]}'


def hr_bytes(nbytes):
    """Formats a given number of bytes for human readability."""
    multiplier = 0
    while abs(nbytes) >= 1000:
        nbytes /= 1024
        multiplier += 1
    return f'{nbytes:.1f}{["", "ki", "Mi", "Gi", "Ti", "Pi"][multiplier]}B'


def hr_time(seconds):
    """Formats a given time interval for human readability."""
    s = ''
    if seconds >= 86400:
        d = seconds // 86400
        seconds -= d * 86400
        s += f'{int(d)}d'
    if seconds >= 3600:
        h = seconds // 3600
        seconds -= h * 3600
        s += f'{int(h)}h'
    if seconds >= 60:
        m = seconds // 60
        seconds -= m * 60
        if 'd' not in s:
            s += f'{int(m)}m'
    if 'h' not in s and 'd' not in s:
        s += f'{int(seconds)}s'
    return s


def batchrange(nitems, maxsize):
    """A simple generator that produces offsets and sizes for batch-loops."""
    for offset in range(0, nitems, maxsize):
        yield offset, min(nitems-offset, maxsize)


class Timer:
    def __init__(self, s=0): self.s = s
    def __enter__(self): self.start_time = time.perf_counter(); return self
    def __exit__(self, *args): self.s += time.perf_counter() - self.start_time
    @property
    def ms(self): return self.s*1e3
    @property
    def us(self): return self.s*1e6
    def __repr__(self): return f'{self.s:.3f}'
    def __add__(self, t):
        return Timer(self.s + t.s)


class Timers:
    def __init__(self, t={}): self.timers = defaultdict(Timer) | t
    def __getitem__(self, name): return self.timers[name]
    def __repr__(self): return '{' + ', '.join([f'{k}: {v}' for k, v in self.timers.items()]) + '}'
    def __add__(self, t):
        tmr = Timers(self.timers)
        for k, v in t.timers.items(): tmr.timers[k] += v
        return tmr
    def sum(self):
        return sum([v.s for v in self.timers.values()])
    def dict(self):
        return dict([(k, v.s) for k, v in self.timers.items()])


class Log:
    """A very simple logger that formats the messages with the number of seconds since
    program start.
    """

    def __init__(self):
        self.start = time.perf_counter()
        self.logfile = sys.stdout
        """When set to a file handle, log messages are written to it instead to standard output.
        """
        self.indent = 0
        self._limit = -1
        self.filtered = 0

    def limit(self, log_limit):
        class Limiter:
            def __init__(self, l): self.l = l
            def __enter__(self): self.l.start_limit(log_limit); return self
            def __exit__(self, *args): self.l.stop_limit()
        return Limiter(self)

    def start_limit(self, limit):
        self.filtered = 0
        self._limit = limit

    def stop_limit(self):
        if self.filtered > 0:
            log.info(f'{self.filtered} more messages (filtered).')
            self.filtered = 0
        self._limit = -1

    def __getstate__(self):
        return {'elapsed': time.perf_counter() - self.start}

    def __setstate__(self, state):
        self.logfile = sys.stdout
        self.indent = 0
        self.start = time.perf_counter() - state['elapsed']

    def write(self, s, indent=0):
        self.logfile.write(' '*indent + s + '\n')
        self.logfile.flush()

    def li(self, item): self.write('- ' + str(item).replace('\n', '\n'+' '*(self.indent+1)), self.indent)
    def lib(self): self.write('-', self.indent); self.indent += 1
    def lin(self): self.write('-', self.indent-1)
    def di(self, key, value): self.write(str(key) + ': ' + str(value).replace('\n', '\n'+' '*(self.indent+1)), self.indent)
    def dib(self, key): self.write(str(key) + ':', self.indent); self.indent += 1
    def din(self, key): self.write(str(key) + ':', self.indent-1)
    def ie(self, n=1): self.indent -= n

    def log(self, level, message):
        if self._limit == 0:
            self.filtered += 1
            return
        t = time.perf_counter() - self.start
        self.logfile.write(f'# {t:011.3f} {level} {message}\n')
        self.logfile.flush()
        self._limit -= 1

    def info(self, message):
        """Log an informational message."""
        self.log('-', message)

    def warn(self, message):
        """Log a warning message."""
        self.log('W', message)

    def error(self, message):
        """Log an error message."""
        self.log('E', message)

    def range(self, *args):
        """A generator that operates just like the ``range()`` built-in, and also occasionally logs the progress
        and compute time estimates."""
        elems = len(range(*args))
        start_time = time.perf_counter()
        lastlog_time = start_time
        log_interval = 5
        for elem, i in enumerate(range(*args)):
            yield i
            current_time = time.perf_counter()
            if current_time > lastlog_time + log_interval:
                done = (elem + 1) / elems
                elapsed_time = current_time - start_time
                total_time = elapsed_time / done
                rem_time = total_time - elapsed_time
                self.log(
                    ':', f'{done*100:.0f}% done {hr_time(elapsed_time)} elapsed {hr_time(rem_time)} remaining')
                log_interval = min(600, int(log_interval*1.5))
                lastlog_time = current_time


log = Log()
"""The standard logger instance."""


#
# Code below mocks basic numba and cuda functions for pure-python fallback.
#

class MockNumba:
    @staticmethod
    def njit(func):
        def inner(*args, **kwargs):
            return func(*args, **kwargs)
        return inner


class MockCuda:

    def __init__(self):
        self.x = 0
        self.y = 0

    def jit(self, func=None, device=False):
        _ = device  # silence "not used" warning
        outer = self

        def make_launcher(func):
            class Launcher:
                def __init__(self, funcc):
                    self.func = funcc

                def __call__(self, *args, **kwargs):
                    return self.func(*args, **kwargs)

                def __getitem__(self, item):
                    grid_dim, block_dim = item

                    def inner(*args, **kwargs):
                        for grid_x in range(grid_dim[0]):
                            for grid_y in range(grid_dim[1]):
                                for block_x in range(block_dim[0]):
                                    for block_y in range(block_dim[1]):
                                        outer.x = grid_x * \
                                            block_dim[0] + block_x
                                        outer.y = grid_y * \
                                            block_dim[1] + block_y
                                        self.func(*args, **kwargs)
                    return inner
            return Launcher(func)

        return make_launcher(func) if func else make_launcher

    @staticmethod
    def to_device(array, to=None):
        if to is not None:
            to[...] = array
            return to
        return array.copy()

    def synchronize(self):
        pass

    def grid(self, dims):
        _ = dims  # silence "not used" warning
        return self.x, self.y

    class atomic:
        @staticmethod
        def add(array, idx, value):
            old = array[idx]
            array[idx] += value
            return old


if importlib.util.find_spec('numba') is not None:
    import numba
    import numba.cuda
    from numba.cuda.cudadrv.error import CudaSupportError
    try:
        list(numba.cuda.gpus)
        from numba import cuda
        from numba.core import config
        config.CUDA_LOW_OCCUPANCY_WARNINGS = False
    except CudaSupportError:
        log.warn('Cuda unavailable. Falling back to pure Python.')
        cuda = MockCuda()
else:
    numba = MockNumba()
    """If Numba is available on the system, it is the actual ``numba`` package.
    Otherwise, it simply defines an ``njit`` decorator that does nothing.
    """
    cuda = MockCuda()
    """If Numba is installed and Cuda GPUs are available, it is the actual ``numba.cuda`` package.
    Otherwise, it is an object that defines basic methods and decorators so that cuda-code can still
    run in the Python interpreter.
    """
    log.warn('Numba unavailable. Falling back to pure Python.')
