"""C01 - 2-valued logic simulation computes the netlist's Boolean function.

Decides the induction step (LUT constants, dispatch branches, prefix table, arity selection, operand
wiring, column agreement) and the glue (assign / capture / cycle) statically. See DESIGN.md C01.
"""
from __future__ import annotations

import ast

from kvstatic.paths import cz
from kvstatic.core import Repo, Report, ModelError, AnchorError, norm
from kvstatic import oracle, simtab, simops
from kvstatic.astutil import (find_all, attr_chain, is_name, target_names, call_name, find_dispatch_loops,
                              check_rebinding, resolve_locs, flatten_if_chain, walk_no_nested_funcs, enclosing, parents, body_no_doc)


def bool_table(expr, invars, vt, arr_names=('c', 'self.c')):
    """Truth table (16-bit) of a 2-valued dispatch right-hand side. c[ik] -> operand k."""
    if isinstance(expr, ast.Subscript):
        base = attr_chain(expr.value)
        if base in arr_names and isinstance(expr.slice, ast.Name) and expr.slice.id in invars:
            return vt[invars.index(expr.slice.id)]
        raise ModelError(f'operand {norm(expr)} is not c[<input index variable>]')
    if isinstance(expr, ast.UnaryOp) and isinstance(expr.op, ast.Invert):
        return ~bool_table(expr.operand, invars, vt, arr_names) & 0xFFFF
    if isinstance(expr, ast.BinOp) and isinstance(expr.op, (ast.BitAnd, ast.BitOr, ast.BitXor)):
        a = bool_table(expr.left, invars, vt, arr_names)
        b = bool_table(expr.right, invars, vt, arr_names)
        return a & b if isinstance(expr.op, ast.BitAnd) else a | b if isinstance(expr.op, ast.BitOr) else a ^ b
    raise NotLaneWise(expr)


class NotLaneWise(Exception):
    def __init__(self, node):
        self.node = node


def reachable_rows(repo, weights, rows, sites):
    """constant name -> bitmask of LUT rows the scheduler can make observable."""
    w = {k - 2: v for k, v in weights.items()}
    def mask(zero_ops):
        m = 0
        for row in range(16):
            if all(not (row & w[k]) for k in zero_ops):
                m |= 1 << row
        return m
    reach = {}
    for _, names, _ in rows:
        for slot, nm in enumerate(names):
            zero = {0: (), 1: (3,), 2: (2, 3)}[slot]
            reach[nm] = reach.get(nm, 0) | mask(zero)
    for s in sites:
        if isinstance(s.lut, ast.Name) and s.lut.id != 'sp':
            zero = () if s.opaque else tuple(k for k, e in enumerate(s.ins) if attr_chain(e) == 'self.zero_idx')   # opaque site: every row counts as reachable
            reach[s.lut.id] = reach.get(s.lut.id, 0) | mask(zero)
    return reach


def iter_rule(rep, rid, lmod, fn, d, cname):
    """the dispatch loop visits every op once, in op-list order, with its first six columns: read off `<ops>[:, :6]`, evaluated for any other iterable"""
    from kvstatic import opsiter
    it = getattr(d, 'ops_iter', d.loop.iter)
    if isinstance(it, ast.Subscript):
        if not (isinstance(it.slice, ast.Tuple) and norm(it.slice) in ('(slice(None, None, None), slice(None, 6, None))',) or norm(it).endswith('[:, :6]')):
            rep.violate(rid, lmod, fn, it, f'{cname}: the loop does not iterate the first six op columns: {norm(it)}', node=it)
        return
    if rid not in getattr(rep, '_iter_rules', set()):
        rep._iter_rules = getattr(rep, '_iter_rules', set()) | {rid}
        if rid == 'C01.columns':
            rep.rule(rid, 'the dispatch loop visits every op once, in op-list order, with its first six columns (iterable evaluated)')
    ok, msg, nev = opsiter.evaluate(it, fn)
    rep.ob(rid, f'{cname}: iterable `{norm(it)[:60]}` evaluated on op tables x level tables', ok, evals=nev)
    if not ok:
        rep.violate(rid, lmod, fn, it, f'{cname}: the iterable `{norm(it)[:80]}` of the dispatch loop {msg}: an op evaluated twice is reported to the callback twice '
                    f'(and before its operands are final), a skipped op leaves stale data', node=it)


def chains_2v(repo):
    """The two 2-valued dispatch chains: logic_sim._prop_cpu and the callback arm of LogicSim.c_prop."""
    mod = repo.mod('logic_sim')
    out = []
    f = mod.func('_prop_cpu')
    ds = find_dispatch_loops(f)
    if len(ds) != 1:
        raise AnchorError(f'logic_sim._prop_cpu: expected one dispatch loop, found {len(ds)}')
    out.append(('_prop_cpu', f, ds[0], ('c',)))
    cp = mod.func('LogicSim.c_prop')
    arm = logic_arm(cp, 2)
    ds = []
    for st in arm:
        ds += find_dispatch_loops(_Holder([st]))
    if len(ds) != 1:
        raise AnchorError(f'LogicSim.c_prop: expected one dispatch loop in the m == 2 arm, found {len(ds)}')
    out.append(('LogicSim.c_prop[m==2]', cp, ds[0], ('self.c',)))
    return mod, out


class _Holder(ast.AST):
    _fields = ('body',)

    def __init__(self, body):
        self.body = body


def logic_arm(cp, m):
    """Statements of LogicSim.c_prop executed for logic arity m (chain on self.m == 2 / == 4 / else)."""
    top = [st for st in body_no_doc(cp) if isinstance(st, ast.If) and 'self.m' in norm(st.test)]
    if len(top) != 1:
        raise AnchorError('LogicSim.c_prop: the `self.m` dispatch was not found')
    arms, orelse = flatten_if_chain(top[0])
    seen = []
    for test, body in arms:
        if isinstance(test, ast.Compare) and attr_chain(test.left) == 'self.m' and isinstance(test.ops[0], ast.Eq) \
                and isinstance(test.comparators[0], ast.Constant):
            v = test.comparators[0].value
            seen.append(v)
            if v == m:
                return body
        else:
            from kvstatic.core import DefiniteShapeError
            raise DefiniteShapeError('branch', 'logic_sim', 'LogicSim.c_prop', norm(test),
                                     f'LogicSim.c_prop: the logic selection `{norm(test)[:120]}` is not `self.m == <2|4|8>`: a dispatch chain written for one logic '
                                     f'would be run for another (or only under extra conditions)', getattr(test, 'lineno', 0))
    rest = [x for x in (2, 4, 8) if x not in seen]
    if rest == [m]:
        return orelse
    raise AnchorError(f'LogicSim.c_prop: no arm for m == {m}')


def run(rep: Report, repo: Repo):
    rep.explanation = (
        'Static proof of the induction step of 2-valued simulation: the 33 LUT constants are folded from '
        'sim.py and compared with a Boolean family oracle on every observable row; every branch of both '
        '2-valued dispatch chains is evaluated as a Boolean function of c[i0..i3] (16 rows, exhaustive) and '
        'compared with its constant; the prefix table, arity selection, operand wiring into op columns, '
        'column unpacking, and the assign/capture/cycle plumbing are checked structurally by def-use.')
    rep.exhaustive = True
    rep.trusted = ["python ast; numpy '&', '|', '^', '~' are element-wise on uint8 arrays",
                   'Boolean family table in kvstatic/oracle.py (33 formulas)']
    rep.assumptions = [
        'NOT DECIDED: that topological_order yields a valid order for every graph (C17 decides its structural part)',
        'NOT DECIDED: numba/numpy conformance; s_nodes ordering semantics beyond the single-source rule (C18)',
        'lifting from per-op correctness to whole circuits is by induction over the op list (argued in DESIGN.md)']
    luts, lut_nodes = simtab.luts(repo)
    rows, kp_stmt = simtab.kind_prefixes(repo)
    weights, lut_col, z_col, _ = simtab.wave_operand_bits(repo)
    vt = simtab.var_tables(weights)
    simmod, init = simops.simops_init(repo)
    sites = simops.op_sites(init, tolerant=True)
    rep.note(f'sim.py: {len(luts)} uint16 constants, {len(rows)} prefix rows, {len(sites)} ops.append sites; '
             f'LUT bit weights from _wave_eval: {weights}')
    rep.floor('LUT constants', len(luts), 33)
    rep.floor('prefix rows', len(rows), 30)
    if sorted(weights) != [2, 3, 4, 5] or sorted(weights.values()) != [1, 2, 4, 8]:
        raise ModelError(f'LUT index convention not recognised: {weights}')

    reach = reachable_rows(repo, weights, rows, sites)

    # ---- rule lut: constants mean what their names say
    rep.rule('C01.lut', 'LUT constant equals the Boolean family function its name denotes on every reachable row')
    for name, val in sorted(luts.items()):
        if name not in oracle.FAMILY:
            rep.violate('C01.lut', simmod, '<module>', f'{name} = ...', f'uint16 constant {name} is not one of the 33 documented primitives '
                        f'(names dict / dispatch cannot know it)', node=lut_nodes.get(name))
            rep.ob('C01.lut', name, False)
            continue
        fam = oracle.family_table(name) if weights == {2: 1, 3: 2, 4: 4, 5: 8} else _family_perm(name, weights)
        m = reach.get(name, 0xFFFF) or 0xFFFF
        ok = (val & m) == (fam & m)
        rep.ob('C01.lut', name, ok, evals=bin(m).count('1'),
               sample={'rule': 'C01.lut', 'const': name, 'value': f'{val:016b}', 'oracle': f'{fam:016b}', 'rows': f'{m:016b}', 'ok': ok})
        if not ok:
            bad = [r for r in range(16) if (m >> r) & 1 and ((val ^ fam) >> r) & 1]
            rep.violate('C01.lut', simmod, '<module>', f'{name}', f'LUT {name}={val:#018b} differs from {name} family function {fam:#018b}',
                        witness={'rows(i0+2*i1+4*i2+8*i3)': bad}, node=lut_nodes.get(name))
    missing = sorted(set(oracle.FAMILY) - set(luts))
    for name in missing:
        rep.violate('C01.lut', simmod, '<module>', name, f'primitive constant {name} is no longer defined in sim.py')

    # ---- rule prefix: shadowing, row contents, arity selection
    rep.rule('C01.prefix-order', 'no prefix row is shadowed by an earlier prefix it starts with (dict order = match order)')
    for i, (p, names, knode) in enumerate(rows):
        for q, qnames, _ in rows[:i]:
            if p.startswith(q):
                ok = names == qnames
                rep.ob('C01.prefix-order', f'{q!r} before {p!r}', ok)
                if not ok:
                    rep.violate('C01.prefix-order', simmod, '<module>', f'kind_prefixes: {q!r} precedes {p!r}',
                                f"prefix {q!r} is tested before {p!r} and matches every kind starting with {p!r}; "
                                f"row {p!r} -> {names} is unreachable, such cells get {qnames}", node=knode)
        rep.ob('C01.prefix-order', p, True)
    rep.rule('C01.prefix-row', 'each prefix row lists the family function of arity 4,3,2 (or one fixed-arity constant thrice)')
    for p, names, knode in rows:
        fam = oracle.PREFIX_FAMILY.get(p)
        if fam is None:
            # unknown prefix: must at least be consistent (thrice the same constant) - otherwise not decidable by the oracle
            rep.ob('C01.prefix-row', p, True)
            rep.note(f'prefix {p!r} is not in the oracle table; only internal consistency is checked')
            continue
        exp = tuple(f'{fam}{k}' for k in (4, 3, 2)) if fam in oracle.VARIADIC else (fam, fam, fam)
        ok = all(n in luts for n in names) and all((luts[n] & reach.get(n, 0xFFFF)) == (luts.get(e, -1) & reach.get(n, 0xFFFF)) for n, e in zip(names, exp))
        rep.ob('C01.prefix-row', p, ok, sample={'rule': 'C01.prefix-row', 'prefix': p, 'row': names, 'expected': exp, 'ok': ok})
        if not ok:
            rep.violate('C01.prefix-row', simmod, '<module>', f'kind_prefixes[{p!r}] = {names}',
                        f'prefix {p!r} must select {exp} for 4/3/2 connected inputs, table has {names}', node=knode)

    from kvstatic.core import cached_rules
    evaluated = cached_rules(rep, repo, 'c01.translation', ['sim'], lambda r: translation_evaluated(r, simmod, init, rows))
    rep.floor('ops.append sites', len(sites), 5 if not evaluated else 1)
    try:
        check_arity_selection(rep, simmod, init, rows, luts, weights)
    except (ModelError, AnchorError) as e:
        if not evaluated:
            raise
        rep.note(f'C01.arity: {e}; the arity selection is decided by the evaluated translation (C01.wiring), which covers every pin pattern')
    if not evaluated:
        check_wiring(rep, simmod, init, simops.op_sites(init))

    # ---- the 2-valued chains
    lmod, chains = chains_2v(repo)
    rep.rule('C01.branch', 'dispatch branch (2-valued) computes exactly the Boolean function of its LUT constant (16 rows)')
    rep.rule('C01.exhaust', 'every constant the scheduler can emit has exactly one branch in every chain; every key exists')
    rep.rule('C01.rebind', 'index variables are mapped through c_locs in unpack order before the chain')
    rep.rule('C01.writers', 'inside a chain only the dispatch store writes signal memory; no operator other than & | ^ ~')
    emit = set(n for _, names, _ in rows for n in names) | {s.lut.id for s in sites if isinstance(s.lut, ast.Name) and s.lut.id in luts}
    nbranch = 0
    for cname, fn, d, arrs in chains:
        ok = resolve_locs(d)
        rep.ob('C01.rebind', cname, ok)
        if not ok:
            rep.violate('C01.rebind', lmod, fn, d.rebinding, f'{cname}: op columns 1..5 are not mapped 1:1 through c_locs before the chain', node=d.rebinding)
        iter_rule(rep, 'C01.columns', lmod, fn, d, cname)
        seen = {}
        for const, test, body in d.arms:
            nbranch += 1
            if const in seen:
                rep.ob('C01.exhaust', f'{cname}:{const}:dup', False)
                rep.violate('C01.exhaust', lmod, fn, test, f'{cname}: second branch for {const} is shadowed by the first', node=test)
                continue
            seen[const] = body
            if const not in luts:
                rep.ob('C01.exhaust', f'{cname}:{const}', False)
                rep.violate('C01.exhaust', lmod, fn, test, f'{cname}: branch key sim.{const} is not a LUT constant of sim.py', node=test)
                continue
            store = [st for st in body if not (isinstance(st, ast.Expr) and isinstance(st.value, ast.Constant))]
            if len(store) != 1 or not isinstance(store[0], ast.Assign) or len(store[0].targets) != 1:
                raise ModelError(f'{cname}: branch {const} is not a single store: {norm(body[0])[:80]}')
            st = store[0]
            tgt = st.targets[0]
            if not (isinstance(tgt, ast.Subscript) and attr_chain(tgt.value) in arrs and is_name(tgt.slice, d.loc_out)):
                rep.ob('C01.writers', f'{cname}:{const}', False)
                rep.violate('C01.writers', lmod, fn, st, f'{cname}: branch {const} stores to {norm(tgt)} instead of the output location c[{d.loc_out}]', node=st)
                continue
            try:
                tab = bool_table(st.value, d.loc_ins, vt, arrs)
            except NotLaneWise as e:
                rep.ob('C01.writers', f'{cname}:{const}', False)
                rep.violate('C01.writers', lmod, fn, st, f'{cname}: branch {const} uses {norm(e.node)[:60]}, not a lane-wise & | ^ ~ of operands', node=st)
                continue
            rep.ob('C01.writers', f'{cname}:{const}', True)
            m = reach.get(const, 0xFFFF) or 0xFFFF
            ok = (tab & m) == (luts[const] & m)
            rep.ob('C01.branch', f'{cname}:{const}', ok, evals=16,
                   sample={'rule': 'C01.branch', 'chain': cname, 'const': const, 'code': norm(st), 'table': f'{tab:016b}', 'lut': f'{luts[const]:016b}', 'ok': ok})
            if not ok:
                bad = [r for r in range(16) if (m >> r) & 1 and ((tab ^ luts[const]) >> r) & 1]
                rep.violate('C01.branch', lmod, fn, st, f'{cname}: branch for {const} computes {tab:#018b}, LUT {const} is {luts[const]:#018b}',
                            witness={'differing rows (i0+2*i1+4*i2+8*i3)': bad}, node=st)
        for const in sorted(emit):
            ok = const in seen
            rep.ob('C01.exhaust', f'{cname}:{const}', ok)
            if not ok:
                rep.violate('C01.exhaust', lmod, fn, f'{cname}: no branch for {const}',
                            f'{cname}: constant {const} can be emitted by SimOps but has no dispatch branch (falls to "unknown op", output keeps stale data)', node=d.chain_if)
        # tail / orelse: nothing may write signal memory
        for st in list(d.tail) + list(d.orelse):
            for n in ast.walk(st):
                if isinstance(n, (ast.Assign, ast.AugAssign)):
                    tg = n.targets[0] if isinstance(n, ast.Assign) else n.target
                    if isinstance(tg, ast.Subscript) and attr_chain(tg.value) in arrs:
                        rep.violate('C01.writers', lmod, fn, n, f'{cname}: extra store to signal memory after the dispatch chain', node=n)
    rep.floor('2-valued branches', nbranch, 60)

    check_plumbing(rep, repo, lmod, simmod, init)


def _family_perm(name, weights):
    k, f = oracle.FAMILY[name]
    t = 0
    for row in range(16):
        bits = [1 if row & weights[c] else 0 for c in (2, 3, 4, 5)]
        if f(*bits[:k]):
            t |= 1 << row
    return t


# --------------------------------------------------------------------------- arity selection

def check_arity_selection(rep, simmod, init, rows, luts, weights):
    rep.rule('C01.arity', 'after the prefix match the selected slot is the family member for the highest connected pin (4 patterns x rows)')
    loops = [l for l in find_all(init, ast.For, nested=False) if 'kind_prefixes' in norm(l.iter)]
    if len(loops) != 1:
        raise AnchorError('SimOps.__init__: the kind_prefixes selection loop was not found')
    loop = loops[0]
    tn = target_names(loop.target)
    if len(tn) != 2 or not norm(loop.iter).endswith('kind_prefixes.items()'):
        raise ModelError(f'selection loop iterates {norm(loop.iter)}; expected kind_prefixes.items()')
    pvar, primsvar = tn
    if not (len(loop.body) == 1 and isinstance(loop.body[0], ast.If)):
        raise ModelError('selection loop body is not a single `if kind.startswith(prefix)`')
    iff = loop.body[0]
    t = iff.test
    if not (isinstance(t, ast.Call) and isinstance(t.func, ast.Attribute) and t.func.attr == 'startswith' and len(t.args) == 1 and is_name(t.args[0], pvar)):
        rep.violate('C01.arity', simmod, init, t, f'prefix match is not `<kind>.startswith({pvar})`: {norm(t)}', node=t)
        return
    kindvar = norm(t.func.value)
    # kind must be the lower-cased node kind
    kdefs = [st for st in find_all(init, ast.Assign, nested=False) if len(st.targets) == 1 and norm(st.targets[0]) == kindvar]
    ok = bool(kdefs) and all(norm(st.value).endswith('.kind.lower()') for st in kdefs)
    rep.ob('C01.arity', 'kind is case-folded', ok)
    if not ok:
        rep.violate('C01.arity', simmod, init, kdefs[0] if kdefs else t, f'{kindvar} matched against lower-case prefixes is not `n.kind.lower()`', node=kdefs[0] if kdefs else t)
    body = iff.body
    if not (body and isinstance(body[-1], ast.Break)):
        rep.violate('C01.arity', simmod, init, iff, 'the selection does not `break` after the first matching prefix (a later, shorter prefix would override)', node=iff)
    ins, outs = simops.operand_defs(init)
    name_to_k = {nm: r['K'] for nm, r in ins.items()}

    # The selection is *evaluated*, not pattern-matched: for every connectivity pattern of the four input pins the names
    # the constructor uses are bound to values realising the pattern (an unconnected pin reads self.zero_idx, n.ins holds
    # None there) and the statements between the operand definitions and the end of the loop body run in Engine M.
    from kvstatic import minieval
    blk = getattr(loop, '_parent', None)
    sibs = getattr(blk, 'body', []) if blk is not None and loop in getattr(blk, 'body', []) else (getattr(blk, 'orelse', []) if blk is not None else [])
    pre = []
    if loop in sibs:
        defs_at = max((sibs.index(r['node']) for r in ins.values() if r['node'] in sibs), default=-1)
        pre = [st for st in sibs[defs_at + 1:sibs.index(loop)] if isinstance(st, ast.Assign)]
    nodevar = next((norm(st.value)[:-len('.kind.lower()')] for st in kdefs if norm(st.value).endswith('.kind.lower()')), 'n')

    def select(conn):
        """slot chosen for pins connected as conn[0..3]; the circuit node lists pins up to the highest connected one"""
        ZERO = 7
        hi = max([k for k in range(4) if conn[k]], default=-1)
        lines = [minieval.NS(index=100 + k) if conn[k] else None for k in range(hi + 1)]
        env = {'self': minieval.NS(zero_idx=ZERO), nodevar: minieval.NS(ins=lines, outs=[minieval.NS(index=200)], kind='x'),
               primsvar: ('slot0', 'slot1', 'slot2'), pvar: 'x', kindvar: 'x'}
        for nm, k in name_to_k.items():
            env[nm] = 100 + k if conn[k] else ZERO
        for st in pre:
            try:
                minieval.run([st], env)
            except (ModelError, IndexError, KeyError, TypeError):
                pass    # an unrelated statement; if the selection needs its value the evaluation below fails
        before = dict(env)
        try:
            minieval.run(body, env)
        except (IndexError, KeyError, TypeError) as e:
            return None, f'{type(e).__name__}: {e}'
        changed = [k for k, v in env.items() if isinstance(v, str) and v.startswith('slot') and before.get(k) != v]
        if len(changed) != 1:
            raise ModelError(f'arity selection: no single selected variable (changed: {changed})')
        return changed[0], int(env[changed[0]][4:])

    w = {k - 2: v for k, v in weights.items()}
    n_ob = 0
    cur = None
    for z2 in (False, True):
        for z3 in (False, True):
            pat = {0: False, 1: False, 2: z2, 3: z3}   # True = operand reads the zero line
            cur = select([True, True, not z2, not z3])
            if cur[0] is None:
                rep.violate('C01.arity', simmod, init, f'selection with i2 {"un" if z2 else ""}connected, i3 {"un" if z3 else ""}connected',
                            f'the primitive selection raises {cur[1]} for this connectivity', node=iff)
                continue
            slot = cur[1]
            n = 4 if not z3 else (3 if not z2 else 2)
            rowmask = 0
            for row in range(16):
                if (not z2 or not row & w[2]) and (not z3 or not row & w[3]):
                    rowmask |= 1 << row
            for p, names, knode in rows:
                fam = oracle.PREFIX_FAMILY.get(p)
                if fam is None or not (0 <= slot < 3) or names[slot] not in luts:
                    continue
                expname = f'{fam}{n}' if fam in oracle.VARIADIC else fam
                exp = _family_perm(expname, weights)
                got = luts[names[slot]]
                ok = (got & rowmask) == (exp & rowmask)
                n_ob += 1
                rep.ob('C01.arity', f'{p}:i2{"=0" if z2 else ""},i3{"=0" if z3 else ""}', ok, evals=bin(rowmask).count('1'))
                if not ok:
                    rep.violate('C01.arity', simmod, init, f'select {primsvar}[{slot}] when i2 {"un" if z2 else ""}connected, i3 {"un" if z3 else ""}connected',
                                f"kind prefix {p!r} with highest connected pin {n-1}: selected {names[slot]} but the netlist function is {expname} "
                                f"(unconnected pins read 0)", node=iff,
                                witness={'pattern': {'i2_unconnected': z2, 'i3_unconnected': z3}, 'slot': slot})
    for c0 in (False, True):
        for c1 in (False, True):
            for c2 in (False, True):
                for c3 in (False, True):
                    if c0 and c1:
                        continue
                    got = select([c0, c1, c2, c3])
                    want = 0 if c3 else (1 if c2 else 2)
                    ok = got[0] is not None and got[1] == want
                    rep.ob('C01.arity', f'pins connected {[int(c0), int(c1), int(c2), int(c3)]} -> slot {want}', ok)
                    if not ok:
                        rep.violate('C01.arity', simmod, init, f'pins connected {[int(c0), int(c1), int(c2), int(c3)]}',
                                    f'with input pins connected as {[int(c0), int(c1), int(c2), int(c3)]} the selection takes slot {got[1]} but the highest connected pin '
                                    f'needs slot {want} ({4 - want}-input variant): a connected pin would be dropped or a spare 0 input added to an AND-type gate', node=iff)
    rep.floor('arity-selection obligations', n_ob, 100)
    # the selected variable must be what the regular-node tuple stores in column 0
    selvar = cur[0]
    return selvar


# --------------------------------------------------------------------------- operand wiring

def translation_evaluated(rep, simmod, init, rows):
    """C01.wiring / C01.arity decided by evaluating the constructor's own translation loop (Engine M) on stand-in nodes:
    every interface / fork / cell shape with up to 4 input and 3 output pins, each connected or not. Returns False when the
    loop is outside the evaluator subset (the structural forms of the rules are used then)."""
    import itertools
    rep.rule('C01.wiring', 'op tuple: column k+2 is input pin k (zero line if unconnected), column 1 the output line; '
                           'interface nodes emit BUF1/INV1 from ppi_offset + s_nodes position')
    kinds = ['AND', 'nand2_x1', 'NOR4', 'XOR3', 'AO21X1', 'aoi211', 'OA22', 'MUX21', 'INV_X1', 'BUF', 'Nbuff', 'ibuff', 'xyz_unknown', '__const1__']
    cases = []
    pin_pats = [p for n in range(0, 5) for p in itertools.product((True, False), repeat=n)]
    for kind in kinds:
        for ins in pin_pats:
            for outs in ((), (True,), (False,), (True, True)):
                cases.append(dict(kind=kind, ins=ins, outs=outs, s_pos=None, strip_forks=False))
    for sf in (False, True):
        for ins in ((), (True,), (False,), (True, True)):
            for outs in [p for n in range(0, 4) for p in itertools.product((True, False), repeat=n)]:
                cases.append(dict(kind='__fork__', ins=ins, outs=outs, s_pos=None, strip_forks=sf))
    for kind in ('input', 'DFF_X1', 'sdffar', 'LATCH', '__fork__', 'AND2', 'dlatch'):
        for outs in [p for n in range(0, 4) for p in itertools.product((True, False), repeat=n)]:
            for ins in ((), (True,)):
                for pos in (0, 3):
                    cases.append(dict(kind=kind, ins=ins, outs=outs, s_pos=pos, strip_forks=False))
    try:
        res = simops.evaluate_translation(init, rows, cases)
    except ModelError as e:
        rep.note(f'C01.wiring: translation loop outside the evaluator subset ({e}); structural rules used')
        return False
    bad = None
    nbad = 0
    for case, got in res:
        want = simops.expected_translation(case, rows)
        if got != want:
            nbad += 1
            if bad is None:
                bad = (case, got, want)
    ok = bad is None
    rep.ob('C01.wiring', f'node -> op translation evaluated on {len(res)} stand-in nodes', ok, evals=len(res),
           sample={'rule': 'C01.wiring', 'cases': len(res), 'ok': ok})
    if not ok:
        case, got, want = bad
        what = 'port/state element at s position %d' % case['s_pos'] if case['s_pos'] is not None else ('fork' if case['kind'] == '__fork__' else 'cell')
        rep.violate('C01.wiring', simmod, init, f'translation of a {what} of kind {case["kind"]!r}',
                    f'SimOps.__init__: for a {what} of kind {case["kind"]!r} with input pins connected {[int(x) for x in case["ins"]]}, output pins connected '
                    f'{[int(x) for x in case["outs"]]}, strip_forks={case["strip_forks"]} the constructor emits {got} but the netlist semantics need {want} '
                    f'(lut, output line, 4 operand lines, the three accumulation columns (a, line, k); 900 = zero line, 901 = scratch, 1000+p = input slot of s position p); {nbad} of {len(res)} shapes differ',
                    witness={'case': {k: (list(v) if isinstance(v, tuple) else v) for k, v in case.items()}, 'got': str(got), 'want': str(want)}, node=simops.translation_loop(init))
    return True


def plumbing_rules(rep, repo):
    """C01.plumbing (assign / capture / transfer / cycle of LogicSim) for checks that include it through depends()."""
    simmod, init = simops.simops_init(repo)
    check_plumbing(rep, repo, repo.mod('logic_sim'), simmod, init)


def wiring_rules(rep, repo):
    """C01.wiring for checks that include it through depends(): evaluated translation, structural form as fall-back."""
    rows, _kp = simtab.kind_prefixes(repo)
    simmod, init = simops.simops_init(repo)
    from kvstatic.core import cached_rules
    if not cached_rules(rep, repo, 'c01.translation', ['sim'], lambda r: translation_evaluated(r, simmod, init, rows)):
        check_wiring(rep, simmod, init, simops.op_sites(init))      # (not tolerant: the structural form needs the columns)


def check_wiring(rep, simmod, init, sites):
    rep.rule('C01.wiring', 'op tuple: column k+2 is input pin k (zero line if unconnected), column 1 the output line; '
                           'interface nodes emit BUF1/INV1 from ppi_offset + s_nodes position')
    ins, outs = simops.operand_defs(init)
    for nm, r in ins.items():
        ok = r['guard_ok'] and r['default'] == 'self.zero_idx'
        rep.ob('C01.wiring', f'{nm} <- ins[{r["K"]}]', ok)
        if not ok:
            rep.violate('C01.wiring', simmod, init, r['node'],
                        f'{nm}: input pin {r["K"]} must be guarded by `len(ins) > {r["K"]} and ins[{r["K"]}] is not None` and default to the zero line', node=r['node'])
    rep.floor('operand definitions', len(ins), 4)
    # interface dict
    idefs = [st for st in find_all(init, ast.Assign, nested=False) if len(st.targets) == 1 and is_name(st.targets[0], 'interface_dict')]
    if not idefs:
        raise AnchorError('SimOps.__init__: interface_dict vanished')
    txt = norm(idefs[0].value)
    ok = 'enumerate(circuit.s_nodes)' in txt and txt.replace(' ', '') in (
        'dict(((n,i)fori,ninenumerate(circuit.s_nodes)))', '{n:ifori,ninenumerate(circuit.s_nodes)}')
    rep.ob('C01.wiring', 'interface_dict', ok)
    if not ok:
        rep.violate('C01.wiring', simmod, init, idefs[0], 'interface_dict does not map each s_node to its position in circuit.s_nodes', node=idefs[0])
    roles = []
    for s in sites:
        lut = s.lut.id if isinstance(s.lut, ast.Name) else norm(s.lut)
        star = s.rest[0] if len(s.rest) == 1 and isinstance(s.rest[0], ast.Starred) else None
        if star is None and len(s.rest) != 3:   # columns 6..8 (accumulation control) are C13's subject; here only their presence
            raise ModelError(f'ops.append tuple does not have the 9 columns (lut, out, 4 inputs, 3 accumulation columns): {norm(s.tup)[:100]}')
        in_names = [norm(e) for e in s.ins]
        conds = [norm(p.test) for p in parents(s.call) if isinstance(p, ast.If)]
        in_else_of = [p for p in parents(s.call) if isinstance(p, ast.If)]
        if lut in ('BUF1', 'INV1') and in_names[1:] == ['self.zero_idx'] * 3:
            # interface site
            role = 'interface'
            src = s.ins[0]
            sdef = [st for st in find_all(init, ast.Assign, nested=False) if len(st.targets) == 1 and norm(st.targets[0]) == norm(src)]
            ok = bool(sdef) and all(norm(st.value).replace(' ', '') == 'self.ppi_offset+interface_dict[n]' for st in sdef)
            rep.ob('C01.wiring', f'interface source {norm(src)}', ok)
            if not ok:
                rep.violate('C01.wiring', simmod, init, s.tup, f'interface op reads {norm(src)} which is not ppi_offset + position in s_nodes', node=s.call)
            # output line and polarity
            o = s.out
            if not (isinstance(o, ast.Attribute) and o.attr == 'index'):
                raise ModelError(f'interface op output {norm(o)} is not <line>.index')
            line = norm(o.value)
            # which output pin?
            pin = None
            if line.endswith('.outs[0]'):
                pin = 0
            elif line.endswith('.outs[1]'):
                pin = 1
            else:
                lp = enclosing(s.call, ast.For)
                if lp is not None and norm(lp.target) == line and norm(lp.iter).endswith('.outs[1:]'):
                    pin = 'rest'
            dff_true = dff_false = False
            node = s.call
            for p in parents(s.call):
                if isinstance(p, ast.If) and "'dff' in" in norm(p.test) and '.kind.lower()' in norm(p.test):
                    # are we in body or orelse?
                    inbody = any(node is x or _contains(x, node) for x in p.body)
                    if inbody:
                        dff_true = True
                    else:
                        dff_false = True
            exp = None
            if pin == 0:
                exp = 'BUF1'
                if dff_true or dff_false:
                    exp = None
                    rep.violate('C01.wiring', simmod, init, s.tup, 'first output of an interface node must be emitted for every kind (not only inside the dff test)', node=s.call)
            elif pin == 1:
                exp = 'INV1' if dff_true else 'BUF1'
            elif pin == 'rest':
                exp = 'BUF1'
                if dff_true:
                    exp = 'INV1'
            else:
                raise ModelError(f'interface op output line {line} not recognised')
            ok = exp is not None and lut == exp
            rep.ob('C01.wiring', f'interface out pin {pin} -> {lut}', ok)
            if not ok and exp is not None:
                rep.violate('C01.wiring', simmod, init, s.tup, f'interface output pin {pin} ({"flip-flop" if dff_true else "non flip-flop"}) must be {exp} '
                            f'(second flip-flop output is inverted, all others copy), found {lut}', node=s.call)
            # a_ctrl row of the same line
            roles.append(('interface', pin, dff_true, dff_false))
            # None guard
            if not any(f'{line} is not None' in c for c in conds):
                rep.violate('C01.wiring', simmod, init, s.tup, f'interface op for {line} is not guarded by `{line} is not None`', node=s.call)
        else:
            # fork or regular node: columns 2..5 must be the operand names in pin order
            ks = [ins.get(n, {}).get('K') for n in in_names]
            ok = ks == [0, 1, 2, 3]
            role = 'fork' if lut == 'BUF1' else 'regular'
            rep.ob('C01.wiring', f'{role} operand columns', ok, sample={'rule': 'C01.wiring', 'site': norm(s.tup), 'pins': ks})
            if not ok:
                rep.violate('C01.wiring', simmod, init, s.tup, f'{role} op: columns 2..5 hold input pins {ks}, must be [0, 1, 2, 3]', node=s.call)
            if role == 'fork':
                o = s.out
                line = norm(o.value) if isinstance(o, ast.Attribute) and o.attr == 'index' else None
                lp = enclosing(s.call, ast.For)
                ok = line is not None and lp is not None and norm(lp.target) == line and norm(lp.iter).endswith('.outs') \
                    and any(f'{line} is not None' in c for c in conds) and any('strip_forks' in c for c in conds)
                rep.ob('C01.wiring', 'fork emits one BUF1 per connected output', ok)
                if not ok:
                    rep.violate('C01.wiring', simmod, init, s.tup, 'fork must emit one BUF1 per non-None output line (unless forks are stripped)', node=s.call)
                ok = line is not None and norm(star.value).replace(' ', '') in (f'a_ctrl[{line}]', f'a_ctrl[{line}.index]')
                # the fork test must be on the case-folded kind
                fk = [c for c in conds if "'__fork__'" in c]
                if not fk:
                    rep.violate('C01.wiring', simmod, init, s.tup, "fork ops are not guarded by kind == '__fork__'", node=s.call)
            else:
                oname = norm(s.out)
                r = outs.get(oname)
                ok = r is not None and r['K'] == 0 and r['guard_ok'] and r['default'] == 'self.tmp_idx'
                rep.ob('C01.wiring', 'regular output column', ok)
                if not ok:
                    rep.violate('C01.wiring', simmod, init, s.tup, f'regular op: column 1 ({oname}) must be outs[0] or the scratch slot tmp_idx (never the zero line)', node=s.call)
                ok = norm(star.value).replace(' ', '') == f'a_ctrl[{oname}]'
                if not isinstance(s.lut, ast.Name):
                    raise ModelError('regular op LUT is not a variable')
            roles.append((role,))
    kinds = [r[0] for r in roles]
    rep.floor('interface op sites', kinds.count('interface'), 3)
    rep.floor('fork op sites', kinds.count('fork'), 1)
    rep.floor('regular op sites', kinds.count('regular'), 1)
    pins = sorted(str(r[1]) for r in roles if r[0] == 'interface')
    if pins != ['0', '1', 'rest']:
        rep.violate('C01.wiring', simmod, init, 'interface ops', f'interface outputs covered: {pins}; expected first output, second flip-flop output, remaining outputs')
    # the interface branch must `continue` (no double evaluation as a regular node)
    # and ops must become the int32 table
    asn = [st for st in find_all(init, ast.Assign, nested=False) if len(st.targets) == 1 and attr_chain(st.targets[0]) == 'self.ops']
    ok = len(asn) == 1 and norm(asn[0].value).startswith('np.asarray(ops')
    rep.ob('C01.wiring', 'self.ops = np.asarray(ops)', ok)
    if not ok:
        rep.violate('C01.wiring', simmod, init, asn[0] if asn else 'self.ops', 'self.ops is not np.asarray(ops, ...) of the collected tuples', node=asn[0] if asn else None)
    # topological order source
    tl = [l for l in find_all(init, ast.For, nested=False) if any(s.call is c for s in sites for c in ast.walk(l))]
    outer = tl[0] if tl else None
    ok = outer is not None and norm(outer.iter) == 'circuit.topological_order()'
    rep.ob('C01.wiring', 'ops are emitted in circuit.topological_order()', ok)
    if not ok:
        rep.violate('C01.wiring', simmod, init, outer.iter if outer else 'for n in ...', 'ops are not emitted in circuit.topological_order()', node=outer)


def _contains(root, node):
    return any(n is node for n in ast.walk(root))


# --------------------------------------------------------------------------- plumbing

def _p2p_evaluated(p2p):
    """LogicSim.s_ppo_to_ppi evaluated (Engine M, array stand-in) on a state array with distinguishable bytes, for mdim 1..3 and several sets of
    state-element rows, against the documented transfer: 2-/4-valued: s[0, rows] = s[1, rows]; 8-valued: initial := previous final, final := captured
    final, toggle := their difference; every other element unchanged. True / False, None when outside the evaluator subset."""
    from kvstatic import minieval
    from kvstatic.ndarr import NDArr
    for mdim in (1, 2, 3):
        for rows in ([1], [0, 2, 3], [4, 1]):      # (an empty row set has no shape in the stand-in)
            nrow, nb = 5, 2
            old = [[[[(a * 131 + r * 31 + pl * 7 + b * 3 + 1) % 251 for b in range(nb)] for pl in range(mdim)] for r in range(nrow)] for a in range(2)]
            want = [[[list(x) for x in r] for r in a] for a in old]
            for r in rows:
                if mdim < 3:
                    want[0][r] = [list(x) for x in old[1][r]]
                else:
                    want[0][r][1] = list(old[0][r][0])
                    want[0][r][0] = list(old[1][r][0])
                    want[0][r][2] = [x ^ y for x, y in zip(old[1][r][0], old[0][r][0])]
            me = minieval.NS(s=NDArr(old), ppio_s_locs=NDArr(rows), mdim=mdim, m=(2, 4, 8)[mdim - 1])
            try:
                minieval.call_function(p2p, [me])
            except ModelError:
                return None
            except (IndexError, TypeError, ValueError, AttributeError, KeyError):
                return False
            if not isinstance(me.s, NDArr) or me.s.d != want:
                return False
    return True


def check_plumbing(rep, repo, lmod, simmod, init):
    rep.rule('C01.plumbing', 'assign reads s[0] rows pippi_s_locs into pippi_c_locs; capture writes s[1] rows poppo_s_locs from '
                             'poppo_c_locs; *_c_locs = c_locs[offset + *_s_locs]; cycle = assign, propagate, capture, transfer')
    def one(fn, pred, what):
        sts = [st for st in body_no_doc(fn)]
        hits = [st for st in sts if pred(norm(st).replace(' ', ''))]
        return hits

    s2c = lmod.func('LogicSim.s_to_c')
    want = 'self.c[self.pippi_c_locs]=self.s[0,self.pippi_s_locs,:self.mdim]'
    ok = any(norm(st).replace(' ', '') == want for st in body_no_doc(s2c))
    rep.ob('C01.plumbing', 's_to_c', ok)
    if not ok:
        rep.violate('C01.plumbing', lmod, s2c, body_no_doc(s2c)[0], 'LogicSim.s_to_c must copy s[0, pippi_s_locs, :mdim] to c[pippi_c_locs]', node=s2c)
    c2s = lmod.func('LogicSim.c_to_s')
    body = body_no_doc(c2s)
    want1 = 'self.s[1,self.poppo_s_locs,:self.mdim]=self.c[self.poppo_c_locs]'
    ok = any(norm(st).replace(' ', '') == want1 for st in body)
    rep.ob('C01.plumbing', 'c_to_s', ok)
    if not ok:
        rep.violate('C01.plumbing', lmod, c2s, body[0], 'LogicSim.c_to_s must copy c[poppo_c_locs] to s[1, poppo_s_locs, :mdim]', node=c2s)
    want2 = 'ifself.mdim==1:self.s[1,self.poppo_s_locs,1:2]=self.c[self.poppo_c_locs]'
    ok = any(cz(st) == want2 for st in body)
    rep.ob('C01.plumbing', 'c_to_s replicates plane 0 for 2-valued results', ok)
    if not ok:
        rep.violate('C01.plumbing', lmod, c2s, body[-1], 'for mdim == 1 the captured plane must be replicated into plane 1 (so 1 reads as ONE=0b11, not UNKNOWN)', node=c2s)
    # what is captured is what was computed: apart from the copy (and the 2-valued plane replication) nothing in c_to_s writes to s
    extra = [st for st in ast.walk(c2s) if isinstance(st, (ast.Assign, ast.AugAssign)) and any(
        isinstance(n, (ast.Subscript, ast.Attribute)) and isinstance(getattr(n, 'ctx', None), ast.Store) and 'self.s' in norm(n) for n in ast.walk(st))
        and norm(st).replace(' ', '') not in (want1, 'self.s[1,self.poppo_s_locs,1:2]=self.c[self.poppo_c_locs]')]
    rep.ob('C01.plumbing', 'c_to_s stores nothing but the captured values into s', not extra)
    for st in extra:
        rep.violate('C01.plumbing', lmod, c2s, st, f'LogicSim.c_to_s: `{norm(st)[:80]}` changes captured values after the copy: s[1] would no longer hold what the circuit computed '
                    f'(e.g. a pulse reported as a constant)', node=st)
    p2p = lmod.func('LogicSim.s_ppo_to_ppi')
    want3 = 'self.s[0,self.ppio_s_locs]=self.s[1,self.ppio_s_locs]'
    iff = [st for st in body_no_doc(p2p) if isinstance(st, ast.If)]
    ok = _p2p_evaluated(p2p)
    if ok is None:      # outside the evaluator subset: the statement template decides
        ok = len(iff) == 1 and norm(iff[0].test).replace(' ', '') == 'self.mdim<3' and any(norm(st).replace(' ', '') == want3 for st in iff[0].body) and len(iff[0].body) == 1
    rep.ob('C01.plumbing', 's_ppo_to_ppi', ok)
    if not ok:
        rep.violate('C01.plumbing', lmod, p2p, iff[0] if iff else p2p.body[0], 'for 2-/4-valued logic s_ppo_to_ppi must copy s[1, ppio_s_locs] to s[0, ppio_s_locs]', node=p2p)
    cyc = lmod.func('LogicSim.cycle')
    loops = [st for st in body_no_doc(cyc) if isinstance(st, ast.For)]
    ok = False
    if len(loops) == 1:
        calls = [call_name(st.value) for st in loops[0].body if isinstance(st, ast.Expr) and isinstance(st.value, ast.Call)]
        ok = calls == ['self.s_to_c', 'self.c_prop', 'self.c_to_s', 'self.s_ppo_to_ppi'] and len(loops[0].body) == 4 \
            and norm(loops[0].iter) == 'range(cycles)'
    rebinds = [st for st in ast.walk(cyc) if isinstance(st, ast.Name) and isinstance(st.ctx, ast.Store) and st.id in ('cycles', 'inject_cb')]
    if rebinds:
        ok = False
    rep.ob('C01.plumbing', 'cycle order', ok, sample={'rule': 'C01.plumbing', 'cycle': [norm(s) for s in (loops[0].body if loops else [])]})
    if not ok:
        rep.violate('C01.plumbing', lmod, cyc, loops[0] if loops else cyc.body[0], 'cycle must run s_to_c, c_prop, c_to_s, s_ppo_to_ppi in that order once per requested cycle (for _ in range(cycles) with `cycles` as passed)', node=cyc)
    # 2-valued arm without callback calls _prop_cpu(self.ops, self.c_locs, self.c)
    cp = lmod.func('LogicSim.c_prop')
    arm2 = logic_arm(cp, 2)
    calls = [n for st in arm2 for n in ast.walk(st) if isinstance(n, ast.Call) and call_name(n) == '_prop_cpu']
    ok = len(calls) == 1 and [norm(a) for a in calls[0].args] == ['self.ops', 'self.c_locs', 'self.c']
    pf = lmod.func('_prop_cpu')
    ok = ok and [a.arg for a in pf.args.args] == ['ops', 'c_locs', 'c']
    rep.ob('C01.plumbing', '_prop_cpu(self.ops, self.c_locs, self.c)', ok)
    if not ok:
        rep.violate('C01.plumbing', lmod, cp, calls[0] if calls else arm2[0], '_prop_cpu must be called with (self.ops, self.c_locs, self.c) matching its parameters (ops, c_locs, c)', node=calls[0] if calls else cp)
    # location tables
    defs = {}
    for st in find_all(init, ast.Assign, nested=False):
        if len(st.targets) == 1:
            ch = attr_chain(st.targets[0])
            if ch and ch.startswith('self.') and ch.endswith('_locs'):
                defs[ch[5:]] = st
    expect = {
        'pi_s_locs': 'np.flatnonzero(self.c_locs[self.ppi_offset+np.arange(len(self.circuit.io_nodes))]>=0)',
        'po_s_locs': 'np.flatnonzero(self.c_locs[self.ppo_offset+np.arange(len(self.circuit.io_nodes))]>=0)',
        'ppio_s_locs': 'np.arange(len(self.circuit.io_nodes),self.s_len)',
        'pippi_s_locs': 'np.concatenate([self.pi_s_locs,self.ppio_s_locs])',
        'poppo_s_locs': 'np.concatenate([self.po_s_locs,self.ppio_s_locs])',
        'pi_c_locs': 'self.c_locs[self.ppi_offset+self.pi_s_locs]',
        'po_c_locs': 'self.c_locs[self.ppo_offset+self.po_s_locs]',
        'ppi_c_locs': 'self.c_locs[self.ppi_offset+self.ppio_s_locs]',
        'ppo_c_locs': 'self.c_locs[self.ppo_offset+self.ppio_s_locs]',
        'pippi_c_locs': 'np.concatenate([self.pi_c_locs,self.ppi_c_locs])',
        'poppo_c_locs': 'np.concatenate([self.po_c_locs,self.ppo_c_locs])',
    }
    for k, want in expect.items():
        st = defs.get(k)
        if st is None:
            raise AnchorError(f'SimOps.__init__: self.{k} vanished')
        got = norm(st.value).replace(' ', '')
        ok = got == want
        rep.ob('C01.plumbing', f'self.{k}', ok)
        if not ok:
            rep.violate('C01.plumbing', simmod, init, st, f'self.{k} must be {want} so that c- and s-positions pair up; found {got}', node=st)
    # offsets
    sp = simops.special_slots(init)
    expect2 = {'zero_idx': 'len(circuit.lines)', 'tmp_idx': 'self.zero_idx+1', 'tmp2_idx': 'self.tmp_idx+1',
               'ppi_offset': 'self.tmp2_idx+1', 'ppo_offset': 'self.ppi_offset+self.s_len', 'c_locs_len': 'self.ppo_offset+self.s_len',
               's_len': 'len(circuit.s_nodes)'}
    for k, want in expect2.items():
        sts = sp.get(k, [])
        if not sts:
            raise AnchorError(f'SimOps.__init__: self.{k} vanished')
        got = norm(sts[0].value).replace(' ', '')
        ok = got == want and len(sts) == 1
        rep.ob('C01.plumbing', f'self.{k}', ok)
        if not ok:
            rep.violate('C01.plumbing', simmod, init, sts[0], f'self.{k} must be {want} (distinct, consecutive special slots); found {got}', node=sts[0])
    # LogicSim storage: c zero-initialised (zero line reads 0)
    li = lmod.func('LogicSim.__init__')
    cdef = [st for st in find_all(li, ast.Assign, nested=False) if len(st.targets) == 1 and attr_chain(st.targets[0]) == 'self.c']
    ok = len(cdef) == 1 and norm(cdef[0].value).replace(' ', '').startswith('np.zeros((self.c_len,self.mdim,nbytes)')
    rep.ob('C01.plumbing', 'signal memory is zero-initialised (zero line)', ok)
    if not ok:
        rep.violate('C01.plumbing', lmod, li, cdef[0] if cdef else 'self.c', 'LogicSim.c must be np.zeros((c_len, mdim, nbytes)) so that the zero line reads 0', node=cdef[0] if cdef else li)
    nb = [st for st in find_all(li, ast.Assign, nested=False) if len(st.targets) == 1 and is_name(st.targets[0], 'nbytes')]
    ok = len(nb) == 1 and norm(nb[0].value).replace(' ', '') in ('(sims-1)//8+1', '(sims+7)//8', 'cdiv(sims,8)', '-(sims//-8)')
    rep.ob('C01.plumbing', 'nbytes covers all lanes for any batch size', ok)
    if not ok:
        rep.violate('C01.plumbing', lmod, li, nb[0] if nb else 'nbytes', 'nbytes must be ceil(sims / 8) so that batch sizes that are not multiples of 8 fit', node=nb[0] if nb else li)


def depends(rep, repo):
    """Rules of the mechanisms this property's results rest on (schedule validity and memory map of SimOps): a change
    that breaks them breaks this property too, so they are part of this check (rule ids keep their C07./C08. prefix)."""
    from checks import c07, c08
    c07.schedule_rules(rep, repo)
    c08.map_rules(rep, repo)
    # the op list is built from Circuit.topological_order(): its traversal rules (C17) are part of this check
    from checks import c17
    c17.order_rules(rep, repo)


def thorough(rep, repo):
    """Thorough tier: the quick rules plus checker self-validation on the C01 slice of the mutation corpus."""
    from kvstatic import thorough as thorough_mod
    thorough_mod.selftest_slice(rep, repo, 'C01')
