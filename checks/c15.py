"""C15 - logic-value encodings convert losslessly and follow the axis convention (table and constant clauses)."""
from __future__ import annotations

import ast

from kvstatic.core import Repo, Report, ModelError, AnchorError, norm
from kvstatic.fold import fold_module, fold_expr
from kvstatic.mvlogic import Logic
from kvstatic.paths import cz, czs
from kvstatic.astutil import find_all, attr_chain, is_name, call_name, body_no_doc, target_names, walk_no_nested_funcs, parents

# the contract documented in the constants' docstrings (logic.py:54-80), transcribed once
CONTRACT = {
    'ZERO': ['0', 0, False, 'L', 'l'],
    'ONE': ['1', 1, True, 'H', 'h'],
    'UNASSIGNED': ['-', None, 'Z', 'z'],
    'RISE': ['R', 'r', '/'],
    'FALL': ['F', 'f', '\\'],
    'PPULSE': ['P', 'p', '^'],
    'NPULSE': ['N', 'n', 'v'],
    'UNKNOWN': ['X', 'x', '?', 'U', 2, 'q'],      # 'X', or any other value
}
RENDER = {'ZERO': '0', 'UNKNOWN': 'X', 'UNASSIGNED': '-', 'ONE': '1', 'PPULSE': 'P', 'RISE': 'R', 'FALL': 'F', 'NPULSE': 'N'}


def run(rep: Report, repo: Repo):
    rep.explanation = (
        'The character tables are finite and live in the source: the if-chain of logic.interpret is folded into a finite map (list '
        'membership with Python equality on the literal members) and compared with the documented alias contract; the render string of '
        'mv_str must parse back position by position. Every np.<attr> referenced anywhere in the package must exist in the numpy installed '
        'in the repository\'s environment. The bit-order/plane-count constants of all pack/unpack sites must agree with each other and '
        'with the plane indices the bit-parallel operators use.')
    rep.trusted = ['one `import numpy` (not kyupy) to obtain dir(numpy) of /venv', 'Python == semantics on literals (0 == False, 1 == True)']
    rep.assumptions = ['NOT DECIDED: losslessness for all shapes and pattern counts, padding lanes, signed-dtype padding, popcount on arbitrary arrays - these are numpy shape/view semantics a syntax-level check cannot bound']
    lg = Logic(repo)
    mod = lg.mod
    chartable(rep, lg, mod)
    np_attrs(rep, repo)
    plumbing(rep, repo, mod)


def interpret_map(f, consts):
    """[(list of literal members, constant name)] from the if-chain of interpret, plus the default."""
    v = f.args.args[0].arg
    chain = []
    default = None
    for st in body_no_doc(f):
        if isinstance(st, ast.If) and isinstance(st.test, ast.Compare) and is_name(st.test.left, v) and isinstance(st.test.ops[0], ast.In) \
                and isinstance(st.test.comparators[0], (ast.List, ast.Tuple, ast.Set)) and len(st.body) == 1 and isinstance(st.body[0], ast.Return):
            members = [fold_expr(e, {}, strict=True) for e in st.test.comparators[0].elts]
            chain.append((members, cz(st.body[0].value), st))
        elif isinstance(st, ast.Return):
            default = cz(st.value)
    return chain, default


def lookup(chain, default, x):
    for members, res, _ in chain:
        for m in members:
            try:
                if m == x and not (x is None) or (x is None and m is None):
                    return res
            except Exception:  # noqa: BLE001
                pass
    return default


def interpret_evaluated(rep, lg, mod):
    """interpret() evaluated (Engine M) on every documented alias, on values outside the alphabet and on nested iterables. Returns a lookup function
    value -> constant name, or None when interpret is outside the evaluator subset."""
    import collections.abc
    from kvstatic import minieval
    f = lg.func('interpret')
    genv = dict(lg.consts)
    genv['Iterable'] = collections.abc.Iterable
    genv['Sequence'] = collections.abc.Sequence
    minieval.module_functions(mod.tree, genv)
    names = {v: k for k, v in lg.consts.items()}

    def look(x):
        r = minieval.call_function(f, [x], genv)
        return names.get(r, repr(r)) if not isinstance(r, list) else [names.get(y, repr(y)) if not isinstance(y, list) else [names.get(z, repr(z)) for z in y] for y in r]
    try:
        look('0')
        look(['0', '1'])
    except ModelError as e:
        rep.note(f'C15.chars: interpret is outside the evaluated subset ({e}); its alias table is read from the if-chain')
        return None
    except Exception:  # noqa: BLE001 - what the code raises is a result: reported through the alias comparison below
        pass
    return look


def chartable(rep, lg, mod):
    rep.rule('C15.chars', 'interpret maps every documented alias to its constant (default UNKNOWN); every value renders to its documented character and parses back to itself')
    f = lg.func('interpret')
    look = interpret_evaluated(rep, lg, mod)
    if look is not None:
        n = 0
        bad = None

        def got_of(x):
            try:
                return look(x)
            except ModelError:
                raise
            except Exception as e:  # noqa: BLE001
                return f'{type(e).__name__}'
        for const, aliases in CONTRACT.items():
            for a in aliases:
                n += 1
                got = got_of(a)
                ok = got == const
                rep.ob('C15.chars', f'{a!r} -> {got}', ok, sample={'rule': 'C15.chars', 'alias': repr(a), 'interpreted': got} if n % 6 == 0 else None)
                if not ok and bad is None:
                    bad = (a, got, const)
                    rep.violate('C15.chars', mod, f, f'{a!r} -> {got}', f'interpret({a!r}) gives {got}; the documented contract says {const}', node=f)
        for x, want in (('01X-', ['ZERO', 'ONE', 'UNKNOWN', 'UNASSIGNED']), (['RF', 'pn'], [['RISE', 'FALL'], ['PPULSE', 'NPULSE']]), ([True, None, 7], ['ONE', 'UNASSIGNED', 'UNKNOWN']),
                        ((0, '1'), ['ZERO', 'ONE']), ('', []), ([], [])):
            n += 1
            got = got_of(x)
            ok = got == want
            rep.ob('C15.chars', f'{x!r} -> {got}', ok)
            if not ok:
                rep.violate('C15.chars', mod, f, f'{x!r} -> {got}', f'interpret({x!r}) gives {got}; iterables (strings longer than one character included) are interpreted element by element: {want}', node=f)
        rep.floor('aliases checked', n, 24)
        chain, default = [], None

        def back_of(ch):
            return got_of(ch)
    else:
        chain, default = interpret_map(f, lg.consts)

        def back_of(ch):
            return lookup(chain, default, ch)
        chartable_structural(rep, lg, mod, f, chain, default)
    render_table(rep, lg, mod, back_of)


def chartable_structural(rep, lg, mod, f, chain, default):
    rep.floor('interpret alias lists', len(chain), 7)
    ok = default == 'UNKNOWN'
    rep.ob('C15.chars', f'default {default}', ok)
    if not ok:
        rep.violate('C15.chars', mod, f, f'return {default}', 'interpret: any value outside the alias lists must be UNKNOWN', node=f)
    n = 0
    for const, aliases in CONTRACT.items():
        for a in aliases:
            n += 1
            got = lookup(chain, default, a)
            ok = got == const
            rep.ob('C15.chars', f'{a!r} -> {got}', ok, sample={'rule': 'C15.chars', 'alias': repr(a), 'interpreted': got} if n % 6 == 0 else None)
            if not ok:
                st = next((s for m, r, s in chain if r == got and any((x == a) for x in m)), f)
                rep.violate('C15.chars', mod, f, f'{a!r} -> {got}', f'interpret({a!r}) gives {got}; the documented contract says {const}', node=st if isinstance(st, ast.AST) else f)
    rep.floor('aliases checked', n, 24)
    # iterable branch: strings longer than 1 and lists are traversed
    t = cz(body_no_doc(f)[0])
    ok = t == czs('if isinstance(value, Iterable) and not (isinstance(value, str) and len(value) == 1): return list(map(interpret, value))')
    rep.ob('C15.chars', 'iterables are traversed element-wise, single characters are leaves', ok)
    if not ok:
        rep.violate('C15.chars', mod, f, body_no_doc(f)[0], 'interpret must map itself over iterables except strings of length 1', node=f)


def render_table(rep, lg, mod, back_of):
    # render string
    g = lg.func('mv_str')
    strs = [n.value.value for n in ast.walk(g) if isinstance(n, ast.Starred) and isinstance(n.value, ast.Constant) and isinstance(n.value.value, str)]
    if len(strs) == 1:
        render = strs[0]
    else:
        # the table is built some other way: evaluate the second argument of np.choose (Engine M; np.array(x, dtype=...) is x)
        from kvstatic import minieval
        ch = [c for c in find_all(g, ast.Call) if call_name(c) == 'np.choose' and len(c.args) == 2]
        if len(ch) != 1:
            raise ModelError('mv_str: render table (second argument of np.choose) not found')
        env = {}
        for st in mod.tree.body:      # module-level tables the function may refer to
            if isinstance(st, ast.Assign) and len(st.targets) == 1 and isinstance(st.targets[0], ast.Name):
                try:
                    env[st.targets[0].id] = minieval.ev(st.value, env)
                except (ModelError, Exception):  # noqa: BLE001 - not a plain table
                    pass
        table = None
        try:
            for st in body_no_doc(g):
                if any(n is ch[0] for n in ast.walk(st)):
                    arg = ch[0].args[1]
                    while isinstance(arg, ast.Call) and call_name(arg) in ('np.array', 'np.asarray') and arg.args:
                        arg = arg.args[0]
                    table = minieval.ev(arg, env)
                    break
                if isinstance(st, ast.Assign) and len(st.targets) == 1 and isinstance(st.targets[0], ast.Name):
                    v = st.value
                    while isinstance(v, ast.Call) and call_name(v) in ('np.array', 'np.asarray') and v.args:
                        v = v.args[0]
                    env[st.targets[0].id] = minieval.ev(v, env)
        except ModelError as e:
            raise ModelError(f'mv_str: render table outside the evaluator subset: {e}')
        if not (isinstance(table, (list, tuple, str)) and all(isinstance(x, str) and len(x) == 1 for x in table)):
            raise ModelError('mv_str: render table does not evaluate to a sequence of characters')
        render = ''.join(table)
    ok = len(render) == 8
    for name, val in sorted(lg.consts.items(), key=lambda kv: kv[1]):
        ch = render[val] if val < len(render) else None
        ok1 = ch == RENDER[name]
        back = back_of(ch)
        ok2 = back == name
        rep.ob('C15.chars', f'{name}={val} renders {ch!r}, parses back to {back}', ok1 and ok2)
        if not (ok1 and ok2):
            rep.violate('C15.chars', mod, g, f'render[{val}] = {ch!r}', f'value {name} ({val}) renders as {ch!r} (documented: {RENDER[name]!r}) and that character parses back to {back}', node=g)
    t = cz(g)
    ok = 'np.choose(mva,np.array([*' in t and "ifmva.ndim==1:return''.join(sa)" in t and "returndelim.join([''.join(c)forcinsa.swapaxes(-1,-2)])" in t
    rep.ob('C15.chars', 'mv_str: one character per value; one line per pattern (last axis)', ok)
    if not ok:
        rep.violate('C15.chars', mod, g, 'mv_str', 'mv_str must index the render table by value and emit one string per pattern (swapaxes(-1, -2) before joining)', node=g)


def np_attrs(rep, repo):
    rep.rule('C15.npattr', 'every np.<attr> (and np.<attr>.<attr>) referenced in the package exists in the numpy installed in the repository environment')
    try:
        import numpy
    except ImportError as e:  # pragma: no cover
        raise ModelError(f'numpy not importable: {e}')
    n = 0
    seen = set()
    for mod in repo.all_mods():
        aliases = set()
        for st in ast.walk(mod.tree):
            if isinstance(st, ast.Import):
                for a in st.names:
                    if a.name == 'numpy':
                        aliases.add(a.asname or 'numpy')
        for x in ast.walk(mod.tree):
            if isinstance(x, ast.Attribute) and isinstance(x.value, ast.Name) and x.value.id in aliases:
                chain = [x.attr]
                node, p = x, getattr(x, '_parent', None)
                while isinstance(p, ast.Attribute) and p.value is node and len(chain) < 2:
                    chain.append(p.attr)
                    node, p = p, getattr(p, '_parent', None)
                obj = numpy
                ok = True
                for i, a in enumerate(chain):
                    if not hasattr(obj, a):
                        ok = i > 0 and not isinstance(obj, type(numpy))   # attribute of a non-module object (e.g. ndarray method on a result): not checkable
                        break
                    obj = getattr(obj, a)
                    if not isinstance(obj, type(numpy)):
                        break
                key = (mod.name, '.'.join(chain))
                if key in seen:
                    continue
                seen.add(key)
                n += 1
                rep.ob('C15.npattr', f'{mod.name}: np.{".".join(chain)}', ok, sample={'rule': 'C15.npattr', 'attr': 'np.' + '.'.join(chain), 'numpy': numpy.__version__} if n % 12 == 0 else None)
                if not ok:
                    rep.violate('C15.npattr', mod, x, f'np.{".".join(chain)}', f'{mod.name}: np.{".".join(chain)} does not exist in numpy {numpy.__version__} (AttributeError when the enclosing function runs)', node=x)
    rep.floor('distinct np attribute references', n, 40)
    rep.extra['numpy_version'] = numpy.__version__


def plumbing(rep, repo, mod):
    rep.rule('C15.bitorder', 'all bit (un)packing sites use bitorder="little"; mv_to_bp keeps exactly the three low planes; axis arguments follow the convention (patterns last, signals second-to-last)')
    sites = []
    for f in mod.funcs.values():
        for c in find_all(f, ast.Call, nested=False):
            if call_name(c) in ('np.packbits', 'np.unpackbits'):
                kw = {k.arg: fold_expr(k.value, {}, strict=False) for k in c.keywords}
                sites.append((f, c, kw))
    rep.floor('pack/unpack sites', len(sites), 4)
    for f, c, kw in sites:
        ok = kw.get('bitorder') == 'little'
        rep.ob('C15.bitorder', f'{f.name}: {call_name(c)} bitorder={kw.get("bitorder")!r}', ok)
        if not ok:
            rep.violate('C15.bitorder', mod, f, c, f'{f.name}: {call_name(c)} must use bitorder="little" like every other (un)packing site (bit 0 = pattern 0 / least significant value bit)', node=c)
    f = mod.func('mv_to_bp')
    t = [cz(s) for s in body_no_doc(f)]
    ok = t == ['ifmva.ndim==1:mva=mva[...,np.newaxis]', "returnnp.packbits(unpackbits(mva)[...,:3],axis=-2,bitorder='little').swapaxes(-1,-2)"]
    rep.ob('C15.bitorder', 'mv_to_bp: 3 value planes, packed along the pattern axis, planes second-to-last', ok, sample={'rule': 'C15.bitorder', 'mv_to_bp': t})
    if not ok:
        rep.violate('C15.bitorder', mod, f, body_no_doc(f)[-1], 'mv_to_bp must be packbits(unpackbits(mva)[..., :3], axis=-2, bitorder="little").swapaxes(-1, -2): planes 0/1/2 = final/initial/activity as used by every bp8v operator', node=f)
    # plane indices used by bp operators never exceed 2
    mx = 0
    for nm, g in mod.funcs.items():
        if nm.startswith('bp8v_') or nm.startswith('bp4v_'):
            for s in ast.walk(g):
                if isinstance(s, ast.Subscript) and isinstance(s.slice, ast.Tuple) and len(s.slice.elts) == 3 and isinstance(s.slice.elts[1], ast.Constant):
                    mx = max(mx, s.slice.elts[1].value)
                    lim = 1 if nm.startswith('bp4v_') else 2
                    if s.slice.elts[1].value > lim:
                        rep.violate('C15.bitorder', mod, g, s, f'{nm} addresses plane {s.slice.elts[1].value}; {"4" if lim == 1 else "8"}-valued arrays have planes 0..{lim}', node=s)
    rep.ob('C15.bitorder', f'highest plane index used by bit-parallel operators: {mx}', mx == 2)
    f = mod.func('bp_to_mv')
    ok = [cz(s) for s in body_no_doc(f)] == ["returnpackbits(np.unpackbits(bpa,axis=-1,bitorder='little').swapaxes(-1,-2))"]
    rep.ob('C15.bitorder', 'bp_to_mv: unpack along the last axis, planes become the bit axis', ok)
    if not ok:
        rep.violate('C15.bitorder', mod, f, body_no_doc(f)[-1], 'bp_to_mv must be packbits(np.unpackbits(bpa, axis=-1, bitorder="little").swapaxes(-1, -2))', node=f)
    f = mod.func('unpackbits')
    ok = [cz(s) for s in body_no_doc(f)] == ["returnnp.unpackbits(a.view(np.uint8),bitorder='little').reshape(*a.shape,8*a.itemsize)"]
    rep.ob('C15.bitorder', 'unpackbits: new last axis with 8*itemsize little-order bits', ok)
    if not ok:
        rep.violate('C15.bitorder', mod, f, body_no_doc(f)[-1], 'unpackbits must view the array as uint8, unpack with bitorder="little" and reshape to (*a.shape, 8*a.itemsize)', node=f)
    f = mod.func('packbits')
    t = [cz(s) for s in body_no_doc(f)]
    want = ['dtype=np.dtype(dtype)', 'bits=8*dtype.itemsize', 'a=a[...,:bits]',
            "ifa.shape[-1]<bits:p=[(0,0)]*(len(a.shape)-1)+[(0,bits-a.shape[-1])]a=np.pad(a,p,'edge')ifdtype.name[0]=='i'elsenp.pad(a,p,'constant',constant_values=0)",
            "returnnp.packbits(a,bitorder='little').view(dtype).reshape(a.shape[:-1])"]
    ok = t == want
    rep.ob('C15.bitorder', 'packbits: truncate/pad last axis to the dtype width (sign-extend signed, zero-pad others), pack little', ok)
    if not ok:
        d = next((i for i, (x, y) in enumerate(zip(t, want)) if x != y), min(len(t), len(want)))
        rep.violate('C15.bitorder', mod, f, body_no_doc(f)[d] if d < len(t) else 'packbits', 'packbits must truncate or pad the last axis to the bit width of dtype (edge padding for signed, zeros otherwise) and pack with bitorder="little"', witness={'expected': want[d] if d < len(want) else None}, node=f)
    f = mod.func('mvarray')
    t = [cz(s) for s in body_no_doc(f)]
    ok = t == ['mva=np.array(interpret(a),dtype=np.uint8)', 'ifmva.ndim<2:returnmva', 'ifmva.shape[-2]>1:returnmva.swapaxes(-1,-2)', 'returnmva[...,0,:]']
    rep.ob('C15.bitorder', 'mvarray: strings are patterns -> patterns on the last axis, signals second-to-last', ok)
    if not ok:
        rep.violate('C15.bitorder', mod, f, 'mvarray', 'mvarray must interpret its arguments and swap the last two axes so that patterns run along the last axis', node=f)
    f = mod.func('bparray')
    ok = [cz(s) for s in body_no_doc(f)] == ['returnmv_to_bp(mvarray(*a))']
    rep.ob('C15.bitorder', 'bparray = mv_to_bp(mvarray(*a))', ok)
    if not ok:
        rep.violate('C15.bitorder', mod, f, 'bparray', 'bparray must be mv_to_bp(mvarray(*a))', node=f)
    im = repo.mod('__init__')
    lut = [s for s in im.tree.body if isinstance(s, ast.Assign) and is_name(s.targets[0], '_pop_count_lut')]
    pc = im.func('popcount')
    ok = len(lut) == 1 and cz(lut[0].value) == "np.asarray([bin(x).count('1')forxinrange(256)])" and [cz(s) for s in body_no_doc(pc)] == ['returnnp.sum(_pop_count_lut[a])']
    rep.ob('C15.bitorder', 'popcount: 256-entry table of bit counts, summed over all bytes', ok)
    if not ok:
        rep.violate('C15.bitorder', im, pc, 'popcount', 'popcount must sum a 256-entry table bin(x).count("1") indexed by the bytes', node=pc)
    ls = repo.mod('logic_sim')
    li = ls.func('LogicSim.__init__')
    ok = 'self.s=np.zeros((2,self.s_len,3,nbytes),dtype=np.uint8)' in [cz(s) for s in body_no_doc(li)]
    rep.ob('C15.bitorder', 'LogicSim.s has 3 planes per signal (matches mv_to_bp)', ok)
    if not ok:
        rep.violate('C15.bitorder', ls, li, 'self.s', 'LogicSim.s must be (2, s_len, 3, nbytes) uint8: three planes per signal as produced by mv_to_bp', node=li)


def thorough(rep, repo):
    """Thorough tier: the quick rules plus checker self-validation on the C15 slice of the mutation corpus."""
    from kvstatic import thorough as thorough_mod
    thorough_mod.selftest_slice(rep, repo, 'C15')
