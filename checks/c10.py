"""C10 - copy, pickle, fork elimination and cell substitution preserve function (structural clauses)."""
from __future__ import annotations

import ast
from itertools import combinations

from kvstatic.paths import cz, czs
from kvstatic.core import Repo, Report, ModelError, AnchorError, norm
from kvstatic import techdsl
from kvstatic.astutil import (find_all, attr_chain, is_name, call_name, body_no_doc, target_names, parents, enclosing,
                              walk_no_nested_funcs)


# --------------------------------------------------------------------------- guard evaluator over library graphs

class GuardEval:
    """Evaluates the guard expressions of Circuit.substitute on the (finite) implementation graphs read from
    techlib.py. Supports exactly the expression forms substitute uses; anything else is a ModelError."""
    def __init__(self, env):
        self.env = env

    def ev(self, e):
        if isinstance(e, ast.Constant):
            return e.value
        if isinstance(e, ast.Name):
            if e.id not in self.env:
                raise ModelError(f'substitute guard: unbound {e.id}')
            return self.env[e.id]
        if isinstance(e, ast.Attribute):
            v = self.ev(e.value)
            if v is None:
                raise KeyError('None dereference')
            if e.attr in ('ins', 'outs', 'kind', 'reader', 'driver', 'reader_pin', 'driver_pin', 'name', 'io_nodes', 'nodes', 'lines'):
                return getattr(v, e.attr)
            raise ModelError(f'substitute guard: attribute {e.attr}')
        if isinstance(e, ast.Subscript):
            v = self.ev(e.value)
            i = self.ev(e.slice)
            return v[i]
        if isinstance(e, ast.Call) and call_name(e) == 'len' and len(e.args) == 1:
            return len(self.ev(e.args[0]))
        if isinstance(e, ast.UnaryOp) and isinstance(e.op, ast.Not):
            return not self.ev(e.operand)
        if isinstance(e, ast.BoolOp):
            if isinstance(e.op, ast.And):
                for v in e.values:
                    if not self.ev(v):
                        return False
                return True
            for v in e.values:
                if self.ev(v):
                    return True
            return False
        if isinstance(e, ast.Compare) and len(e.ops) == 1:
            a, b = self.ev(e.left), self.ev(e.comparators[0])
            op = e.ops[0]
            if isinstance(op, ast.In):
                return _member(a, b)
            if isinstance(op, ast.NotIn):
                return not _member(a, b)
            if isinstance(op, ast.Is):
                return a is b
            if isinstance(op, ast.IsNot):
                return a is not b
            if isinstance(op, ast.Eq):
                return a is b if _isnode(a) or _isnode(b) else a == b
            if isinstance(op, ast.NotEq):
                return a is not b if _isnode(a) or _isnode(b) else a != b
            if isinstance(op, ast.Gt):
                return a > b
            if isinstance(op, ast.GtE):
                return a >= b
            if isinstance(op, ast.Lt):
                return a < b
            if isinstance(op, ast.LtE):
                return a <= b
        raise ModelError(f'substitute guard: unsupported expression {norm(e)[:80]}')


def _isnode(x):
    return isinstance(x, (techdsl.GNode, techdsl.GLine))


def _member(a, coll):
    if isinstance(coll, (set, frozenset, dict)):
        return id(a) in coll if all(isinstance(k, int) for k in coll) else a in coll
    return any(x is a for x in coll)


def run(rep: Report, repo: Repo):
    rep.explanation = (
        'Writer/reader agreement of the pickle tables, the three lookup arms of copy, the splice of eliminate_1to1_forks, snapshot '
        'iteration, and - for "resolving succeeds for every library cell and for unconnected pins" - the node_map key coverage of '
        'Circuit.substitute: the guard expressions of substitute are extracted from its syntax tree and evaluated over every one of '
        'the implementation graphs read statically from techlib.py (263 definitions) and every connected-pin pattern; every unguarded '
        'node_map[...] read must denote a node that received an entry. Pin/node pairing in all (node, pin) tuples is a provenance rule.')
    rep.trusted = ['the static DSL reader and graph builder mirror bench.parse + eliminate_1to1_forks (their steps are checked by C19.ctor / C10.elim)']
    rep.assumptions = ['BOUNDED: function preservation is decided by evaluation (C10.function) for 11 synthetic implementation shapes x every connected-pin pattern x three host styles and for the 71 distinct shapes of the built-in libraries, not for every implementation circuit; compositions beyond substitute-then-eliminate and copy/pickle along the histories of C09.history are not decided']
    cmod = repo.mod('circuit')
    evaluated = hist = False
    try:
        from checks import c10_eval
        evaluated = c10_eval.evaluate(rep, repo, cmod)
    except ModelError as e:
        rep.note(f'C10.function: substitute / eliminate_1to1_forks / the graph classes are outside the evaluated subset ({e}); the structural rules of C10 decide')
    try:
        from checks import c09
        hist = c09.history_evaluated(rep, repo, cmod)       # copy() and the pickle round trip are evaluated along the edit histories of C09.history
    except ModelError as e:
        rep.note(f'C09.history: the graph classes are outside the evaluated subset ({e}); the structural rules C10.copy / C10.pickle decide')
    rep._c10_evaluated, rep._c09_history = evaluated, hist
    if not hist:
        pickle_rules(rep, cmod)
        copy_rules(rep, cmod)
    if not evaluated:
        elim_rules(rep, cmod)
        resolve_rules(rep, cmod)
        substitute_rules(rep, repo, cmod)


def function_rules(rep, repo, cmod, what=('elim', 'resolve', 'substitute')):
    """substitute / resolve / fork-elimination rules for checks that include them: the evaluated rule C10.function, the structural rules as fall-back"""
    try:
        from checks import c10_eval
        if c10_eval.evaluate(rep, repo, cmod):
            return True
    except ModelError as e:
        rep.note(f'C10.function: substitute / eliminate_1to1_forks / the graph classes are outside the evaluated subset ({e}); the structural rules of C10 decide')
    if 'elim' in what:
        elim_rules(rep, cmod)
    if 'resolve' in what:
        resolve_rules(rep, cmod)
    if 'substitute' in what:
        substitute_rules(rep, repo, cmod)
    return False


def pickle_rules(rep, cmod):
    rep.rule('C10.pickle', '__getstate__ and __setstate__ agree on keys, tuple order, rebuild order (nodes, lines, io_nodes) and container classes')
    g, s = cmod.func('Circuit.__getstate__'), cmod.func('Circuit.__setstate__')
    ret = find_all(g, ast.Return)
    if len(ret) != 1 or not isinstance(ret[0].value, ast.Dict):
        raise ModelError('Circuit.__getstate__ does not return a dict display')
    keys = {k.value: norm(v) for k, v in zip(ret[0].value.keys, ret[0].value.values)}
    reads = {}
    for n in find_all(s, ast.Subscript):
        if is_name(n.value, s.args.args[1].arg) and isinstance(n.slice, ast.Constant):
            reads.setdefault(n.slice.value, []).append(n)
    ok = set(keys) == set(reads) == {'name', 'nodes', 'lines', 'io_nodes'}
    rep.ob('C10.pickle', f'keys written {sorted(keys)} = keys read {sorted(reads)}', ok)
    if not ok:
        rep.violate('C10.pickle', cmod, s, f'written {sorted(keys)} / read {sorted(reads)}', 'pickle state keys written by __getstate__ and read by __setstate__ differ', node=s)
    defs = {}
    for st in find_all(g, ast.Assign):
        if isinstance(st.targets[0], ast.Name):
            defs[st.targets[0].id] = st
    def value_of(key):
        v = keys.get(key)
        return norm(defs[v].value).replace(' ', '') if v in defs else (v or '').replace(' ', '')
    exp = {'nodes': '[(node.name,node.kind)fornodeinself.nodes]',
           'lines': '[(line.driver.index,line.driver_pin,line.reader.index,line.reader_pin)forlineinself.lines]',
           'io_nodes': '[n.indexforninself.io_nodes]', 'name': 'self.name'}
    for k, want in exp.items():
        ok = value_of(k) == want
        rep.ob('C10.pickle', f'state[{k!r}]', ok, sample={'rule': 'C10.pickle', 'key': k, 'value': value_of(k)})
        if not ok:
            rep.violate('C10.pickle', cmod, g, defs.get(keys.get(k), g), f"__getstate__: state['{k}'] must be {want}, found {value_of(k)}", node=defs.get(keys.get(k)) or g)
    body = [cz(x) for x in body_no_doc(s)]
    want_seq = ["self.name=state['name']", 'self.nodes=IndexList()', 'self.lines=IndexList()', 'self.io_nodes=GrowingList()', 'self.cells={}', 'self.forks={}',
                "forsinstate['nodes']:Node(self,*s)",
                "fordriver,driver_pin,reader,reader_pininstate['lines']:Line(self,(self.nodes[driver],driver_pin),(self.nodes[reader],reader_pin))",
                "forninstate['io_nodes']:self.io_nodes.append(self.nodes[n])"]
    alt = {want_seq[7]: want_seq[7].replace('for(driver,driver_pin,reader,reader_pin)in', 'fordriver,driver_pin,reader,reader_piin')}
    for w in want_seq[:6]:
        ok = w in body
        rep.ob('C10.pickle', w, ok)
        if not ok:
            rep.violate('C10.pickle', cmod, s, w, f'__setstate__: container re-initialisation `{w}` is missing or changed', node=s)
    loops = [b.replace('for(driver,driver_pin,reader,reader_pin)in', 'fordriver,driver_pin,reader,reader_pinin') for b in body if b.startswith('for')]
    ok = loops == want_seq[6:]
    rep.ob('C10.pickle', 'rebuild order nodes -> lines -> io_nodes with (driver, driver_pin, reader, reader_pin)', ok)
    if not ok:
        d = next((i for i, (a, b) in enumerate(zip(loops, want_seq[6:])) if a != b), 0)
        rep.violate('C10.pickle', cmod, s, loops[d] if d < len(loops) else 'rebuild loops',
                    '__setstate__ must re-create nodes (name, kind), then lines with explicit pins in the order (driver, driver_pin, reader, reader_pin) written by __getstate__, then io_nodes',
                    witness={'expected': want_seq[6 + d] if 6 + d < len(want_seq) else None}, node=s)
    first_loop = next((i for i, b in enumerate(body) if b.startswith('for')), len(body))
    ok = all(body.index(w) < first_loop for w in want_seq[:6] if w in body)
    rep.ob('C10.pickle', 'containers re-created before any node is added', ok)
    if not ok:
        rep.violate('C10.pickle', cmod, s, 'container init after rebuild loop', '__setstate__: containers must be re-created before nodes are added', node=s)


def copy_rules(rep, cmod):
    rep.rule('C10.copy', 'copy: nodes in index order with (name, kind); each endpoint looked up in forks/cells by its own kind; explicit pins from the source line; io_nodes appended in order')
    f = cmod.func('Circuit.copy')
    body = [cz(x) for x in body_no_doc(f)]
    exp = ['c=Circuit(self.name)', 'fornodeinself.nodes:Node(c,node.name,node.kind)',
           "forlineinself.lines:d=c.forks[line.driver.name]ifline.driver.kind=='__fork__'elsec.cells[line.driver.name]r=c.forks[line.reader.name]ifline.reader.kind=='__fork__'elsec.cells[line.reader.name]Line(c,(d,line.driver_pin),(r,line.reader_pin))",
           czs("""
               for node in self.io_nodes:
                   if node.kind == '__fork__':
                       n = c.forks[node.name]
                   else:
                       n = c.cells[node.name]
                   c.io_nodes.append(n)
               """),
           'returnc']
    names = ['new circuit', 'node copy', 'line copy with explicit pins', 'io_nodes copy', 'return']
    for i, (w, nm) in enumerate(zip(exp, names)):
        ok = i < len(body) and body[i] == w
        rep.ob('C10.copy', nm, ok)
        if not ok:
            st = body_no_doc(f)[i] if i < len(body) else f
            rep.violate('C10.copy', cmod, f, st, f'Circuit.copy: step "{nm}" differs from the required form', witness={'expected': w, 'found': body[i] if i < len(body) else None}, node=st)
    # sibling arms: driver arm <-> reader arm
    for st in find_all(f, ast.For):
        if norm(st.iter) == 'self.lines':
            asg = [s for s in st.body if isinstance(s, ast.Assign)]
            if len(asg) == 2:
                a = norm(asg[0].value).replace('driver', 'X')
                b = norm(asg[1].value).replace('reader', 'X')
                ok = a == b
                rep.ob('C10.copy', 'driver arm = reader arm under renaming', ok)
                if not ok:
                    rep.violate('C10.copy', cmod, f, asg[1], 'Circuit.copy: driver and reader lookups differ beyond driver<->reader', node=asg[1])


def elim_rules(rep, cmod):
    rep.rule('C10.elim', 'eliminate_1to1_forks: snapshot iteration; io forks and forks with len(outs) != 1 skipped; the input line receives the removed line\'s (reader, reader_pin) and the back-reference')
    f = cmod.func('Circuit.eliminate_1to1_forks')
    body = [cz(x) for x in body_no_doc(f)]
    loops = [st for st in body_no_doc(f) if isinstance(st, ast.For)]
    ok = len(loops) == 1 and norm(loops[0].iter).replace(' ', '') == 'list(self.forks.values())'
    rep.ob('C10.elim', 'iterates list(self.forks.values())', ok)
    if not ok:
        rep.violate('C10.elim', cmod, f, loops[0].iter if loops else f.name, 'eliminate_1to1_forks must iterate a snapshot list(self.forks.values()) because it removes forks while iterating', node=loops[0] if loops else f)
    if not loops:
        return
    lb = [cz(x) for x in loops[0].body]
    n = loops[0].target.id
    need = [f'if{n}inios:continue', f'iflen({n}.outs)!=1:continue', f'in_line={n}.ins[0]', f'out_line={n}.outs[0]', 'out_reader=out_line.reader',
            'out_reader_pin=out_line.reader_pin', f'{n}.remove()', 'out_line.remove()', 'in_line.reader=out_reader', 'in_line.reader_pin=out_reader_pin',
            'in_line.reader.ins[in_line.reader_pin]=in_line']
    pos = {}
    for w in need:
        pos[w] = lb.index(w) if w in lb else -1
        rep.ob('C10.elim', w, pos[w] >= 0)
        if pos[w] < 0:
            rep.violate('C10.elim', cmod, f, w, f'eliminate_1to1_forks: required step `{w}` is missing or changed', node=loops[0])
    if all(p >= 0 for p in pos.values()):
        ok = pos['out_reader=out_line.reader'] < pos['out_line.remove()'] and pos['out_reader_pin=out_line.reader_pin'] < pos['out_line.remove()'] \
            and pos['out_line.remove()'] < pos['in_line.reader.ins[in_line.reader_pin]=in_line'] \
            and pos[f'if{n}inios:continue'] < pos[f'{n}.remove()'] and pos[f'iflen({n}.outs)!=1:continue'] < pos[f'{n}.remove()']
        rep.ob('C10.elim', 'reader end saved before the out line is removed; splice after removal', ok)
        if not ok:
            rep.violate('C10.elim', cmod, f, 'ordering', 'eliminate_1to1_forks: the reader end must be saved before out_line.remove() (which clears it) and the splice must come after the removal (remove() clears the reader pin slot)', node=loops[0])
    ok = 'ios=set(self.io_nodes)' in body
    rep.ob('C10.elim', 'ios = set(self.io_nodes)', ok)
    if not ok:
        rep.violate('C10.elim', cmod, f, 'ios', 'eliminate_1to1_forks: ios must be the set of io_nodes (ports keep their forks)', node=f)


def resolve_rules(rep, cmod):
    rep.rule('C10.resolve', 'resolve_tlib_cells iterates a snapshot of nodes and substitutes the library implementation of the node kind')
    f = cmod.func('Circuit.resolve_tlib_cells')
    body = [cz(x) for x in body_no_doc(f)]
    ok = body == ['forninlist(self.nodes):ifn.kindintlib.cells:self.substitute(n,tlib.cells[n.kind][0])']
    rep.ob('C10.resolve', 'resolve_tlib_cells', ok)
    if not ok:
        loops = [st for st in body_no_doc(f) if isinstance(st, ast.For)]
        why = 'must iterate list(self.nodes) (substitute appends nodes)' if loops and norm(loops[0].iter).replace(' ', '') != 'list(self.nodes)' else \
            'must call self.substitute(n, tlib.cells[n.kind][0]) for every node whose kind is a library cell'
        rep.violate('C10.resolve', cmod, f, loops[0] if loops else f.name, f'resolve_tlib_cells {why}', node=f)


# --------------------------------------------------------------------------- substitute

def substitute_rules(rep, repo, cmod):
    f = cmod.func('Circuit.substitute')
    rep.rule('C10.sub-shape', 'substitute: recognised statement skeleton (node loop, internal-line loop, input loop, output loop)')
    rep.rule('C10.keys', 'every unguarded node_map[...] read denotes a node that received an entry, for every library implementation graph and connected-pin pattern')
    rep.rule('C10.pins', 'in every (node, pin) pair substitute builds, node and pin come from the same implementation line and side')
    rep.rule('C10.names', 'the designated cell re-uses the instance node (kind overwritten only); io_nodes is never written')
    nodevar, implvar = f.args.args[1].arg, f.args.args[2].arg
    body = body_no_doc(f)
    # locate the four loops by role
    loops = [st for st in body if isinstance(st, ast.For)]
    node_loop = next((l for l in loops if norm(l.iter) == f'{implvar}.nodes'), None)
    line_loop = next((l for l in loops if norm(l.iter) == f'{implvar}.lines'), None)
    in_loop = next((l for l in loops if norm(l.iter).replace(' ', '') == 'zip(impl_in_nodes,node_in_lines)'), None)
    out_loop = next((l for l in loops if norm(l.iter).replace(' ', '') == 'zip(impl_out_lines,node_out_lines)'), None)
    # substitute has no early exit, and pruning (remove_dangling_nodes) happens only for implementation outputs left unconnected
    for r in [n for n in ast.walk(f) if isinstance(n, ast.Return)]:
        rep.violate('C10.sub-shape', cmod, f, r, 'substitute returns early: the steps after it (dropping connections to pins the implementation ignores, re-wiring inputs '
                    'and outputs, removing the instance node consistently) are skipped for some cells', node=r)
    rep.ob('C10.sub-shape', 'substitute has no early return', not any(isinstance(n, ast.Return) for n in ast.walk(f)))
    for c in [c for c in find_all(f, ast.Call) if (call_name(c) or '').endswith('remove_dangling_nodes')]:
        inside_out = out_loop is not None and any(n is c for n in ast.walk(out_loop))
        rep.ob('C10.sub-shape', f'{norm(c)[:50]} in the output loop', inside_out)
        if not inside_out:
            rep.violate('C10.sub-shape', cmod, f, c, f'substitute: `{norm(c)[:70]}` outside the output loop: pruning is only defined for logic in front of an implementation output that the '
                        f'instance leaves unconnected (it does not stop at ports or state elements of the surrounding circuit)', node=c)
    ok = all(x is not None for x in (node_loop, line_loop, in_loop, out_loop))
    rep.ob('C10.sub-shape', 'four loops', ok)
    if not ok:
        raise ModelError('Circuit.substitute: loop skeleton not recognised (node / internal line / input / output loops)')
    pre = {}
    for st in body:
        if isinstance(st, ast.Assign) and isinstance(st.targets[0], ast.Name):
            pre.setdefault(st.targets[0].id, []).append(norm(st.value).replace(' ', ''))
    exp_pre = {
        'impl_in_nodes': [f'[nfornin{implvar}.io_nodesiflen(n.ins)==0]'],
        'impl_out_lines': [f'[n.ins[0]fornin{implvar}.io_nodesiflen(n.ins)>0]'],
        'node_in_lines': [f'list({nodevar}.ins)+[None]*(len(impl_in_nodes)-len({nodevar}.ins))'],
        'node_out_lines': [f'list({nodevar}.outs)+[None]*(len(impl_out_lines)-len({nodevar}.outs))'],
    }
    for k, want in exp_pre.items():
        ok = pre.get(k) == want
        rep.ob('C10.sub-shape', k, ok)
        if not ok:
            rep.violate('C10.pins', cmod, f, f'{k} = {pre.get(k)}', f'substitute: {k} must be {want[0]} so that the k-th instance pin is zipped with the k-th implementation port in io_nodes order', node=f)
    # designated cell search
    dc_want = czs("""
        if len(impl_out_lines) > 0:
            n = impl_out_lines[0].driver
            while n.kind == '__fork__' and n not in ios:
                n = n.ins[0].driver
            designated_cell = n
        """)
    dc_ok = any(cz(st) == dc_want for st in body)
    rep.ob('C10.sub-shape', 'designated cell = first non-fork driver behind the first output', dc_ok)
    if not dc_ok:
        raise ModelError('Circuit.substitute: designated-cell search not recognised')

    # ---- names / order preservation
    iff = [st for st in body if isinstance(st, ast.If) and norm(st.test).replace(' ', '') == 'designated_cellisnotNone']
    ok = False
    if len(iff) == 1:
        b = [norm(s).replace(' ', '') for s in iff[0].body]
        e = [norm(s).replace(' ', '') for s in iff[0].orelse]
        ok = sorted(b) == sorted([f'{nodevar}.kind=designated_cell.kind', f'node_map[designated_cell]={nodevar}', f'{nodevar}.ins=GrowingList()', f'{nodevar}.outs=GrowingList()']) \
            and e == [f'{nodevar}.remove()']
    rep.ob('C10.names', 'designated cell re-uses the instance node', ok)
    if not ok:
        rep.violate('C10.names', cmod, f, iff[0] if iff else 'if designated_cell is not None', 'substitute: the instance node must be kept as the designated cell (kind overwritten, pin lists reset, name and index untouched); it is removed only for implementations without outputs', node=iff[0] if iff else f)
    wr = [st for st in walk_no_nested_funcs(f) if isinstance(st, (ast.Assign, ast.AugAssign, ast.Delete, ast.Expr)) and 'io_nodes' in norm(st) and
          (isinstance(st, ast.Delete) or (isinstance(st, ast.Expr) and isinstance(st.value, ast.Call) and 'io_nodes.' in norm(st.value.func)) or
           (isinstance(st, (ast.Assign, ast.AugAssign)) and 'io_nodes' in norm(st.targets[0] if isinstance(st, ast.Assign) else st.target)))]
    rep.ob('C10.names', 'io_nodes never written', not wr)
    for st in wr:
        rep.violate('C10.names', cmod, f, st, 'substitute must not change io_nodes (port order is observable)', node=st)
    for st in walk_no_nested_funcs(f):
        if isinstance(st, ast.Assign) and isinstance(st.targets[0], ast.Attribute) and st.targets[0].attr in ('name', 'index') and is_name(st.targets[0].value, nodevar):
            rep.violate('C10.names', cmod, f, st, 'substitute must not rename or re-index the instance node', node=st)

    # ---- pin/node pairing
    pairs = 0
    for c in find_all(line_loop, ast.Call):
        if call_name(c) == 'Line':
            lv = line_loop.target.id
            want = [f'(node_map[{lv}.driver],{lv}.driver_pin)', f'(node_map[{lv}.reader],{lv}.reader_pin)']
            got = [norm(a).replace(' ', '') for a in c.args[1:]]
            ok = got == want and norm(c.args[0]) == 'self'
            pairs += 1
            rep.ob('C10.pins', 'internal line copy', ok, sample={'rule': 'C10.pins', 'call': norm(c)})
            if not ok:
                rep.violate('C10.pins', cmod, f, c, f'substitute: internal lines must be re-created as Line(self, (node_map[l.driver], l.driver_pin), (node_map[l.reader], l.reader_pin)); found {got}', node=c)
    def assigns_in(block):
        out = {}
        for st in block:
            if isinstance(st, ast.Assign) and isinstance(st.targets[0], ast.Attribute):
                out[norm(st.targets[0])] = norm(st.value).replace(' ', '')
        return out
    inn, ll = [e.id for e in in_loop.target.elts]
    for iff in [st for st in in_loop.body if isinstance(st, ast.If) and 'outs' in norm(st.test)]:
        arms = {norm(iff.test).replace(' ', ''): iff.body, 'else': iff.orelse}
        for cond, blk in arms.items():
            a = assigns_in(blk)
            rd = a.get(f'{ll}.reader')
            rp = a.get(f'{ll}.reader_pin')
            if rd is None and rp is None:
                continue
            if rd == 'None':
                # drop-connection idiom for inputs the implementation does not read: the line must be detached and removed
                txt = [norm(s).replace(' ', '') for s in blk]
                ok = f'{ll}.remove()' in txt and txt.index(f'{ll}.reader=None') < txt.index(f'{ll}.remove()') and isinstance(blk[-1], ast.Continue) \
                    and cond.replace(' ', '') in (f'len({inn}.outs)==0', f'notlen({inn}.outs)', f'not{inn}.outs')
                rep.ob('C10.pins', f'input arm [{cond}] drops the connection', ok)
                if not ok:
                    rep.violate('C10.pins', cmod, f, f'[{cond}] ' + '; '.join(txt), 'substitute: a connection to an input the implementation does not read may only be dropped by detaching (reader = None) and removing the line, under len(inn.outs) == 0', node=iff)
                continue
            pairs += 1
            local = {norm(s.targets[0]): norm(s.value).replace(' ', '') for s in blk if isinstance(s, ast.Assign) and isinstance(s.targets[0], ast.Name)}
            lname = next((k for k, v in local.items() if v == f'{inn}.outs[0]'), None)
            if lname is not None and rd == f'node_map[{lname}.reader]':
                ok = rp == f'{lname}.reader_pin'
            elif rd == f'node_map[{inn}]':
                ok = rp == '0'
            else:
                ok = False
            rep.ob('C10.pins', f'input arm [{cond}]', ok)
            if not ok:
                rep.violate('C10.pins', cmod, f, f'[{cond}] {ll}.reader = {rd}; {ll}.reader_pin = {rp}',
                            'substitute: an instance input line must be attached to (node_map[l.reader], l.reader_pin) of the single implementation reader, or to pin 0 of the fork created for the input', node=iff)
    # a line of the replaced instance still records (node, pin) although node.ins was reset: it must be detached
    # (reader = None) before remove(), otherwise Line.remove clears a slot of the re-used node that now holds another line
    for st in walk_no_nested_funcs(in_loop):
        if isinstance(st, ast.Expr) and isinstance(st.value, ast.Call) and norm(st.value.func).replace(' ', '') == f'{ll}.remove':
            blk = next((getattr(p, f) for p in parents(st) for f in ('body', 'orelse') if isinstance(getattr(p, f, None), list) and any(x is st for x in getattr(p, f))), [])
            k = next(i for i, x in enumerate(blk) if x is st)
            ok = any(norm(x).replace(' ', '') == f'{ll}.reader=None' for x in blk[:k])
            rep.ob('C10.pins', f'{ll}.remove() after detaching the stale reader reference', ok)
            if not ok:
                rep.violate('C10.pins', cmod, f, st, f'substitute: `{ll}.remove()` without `{ll}.reader = None` first: the line still records the pin of the instance node whose pin list was reset and refilled, '
                            f'so remove() clears a slot that now belongs to another line', node=st)
    lv, ll2 = [e.id for e in out_loop.target.elts]
    for iff in [st for st in out_loop.body if isinstance(st, ast.If) and 'outs' in norm(st.test)]:
        for cond, blk in {norm(iff.test).replace(' ', ''): iff.body, 'else': iff.orelse}.items():
            a = assigns_in(blk)
            dr, dp = a.get(f'{ll2}.driver'), a.get(f'{ll2}.driver_pin')
            if dr is None and dp is None:
                continue
            pairs += 1
            if dr == f'node_map[{lv}.reader]':
                ok = dp == f'len({lv}.reader.outs)'
            elif dr == f'node_map[{lv}.driver]':
                ok = dp == f'{lv}.driver_pin'
            else:
                ok = False
            rep.ob('C10.pins', f'output arm [{cond}]', ok)
            if not ok:
                rep.violate('C10.pins', cmod, f, f'[{cond}] {ll2}.driver = {dr}; {ll2}.driver_pin = {dp}',
                            'substitute: an instance output line must be driven from (node_map[l.driver], l.driver_pin), or from the next free output of the fork created for an output that is also read internally', node=iff)
    rep.floor('pin pairing sites in substitute', pairs, 5)

    # guards of the four loops: what is done to a line / node is done exactly under the condition that makes it meaningful
    from kvstatic.paths import guard_texts
    llv = in_loop.target.elts[1].id if isinstance(in_loop.target, ast.Tuple) else 'll'
    olv = out_loop.target.elts[1].id if isinstance(out_loop.target, ast.Tuple) else 'll'
    nlv = node_loop.target.id if isinstance(node_loop.target, ast.Name) else 'n'

    def guarded_by(st, body, must_hold, must_fail, what):
        g = guard_texts(st, body)
        pos = {t for t, pol in g if pol is True}
        neg = {t for t, pol in g if pol is False}
        ok = all(any(m == t for t in pos) for m in must_hold) and all(any(m == t for t in neg) for m in must_fail)
        rep.ob('C10.sub-shape', f'{what}: {cz(st)[:50]}', ok)
        if not ok:
            rep.violate('C10.sub-shape', cmod, f, st, f'substitute: `{norm(st)[:80]}` must run exactly when {what} (conditions found: holding {sorted(pos)}, failing {sorted(neg)})', node=st)
    for st in walk_no_nested_funcs(in_loop):
        if isinstance(st, ast.Assign) and cz(st.targets[0]) in (f'{llv}.reader', f'{llv}.reader_pin') and not (isinstance(st.value, ast.Constant) and st.value.value is None):
            guarded_by(st, in_loop.body, [], [f'{llv}isNone'], f'the instance pin is connected (`{llv} is None` fails)')
    for st in walk_no_nested_funcs(out_loop):
        if isinstance(st, ast.Assign) and cz(st.targets[0]) in (f'{olv}.driver', f'{olv}.driver_pin'):
            guarded_by(st, out_loop.body, [], [f'{olv}isNone'], f'the instance pin is connected (`{olv} is None` fails)')
        if isinstance(st, ast.Expr) and isinstance(st.value, ast.Call) and (call_name(st.value) or '').endswith('remove_dangling_nodes'):
            guarded_by(st, out_loop.body, [f'{olv}isNone'], [], f'the instance leaves this output unconnected (`{olv} is None` holds)')
    for st in walk_no_nested_funcs(node_loop):
        if isinstance(st, ast.Assign) and cz(st.targets[0]) == f'node_map[{nlv}]' and isinstance(st.value, ast.Call) and call_name(st.value) == 'Node' and len(st.value.args) == 3:
            guarded_by(st, node_loop.body, [f'{nlv}notinios', f'{nlv}!=designated_cell'], [], 'the implementation node is an internal cell other than the designated one')
    key_coverage(rep, repo, cmod, f, nodevar, implvar, node_loop, line_loop, in_loop, out_loop)


def key_coverage(rep, repo, cmod, f, nodevar, implvar, node_loop, line_loop, in_loop, out_loop):
    tmod, ctor, facts = techdsl.constructor_facts(repo)
    _, libs = techdsl.library_sources(repo)
    # read sites
    def reads_in(loop):
        out = []
        for n in ast.walk(loop):
            if isinstance(n, ast.Subscript) and is_name(n.value, 'node_map') and isinstance(n.ctx, ast.Load):
                out.append(n)
        return out

    def path_conditions(site, loop):
        """[(test, polarity)] from the loop body down to the site; plus early `continue` guards before it."""
        conds = []
        node = site
        chain = []
        for p in parents(site):
            chain.append(p)
            if p is loop:
                break
        prev = site
        for p in chain:
            if isinstance(p, ast.If):
                in_body = any(any(n is prev for n in ast.walk(x)) for x in p.body)
                in_test = any(n is prev for n in ast.walk(p.test))
                if not in_test:
                    conds.append((p.test, in_body))
            # early exits before `prev` in this block
            for field in ('body', 'orelse'):
                blk = getattr(p, field, None)
                if isinstance(blk, list) and any(s is prev for s in blk):
                    for s in blk:
                        if s is prev:
                            break
                        if isinstance(s, ast.If) and s.body and isinstance(s.body[-1], (ast.Continue, ast.Return)) and not s.orelse:
                            conds.append((s.test, False))
            prev = p
        return conds

    def local_defs_before(site, loop):
        """Name = expr assignments on the straight-line path to the site (within its blocks)."""
        defs = []
        prev = site
        for p in parents(site):
            for field in ('body', 'orelse'):
                blk = getattr(p, field, None)
                if isinstance(blk, list) and any(s is prev or any(n is prev for n in ast.walk(s)) for s in blk):
                    for s in blk:
                        if s is prev or any(n is prev for n in ast.walk(s)):
                            break
                        if isinstance(s, ast.Assign) and isinstance(s.targets[0], ast.Name):
                            defs.append((s.targets[0].id, s.value))
            prev = p
            if p is loop:
                break
        return list(reversed(defs))

    sites = []
    for loop, role in ((line_loop, 'line'), (in_loop, 'in'), (out_loop, 'out')):
        for s in reads_in(loop):
            sites.append((loop, role, s))
    rep.floor('node_map read sites', len(sites), 5)

    n_graph = n_eval = 0
    reported = set()
    shapes = set()
    for lib, text, node in libs:
        for cd in techdsl.read_library(lib, text, facts):
            if cd.errors:
                continue
            g = techdsl.impl_graph(cd)
            n_graph += 1
            ios = g.io_nodes
            in_nodes = [n for n in ios if len(n.ins) == 0]
            out_lines = [n.ins[0] for n in ios if len(n.ins) > 0]
            designated = None
            if out_lines:
                n = out_lines[0].driver
                while n.kind == '__fork__' and not any(n is x for x in ios):
                    n = n.ins[0].driver
                designated = n
            # node_map membership: evaluate the node loop's guards
            node_map = set()
            if designated is not None:
                node_map.add(id(designated))
            base_env = {'ios': ios, 'designated_cell': designated, 'node_map': node_map, implvar: g}
            nv = node_loop.target.id

            def exec_block(stmts, env):
                for st in stmts:
                    if isinstance(st, ast.If):
                        exec_block(st.body if GuardEval(env).ev(st.test) else st.orelse, env)
                    elif isinstance(st, ast.Assign) and isinstance(st.targets[0], ast.Subscript) and is_name(st.targets[0].value, 'node_map'):
                        node_map.add(id(GuardEval(env).ev(st.targets[0].slice)))
                    elif isinstance(st, (ast.Expr, ast.Pass)):
                        pass
                    else:
                        raise ModelError(f'substitute node loop: unrecognised statement {norm(st)[:80]}')
            for n in g.nodes:
                exec_block(node_loop.body, dict(base_env, **{nv: n}))
            shapes.add((len(in_nodes), len(out_lines), tuple(sorted(min(len(n.outs), 2) for n in in_nodes)), designated is not None,
                        tuple(sorted(min(len(l.reader.outs), 1) for l in out_lines))))
            for loop, role, site in sites:
                if role == 'line':
                    items = [{loop.target.id: l} for l in g.lines]
                elif role == 'in':
                    a, b = [e.id for e in loop.target.elts]
                    items = [{a: n, b: object()} for n in in_nodes]     # connected instance pin (ll is not None)
                else:
                    a, b = [e.id for e in loop.target.elts]
                    items = [{a: l, b: object()} for l in out_lines] + [{a: l, b: None} for l in out_lines]
                conds = path_conditions(site, loop)
                ldefs = local_defs_before(site, loop)
                for item in items:
                    env = dict(base_env, **item)
                    ge = GuardEval(env)
                    try:
                        feasible = True
                        # local definitions (e.g. l = inn.outs[0]) are evaluated lazily: only if the path is feasible so far
                        pending = list(ldefs)
                        for test, pol in reversed(conds):
                            for nm, val in list(pending):
                                pass
                            if bool(ge.ev(test)) != pol:
                                feasible = False
                                break
                        if not feasible:
                            continue
                        for nm, val in ldefs:
                            env[nm] = ge.ev(val)
                        key = GuardEval(env).ev(site.slice)
                    except (IndexError, KeyError, AttributeError, TypeError):
                        continue
                    n_eval += 1
                    if id(key) not in node_map:
                        what = f'{lib}:{cd.raw_name}'
                        k = (norm(site), role)
                        pin = item.get(loop.target.elts[0].id) if role != 'line' else None
                        pinname = getattr(pin, 'name', None) or (getattr(getattr(pin, 'reader', None), 'name', None))
                        if k not in reported:
                            reported.add(k)
                            cells = []
                            rep.violate('C10.keys', cmod, f, site, f'substitute: `{norm(site)}` is read for a node that never receives a node_map entry '
                                        f'(KeyError when resolving e.g. {what}, pin {pinname}, connected)', witness={'first cell': what, 'pin': pinname, 'key node': repr(key)}, node=site)
                        rep.extra.setdefault('keyerror_cells', []).append(f'{what}.{pinname}')
    ok = not reported
    rep.ob('C10.keys', f'{len(sites)} read sites x {n_graph} implementation graphs', ok, evals=max(1, n_eval),
           sample={'rule': 'C10.keys', 'graphs': n_graph, 'read evaluations': n_eval, 'shape classes': len(shapes)})
    rep.floor('implementation graphs', n_graph, 260)
    rep.floor('implementation shape classes', len(shapes), 6)
    rep.note(f'substitute key coverage: {n_graph} graphs, {len(shapes)} shape classes, {n_eval} feasible node_map reads evaluated')


def depends(rep, repo):
    """substitute, eliminate_1to1_forks, copy and unpickling are built from the graph-edit primitives; what they preserve rests
    on those primitives keeping pins and back-references exact (Line.remove with fork squeezing and renumbering,
    swap-with-last deletion, constructor pin selection, back-reference pairing). Rule ids keep their C09. prefix."""
    from checks import c09
    cmod = repo.mod('circuit')
    if not getattr(rep, '_c09_history', False):
        c09.removal(rep, cmod)
        c09.ctor_order(rep, cmod)
    c09.swap_with_last(rep, cmod)
    decided = ()
    if getattr(rep, '_c09_history', False):
        decided += ('Line.__init__', 'Line.remove', 'Node.__init__', 'Node.remove')
    if getattr(rep, '_c10_evaluated', False):
        decided += ('Circuit.substitute', 'Circuit.eliminate_1to1_forks', 'Circuit.resolve_tlib_cells')
    c09.backrefs(rep, repo, decided=decided)
    c09.dangling(rep, cmod)
    # "library implementation circuits and pin tables" (techlib.py) are what substitute is given: the C19 rules are part of this check
    from checks import c19
    keep = (rep.explanation, rep.trusted, rep.assumptions, rep.exhaustive)
    try:
        c19.run(rep, repo)
    finally:
        rep.explanation, rep.trusted, rep.assumptions, rep.exhaustive = keep


def thorough(rep, repo):
    """Thorough tier: the quick rules plus checker self-validation on the C10 slice of the mutation corpus."""
    from kvstatic import thorough as thorough_mod
    thorough_mod.selftest_slice(rep, repo, 'C10')
