"""C20.extract - DefTransformer evaluated (Engine M) on the parse tree of a fixture DEF text (fixtures/sample.def) and compared with what the text says."""
from __future__ import annotations

import os

from kvstatic.core import ModelError
from kvstatic import xform, grammar, minieval

HERE = os.path.dirname(os.path.dirname(os.path.abspath(__file__)))


def plain(x):
    if isinstance(x, minieval.NS):
        return {k: plain(v) for k, v in vars(x).items() if not k.startswith('_')}
    if isinstance(x, dict):
        return {plain(k): plain(v) for k, v in x.items()}
    if isinstance(x, (list, tuple)):
        return [plain(v) for v in x]
    if isinstance(x, str):
        return str(x)
    return x


WANT_FILE = {'version': '5.8', 'dividerchar': '/', 'busbitchars': '[]', 'design': 'top',
             'units': [['DISTANCE', 'MICRONS', 2000]], 'diearea': [[0, 0], [1000, 2000]],
             'rows': [['row0', 'core', [10, 20], 'N', 30, 400], ['row1', 'core', [10, 420], 'FS', 7, 560]],
             'tracks': [['X', 100, 50, 200, 'M1'], ['Y', 150, 60, 300, 'M2']],
             'components': {'u1': ['AND2X1', [100, 200], 'N'], 'u2/x': ['INVX1', [300, 400], 'FS']}}
WANT_VIAS = {'via1': {'name': 'via1', 'viarule': 'rule1', 'cutsize': [50, 60], 'layers': ['M1', 'V1', 'M2'], 'cutspacing': [70, 80], 'enclosure': [1, 2, 3, 4], 'rowcol': [2, 3]},
             'via2': {'name': 'via2', 'viarule': 'rule2', 'cutsize': [5, 6], 'layers': ['M2', 'V2', 'M3'], 'pattern': 'pat', 'rowcol': [1, 1], 'cutspacing': [0, 0]}}
WANT_PINS = {'a': {'name': 'a', 'net': 'a', 'direction': 'INPUT', 'use': 'SIGNAL', 'port': [], 'layer': ['M1', [10, 0], [30, 20]], 'points': [[5, 6, 'N']]},
             'y': {'name': 'y', 'net': 'y_net', 'direction': 'OUTPUT', 'layer': ['M2', [0, 0], [7, 8]], 'points': [[50, 60, 'S'], [70, 80, 'W']]}}
WANT_SPNETS = {'VDD': {'pins': [['*', 'VDD'], ['u1', 'VPWR']], 'use': 'POWER',
                       'fixed': [['M3', '200', [[1, 1], [2, None]]]],
                       'routed': [['M1', '400', [[0, 100], [900, None], ['via1', [2, 3, 10, -20]], [None, 500], ['via2', None]]], ['M2', '300', [[50, 50], [None, 150]]]],
                       'wires': {'M1': [[400, [[0, 100], [900, 100], [900, 500]]]], 'M2': [[300, [[50, 50], [50, 150]]]]},
                       'vias': {'via1': [[900 + x * 10, 100 + y * -20, 'N'] for x in range(2) for y in range(3)], 'via2': [[900, 500, 'N']]}}}
WANT_NETS = {'n1': {'pins': [['u1', 'Y'], ['u2/x', 'A']], 'use': 'SIGNAL',
                    'routed': [['M1', None, [[10, 20], [30, None], ['via1', 'N'], [None, 40, 5], ['via2', 'FS']]], ['M2', None, [[1, 2], [3, 4]]]],
                    'wires': {'M1': [[None, [[10, 20], [30, 20], [30, 40, 5]]]], 'M2': [[None, [[1, 2], [3, 4]]]]},
                    'vias': {'via1': [[30, 20, 'N']], 'via2': [[30, 40, 'FS']]}},
             'n2': {'pins': [['u2/x', 'Y'], ['PIN', 'y']], 'nondefaultrule': 'wide', 'noshield': [['M3', None, [[7, 7], ['via1', 'N']]]], 'routed': [], 'wires': {}, 'vias': {}}}


def wire_plain(w):
    return [plain(getattr(w, 'layer', '?')), plain(getattr(w, 'width', '?')), plain(getattr(w, 'points', '?'))]


def net_plain(n):
    d = {k: plain(v) for k, v in vars(n).items() if not k.startswith('_') and k not in ('name', 'routed', 'noshield', 'cover', 'fixed')}
    for k in ('routed', 'noshield', 'cover', 'fixed'):
        if hasattr(n, k):
            d[k] = [wire_plain(w) for w in getattr(n, k)]
    d['wires'] = plain(dict(n.wires))
    d['vias'] = plain(dict(n.vias))
    return d


def evaluate(rep, repo, mod):
    rep.rule('C20.extract', 'DefTransformer evaluated on the parse tree of a fixture DEF text (header, units, die area, two rows with DO..BY..STEP both ways, tracks, two vias, '
                            'components, pins with several PLACED points, a special net with an expanded via array and `*` coordinates, nets with vias, orientations, a third '
                            'coordinate, NONDEFAULTRULE and NOSHIELD): every extracted field, the derived wire segments and via locations equal what the text says')
    text, _ = grammar.extract_grammar(mod)
    fixture = open(os.path.join(HERE, 'fixtures', 'sample.def')).read()
    try:
        tree = xform.parse_tree(text, fixture)
    except Exception as e:  # noqa: BLE001 - lark's parse errors
        if type(e).__module__.startswith('lark'):
            rep.ob('C20.extract', 'fixture DEF text is accepted by the grammar', False)
            rep.violate('C20.extract', mod, '<module>', 'GRAMMAR', f'the grammar no longer accepts the fixture DEF text (standard statements of every section): {type(e).__name__}: {str(e)[:300]}')
            return True
        raise
    cls = mod.cls('DefTransformer')
    genv = xform.module_env(mod, cls.name)
    why = None
    try:
        df, _me = xform.transform(tree, cls, genv)
        if not isinstance(df, minieval.NS) or not hasattr(df, 'nets'):
            why = f'the transformer returns {type(df).__name__}, not the DefFile'
        else:
            got = plain(df)
            for k, v in WANT_FILE.items():
                if got.get(k) != v and why is None:
                    why = f'DefFile.{k} is {got.get(k)}; the text says {v}'
            for what, want, pl in (('vias', WANT_VIAS, plain), ('pins', WANT_PINS, plain), ('specialnets', WANT_SPNETS, net_plain), ('nets', WANT_NETS, net_plain)):
                tab = getattr(df, what, None)
                if not isinstance(tab, dict) or sorted(map(str, tab)) != sorted(want):
                    why = why or f'DefFile.{what} holds {sorted(map(str, tab)) if isinstance(tab, dict) else tab}; the text defines {sorted(want)}'
                    continue
                for name, w in want.items():
                    g = pl(tab[name])
                    for k, v in w.items():
                        if g.get(k) != v and why is None:
                            why = f'{what}[{name!r}].{k} is {g.get(k)}; the text says {v}'
    except ModelError:
        raise
    except (IndexError, KeyError, TypeError, AttributeError, ValueError, RuntimeError, AssertionError) as e:
        why = f'raises {type(e).__name__}: {e}'
    ok = why is None
    rep.ob('C20.extract', 'fixture DEF text: every extracted field', ok, evals=1)
    if not ok:
        rep.violate('C20.extract', mod, cls.name, 'DefTransformer', f'DefTransformer on fixtures/sample.def: {why}', node=cls)
    return True
