"""C09 - circuit graph stays consistent under every edit history (ownership / pairing lint, whole package)."""
from __future__ import annotations

import ast

from kvstatic.paths import cz
from kvstatic.core import Repo, Report, ModelError, AnchorError, norm, qualname_of
from kvstatic.astutil import (find_all, attr_chain, is_name, call_name, body_no_doc, target_names, parents, enclosing,
                              walk_no_nested_funcs)

CONTAINERS = ('nodes', 'lines', 'cells', 'forks')
MUTATORS = ('append', 'extend', 'insert', 'pop', 'remove', 'clear', 'sort', 'reverse', 'update', 'setdefault', 'popitem', '__setitem__', '__delitem__')


def own_container_classes(repo):
    """Classes (other than Circuit) that define their own attribute called nodes/lines/cells/forks: stores through
    `self.` inside them concern that class, not Circuit."""
    out = {}
    for mod in repo.all_mods():
        for cname, cls in mod.classes.items():
            if cname == 'Circuit':
                continue
            for st in ast.walk(cls):
                if isinstance(st, (ast.Assign, ast.AnnAssign)):
                    tg = st.targets[0] if isinstance(st, ast.Assign) else st.target
                    ch = attr_chain(tg)
                    if ch and ch.startswith('self.') and ch[5:] in CONTAINERS:
                        out.setdefault((mod.name, cname), set()).add(ch[5:])
    return out


def all_functions(repo):
    for mod in repo.all_mods():
        for q, f in mod.funcs.items():
            yield mod, q, f
        yield mod, '<module>', mod.tree


def stmts_toplevel(f):
    """Statements of a function not inside nested defs."""
    if isinstance(f, ast.Module):
        return [n for n in ast.iter_child_nodes(f)]
    return list(walk_no_nested_funcs(f))


def run(rep: Report, repo: Repo):
    rep.explanation = (
        'Whole-package who-may-write and must-follow rules over the representation of the circuit graph: .index of nodes/lines '
        'and the containers nodes/lines/cells/forks are written only by the constructors, removers and IndexList; swap-with-last '
        'rewrites the moved element\'s index; every store to a line\'s reader/driver end is followed by the matching back-reference '
        'store; Line.remove clears both slots and squeezes fork outputs; constructor ordering; stats totals.')
    rep.trusted = ['python ast; attribute receivers other than `self` inside a class with its own same-named attribute are taken to be Circuit objects']
    rep.assumptions = ['BOUNDED: the for-all-histories invariant is decided on 300 generated edit histories (C09.history: the classes\' own code evaluated against a shadow model), not for every history',
                       'well-formed use as stated in the property (explicit pins only on free positions, nodes removed after their lines)']
    cmod = repo.mod('circuit')
    own = own_container_classes(repo)
    evaluated = False
    try:
        evaluated = history_evaluated(rep, repo, cmod)
        rep._c09_history = evaluated
    except ModelError as e:
        rep.note(f'C09.history: Node / Line / Circuit are outside the evaluated subset ({e}); the structural rules C09.ctor / C09.remove / C09.containers decide')

    # ---- 1. index ownership
    rep.rule('C09.index', '.index is stored only in Node.__init__, Line.__init__ and IndexList.__delitem__ (whole package)')
    allowed_index = {('circuit', 'Node.__init__'), ('circuit', 'Line.__init__'), ('circuit', 'IndexList.__delitem__')}
    n_writers = 0
    for mod in repo.all_mods():
        for st in ast.walk(mod.tree):
            tgs = []
            if isinstance(st, ast.Assign):
                tgs = st.targets
            elif isinstance(st, (ast.AugAssign, ast.AnnAssign)):
                tgs = [st.target]
            elif isinstance(st, ast.Delete):
                tgs = st.targets
            for tg in tgs:
                for t in ([tg] if not isinstance(tg, (ast.Tuple, ast.List)) else tg.elts):
                    if isinstance(t, ast.Attribute) and t.attr == 'index':
                        q = qualname_of(st)
                        ok = (mod.name, q) in allowed_index
                        n_writers += 1
                        rep.ob('C09.index', f'{mod.name}.{q}: {norm(st)}', ok)
                        if not ok:
                            rep.violate('C09.index', mod, st, st, f'{mod.name}.{q} writes {norm(t)}; indices may only be assigned by the constructors and by IndexList.__delitem__', node=st)
        for c in find_all(mod.tree, ast.Call):
            if call_name(c) == 'setattr' and len(c.args) >= 2 and isinstance(c.args[1], ast.Constant) and c.args[1].value in ('index',) + CONTAINERS:
                rep.violate('C09.index', mod, c, c, f'setattr(..., {c.args[1].value!r}) bypasses the ownership rule', node=c)
    rep.floor('index writers', n_writers, 3)

    # ---- container mutation
    rep.rule('C09.containers', 'Circuit.nodes/lines/cells/forks are mutated only by Node/Line constructors and removers (and re-created in __init__/__setstate__)')
    allowed = {
        ('circuit', 'Node.__init__'): {'circuit.forks[name] = self', 'circuit.cells[name] = self', 'circuit.nodes.append(self)'},
        ('circuit', 'Line.__init__'): {'self.circuit.lines.append(self)'},
        ('circuit', 'Node.remove'): {'del self.circuit.nodes[self.index]', 'del self.circuit.forks[self.name]', 'del self.circuit.cells[self.name]'},
        ('circuit', 'Line.remove'): {'del self.circuit.lines[self.index]'},
        ('circuit', 'Circuit.__init__'): {'self.nodes: list[Node] = IndexList()', 'self.lines: list[Line] = IndexList()', 'self.cells: dict[str, Node] = {}', 'self.forks: dict[str, Node] = {}'},
        ('circuit', 'Circuit.__setstate__'): {'self.nodes = IndexList()', 'self.lines = IndexList()', 'self.cells = {}', 'self.forks = {}'},
    }
    seen_allowed = set()
    n_mut = 0
    for mod in repo.all_mods():
        for st in ast.walk(mod.tree):
            hits = []   # (container attr node, description)
            if isinstance(st, (ast.Assign, ast.AugAssign, ast.AnnAssign, ast.Delete)):
                tgs = st.targets if isinstance(st, (ast.Assign, ast.Delete)) else [st.target]
                for tg in tgs:
                    for t in ([tg] if not isinstance(tg, (ast.Tuple, ast.List)) else tg.elts):
                        base = t.value if isinstance(t, ast.Subscript) else t
                        if isinstance(base, ast.Attribute) and base.attr in CONTAINERS:
                            hits.append(base)
            elif isinstance(st, ast.Expr) and isinstance(st.value, ast.Call) and isinstance(st.value.func, ast.Attribute) \
                    and st.value.func.attr in MUTATORS and isinstance(st.value.func.value, ast.Attribute) and st.value.func.value.attr in CONTAINERS:
                hits.append(st.value.func.value)
            for base in hits:
                q = qualname_of(st)
                cls = q.split('.')[0]
                recv = attr_chain(base.value)
                if recv == 'self' and (mod.name, cls) in own and base.attr in own[(mod.name, cls)]:
                    continue   # that class's own attribute (TechLib.cells, DelayFile.cells, ...)
                if recv and recv.endswith('def_file'):
                    continue
                n_mut += 1
                txt = norm(st)
                ok = txt in allowed.get((mod.name, q), ()) or (evaluated and (mod.name, q) in allowed)     # who may write; what is written there is decided by C09.history
                if ok:
                    seen_allowed.add((mod.name, q, txt))
                rep.ob('C09.containers', f'{mod.name}.{q}: {txt}', ok)
                if not ok:
                    rep.violate('C09.containers', mod, st, st, f'{mod.name}.{q} mutates the circuit container `{norm(base)}` directly; '
                                f'only the Node/Line constructors and remove() may do that (index and name lookups would go stale)', node=st)
    rep.floor('container mutation sites', n_mut, 14)
    for (m, q), texts in allowed.items():
        for t in texts:
            if (m, q, t) not in seen_allowed and not (evaluated and q in ('Node.__init__', 'Line.__init__', 'Node.remove', 'Line.remove', 'Circuit.__init__')):
                rep.violate('C09.containers', cmod, q, t, f'{q}: required container update `{t}` is missing', node=cmod.funcs.get(q))
    # positive fixture for the zero-expected part of the rule
    fx = ast.parse('def rogue(c, n):\n    c.nodes.append(n)\n    n.index = 7\n')
    got = [s for s in ast.walk(fx) if isinstance(s, ast.Expr) and isinstance(s.value, ast.Call) and isinstance(s.value.func, ast.Attribute)
           and s.value.func.attr in MUTATORS and isinstance(s.value.func.value, ast.Attribute) and s.value.func.value.attr in CONTAINERS]
    if len(got) != 1:
        raise ModelError('C09 positive fixture no longer matches the container rule')

    if evaluated:
        swap_with_last(rep, cmod)
        rep._c09_decided = ('Line.__init__', 'Line.remove', 'Node.__init__', 'Node.remove')
        from checks import c10
        rep._c10_function = c10.function_rules(rep, repo, cmod, what=('elim', 'substitute'))     # C10.function (part of this check, see depends)
        if rep._c10_function:
            rep._c09_decided += ('Circuit.substitute', 'Circuit.eliminate_1to1_forks', 'Circuit.resolve_tlib_cells')
        backrefs(rep, repo, decided=rep._c09_decided)
        dangling(rep, cmod)
        if not getattr(rep, '_c09_stats_evaluated', False):
            stats(rep, cmod)
        return
    # same fork/cell choice in insert and delete
    ni, nr = cmod.func('Node.__init__'), cmod.func('Node.remove')
    ti = [norm(i.test) for i in find_all(ni, ast.If) if '__fork__' in norm(i.test)]
    tr = [norm(i.test).replace('self.kind', 'kind') for i in find_all(nr, ast.If) if '__fork__' in norm(i.test)]
    ok = ti == ["kind == '__fork__'"] and tr == ["kind == '__fork__'"]
    rep.ob('C09.containers', 'fork/cell dictionary chosen by the same test in Node.__init__ and Node.remove', ok)
    if not ok:
        rep.violate('C09.containers', cmod, nr, f'{ti} vs {tr}', 'Node.__init__ and Node.remove must choose forks vs cells by the same test kind == "__fork__"', node=nr)
    for f, first, second in ((ni, "circuit.forks[name] = self", "circuit.cells[name] = self"), (nr, 'del self.circuit.forks[self.name]', 'del self.circuit.cells[self.name]')):
        iff = [i for i in find_all(f, ast.If) if '__fork__' in norm(i.test)]
        if iff:
            b = [norm(s) for s in iff[0].body if not isinstance(s, ast.Assert)]
            e = [norm(s) for s in iff[0].orelse if not isinstance(s, ast.Assert)]
            ok = b == [first] and e == [second]
            rep.ob('C09.containers', f'{f._qualname}: forks in the fork arm, cells in the other', ok)
            if not ok:
                rep.violate('C09.containers', cmod, f, iff[0], f'{f._qualname}: fork arm must touch forks, the other arm cells', node=iff[0])

    swap_with_last(rep, cmod)
    backrefs(rep, repo)
    removal(rep, cmod)
    ctor_order(rep, cmod)
    dangling(rep, cmod)
    stats(rep, cmod)


def history_evaluated(rep, repo, cmod):
    from kvstatic.core import cached_rules
    return cached_rules(rep, repo, 'c09.history', ['circuit'], lambda r: _history_evaluated(r, repo, cmod))


def _history_evaluated(rep, repo, cmod):
    """C09.history - kyupy's own Node / Line / Circuit constructors and removers evaluated (Engine M) along generated edit histories and compared, after every
    step, with a shadow model of the documented semantics (kvstatic/graphmodel.py). Returns False when the classes are outside the evaluator subset."""
    import random
    from kvstatic import graphmodel as G
    rep.rule('C09.history', 'Node / Line constructors and remove() evaluated along 300 generated edit histories (cells and forks, implicit pins and explicit free pins incl. gaps on cells, '
                            'removal of first / middle / last fork outputs, removal of nodes and lines at every position, names re-used): after every step the node and line tables, '
                            'indices, pin lists, back-references and name tables equal the shadow model of the documented behaviour')
    env = G.classes(cmod)
    C, N, L = env['Circuit'], env['Node'], env['Line']
    bad = None
    nsteps = 0
    nstats = [0]
    stats_model_error = []
    for seed in range(300):
        rng = random.Random(seed)
        c = C('t')
        sh = G.Shadow()
        lid = {}
        nodes = []       # (evaluated node, shadow node)
        lines = []
        names = 0
        trace = []
        for step in range(rng.randint(4, 14)):
            r = rng.random()
            try:
                if r < 0.3 or len(nodes) < 2:
                    kind = rng.choice(['__fork__', '__fork__', 'AND2', 'DFF'])
                    if rng.random() < 0.2 and names > 0:
                        name = f'n{rng.randrange(names)}'       # a name that may be in use, or free again after a removal
                    else:
                        name = f'n{names}'
                        names += 1
                    trace.append(f'Node({name!r}, {kind!r})')
                    tab = sh.forks if kind == '__fork__' else sh.cells
                    if name in tab:
                        try:
                            N(c, name, kind)
                            bad = bad or ('a second node of the same name and kind is accepted', list(trace))
                        except AssertionError:
                            pass
                        continue
                    nodes.append((N(c, name, kind), sh.node(name, kind)))
                elif r < 0.7:
                    forks_ = [x for x in nodes if x[1]['kind'] == '__fork__']
                    (d, sd), (rd, sr) = (rng.choice(forks_) if forks_ and rng.random() < 0.5 else rng.choice(nodes)), rng.choice(nodes)

                    def free(lst, fork):
                        # well-formed use: an explicit pin names a free position; a fork has no pin identity, its next output is the only free one
                        if fork:
                            return [len(lst)]
                        return [k for k, x in enumerate(lst) if x is None] + [len(lst), len(lst) + 1]
                    dp = rng.choice([None, None] + free(sd['outs'], sd['kind'] == '__fork__'))
                    rp = rng.choice([None, None] + free(sr['ins'], False))
                    trace.append(f'Line({sd["name"]}{"" if dp is None else "." + str(dp)} -> {sr["name"]}{"" if rp is None else "." + str(rp)})')
                    l = L(c, d if dp is None else (d, dp), rd if rp is None else (rd, rp))
                    sl = sh.line(sd, dp, sr, rp)
                    lid[id(l)] = sl['id']
                    lines.append((l, sl))
                elif r < 0.88 and lines:
                    k = rng.randrange(len(lines))
                    l, sl = lines.pop(k)
                    trace.append(f'remove line {sl["id"]}')
                    l.remove()
                    sh.remove_line(sl)
                elif nodes:
                    k = rng.randrange(len(nodes))
                    n, sn = nodes[k]
                    if any(x is not None for x in sn['ins'] + sn['outs']):
                        continue          # nodes are removed once their lines are gone
                    nodes.pop(k)
                    trace.append(f'remove node {sn["name"]}')
                    n.remove()
                    sh.remove_node(sn)
                else:
                    continue
            except ModelError:
                raise
            except (IndexError, KeyError, TypeError, AttributeError, ValueError, AssertionError, RuntimeError) as e:
                bad = bad or (f'raises {type(e).__name__}: {e}', list(trace))
                break
            nsteps += 1
            got = G.picture(c, lid)
            want = sh.picture()
            if got == want and step % 2 == 1:
                # the reported statistics match the containers
                try:
                    st_ = c.stats
                except ModelError as e_:
                    stats_model_error.append(str(e_))
                    st_ = None
                except (IndexError, KeyError, TypeError, AttributeError, ValueError, AssertionError, RuntimeError) as e:
                    bad = bad or (f'Circuit.stats raises {type(e).__name__}: {e}', list(trace))
                    break
                if st_ is not None:
                    kinds = [sn_['kind'] for sn_ in sh.nodes if sn_['kind'] != '__fork__']
                    exp = {'__node__': len(sh.nodes), '__cell__': len(sh.cells), '__fork__': len(sh.forks), '__io__': 0, '__line__': len(sh.lines),
                           '__dff__': sum('dff' in k.lower() for k in kinds), '__latch__': sum('latch' in k.lower() and 'dff' not in k.lower() for k in kinds)}
                    exp['__seq__'] = exp['__dff__'] + exp['__latch__']
                    exp['__comb__'] = sum(1 for k in kinds if 'dff' not in k.lower() and 'latch' not in k.lower() and 'put' not in k.lower())
                    for k in set(kinds):
                        exp[k] = kinds.count(k)
                    wrong = {k: (st_.get(k, 0) if isinstance(st_, dict) else None, v) for k, v in exp.items() if not isinstance(st_, dict) or st_.get(k, 0) != v}
                    if wrong:
                        bad = bad or (f'Circuit.stats reports {({k: g_ for k, (g_, _w) in wrong.items()})} where the containers hold {({k: w_ for k, (_g, w_) in wrong.items()})}', list(trace))
                        break
                    nstats[0] += 1
            if got == want and (step % 3 == 2):
                # copying and pickling (state round trip) are edits too: the result must be the same structure, with its own objects
                try:
                    c2 = c.copy()
                    st = c.__getstate__()
                    c3 = C()
                    c3.__setstate__(st)
                except ModelError:
                    raise
                except (IndexError, KeyError, TypeError, AttributeError, ValueError, AssertionError, RuntimeError) as e:
                    bad = bad or (f'copy() / __getstate__ / __setstate__ raises {type(e).__name__}: {e}', list(trace))
                    break
                for what, cc in (('copy()', c2), ('the unpickled circuit', c3)):
                    pos = {id(l): k for k, l in enumerate(cc.lines)}
                    g2 = G.picture(cc, pos)
                    pos0 = {sl_['id']: k for k, sl_ in enumerate(sh.lines)}
                    if isinstance(g2, str):
                        bad = bad or (f'{what}: {g2}', list(trace))
                    else:
                        w2 = ([(a, b_, [None if x is None else pos0[x] for x in i_], [None if x is None else pos0[x] for x in o_]) for a, b_, i_, o_ in want[0]],
                              [(pos0[a], b_, c_, d_, e_) for a, b_, c_, d_, e_ in want[1]], want[2], want[3])
                        def strip(pic):
                            def t(l_):
                                l_ = list(l_)
                                while l_ and l_[-1] is None:
                                    l_.pop()
                                return l_
                            return ([(a, b_, t(i_), t(o_)) for a, b_, i_, o_ in pic[0]],) + tuple(pic[1:])
                        g2, w2 = strip(g2), strip(w2)       # trailing unconnected pins are not part of the structure
                        if g2 != w2:
                            bad = bad or (f'{what} differs from the original: ' + next((f'{w}: {x} instead of {y}' for w, x, y in zip(('nodes', 'lines', 'fork names', 'cell names'), g2, w2) if x != y), ''), list(trace))
                        elif any(x is y for x in cc.nodes for y in c.nodes) or any(x is y for x in cc.lines for y in c.lines):
                            bad = bad or (f'{what} shares node / line objects with the original', list(trace))
                if bad:
                    break
                if rng.random() < 0.4:
                    # the history goes on with the copy / the unpickled circuit: it must behave like the original under further edits
                    cc = c2 if rng.random() < 0.5 else c3
                    trace.append('continue on the copy' if cc is c2 else 'continue on the unpickled circuit')
                    nodes = [((cc.forks if sn['kind'] == '__fork__' else cc.cells)[sn['name']], sn) for _n, sn in nodes]
                    lines = [(cc.lines[sh.lines.index(sl_)], sl_) for _l, sl_ in lines]
                    lid = {id(l_): sl_['id'] for l_, sl_ in lines}
                    c = cc
                    for sn_ in sh.nodes:          # a freshly built circuit has no trailing unconnected pins
                        for pl in (sn_['ins'], sn_['outs']):
                            while pl and pl[-1] is None:
                                pl.pop()
            if got != want:
                if isinstance(got, str):
                    why = got
                else:
                    why = next((f'{w} differ: circuit has {g_}, documented behaviour gives {w_}' for w, g_, w_ in zip(('nodes (name, kind, input lines, output lines)', 'lines (id, driver, pin, reader, pin)', 'fork names', 'cell names'), got, want) if g_ != w_), 'structures differ')
                bad = bad or (why, list(trace))
                break
        if bad:
            break
    ok = bad is None
    rep.ob('C09.history', f'{nsteps} edit steps over 300 histories', ok, evals=nsteps)
    if not ok:
        why, trace = bad
        rep.violate('C09.history', cmod, 'Line.__init__', 'edit history', f'after the edit history [{"; ".join(trace)}] {str(why)[:600]}', node=cmod.func('Line.__init__'))
    rep.floor('edit steps evaluated', nsteps, 1500)
    rep._c09_stats_evaluated = nstats[0] > 100 and not stats_model_error
    if stats_model_error:
        rep.note(f'C09.stats: Circuit.stats is outside the evaluated subset ({stats_model_error[0]}); the structural rule decides')
    else:
        rep.rule('C09.stats', 'Circuit.stats evaluated along the edit histories: every total equals the size of the container it names, per-kind counts, __dff__/__latch__/__seq__/__comb__ follow the cell kinds')
        rep.ob('C09.stats', f'statistics after {nstats[0]} edit steps', not (bad and 'stats' in str(bad[0])), evals=nstats[0])
    return True


def swap_with_last(rep, cmod):
    rep.rule('C09.swap', 'IndexList.__delitem__: last element is removed; otherwise the popped last element gets index = deleted position and is stored there')
    f = cmod.func('IndexList.__delitem__')
    idx = f.args.args[1].arg
    body = body_no_doc(f)
    ok = False
    if len(body) == 1 and isinstance(body[0], ast.If):
        iff = body[0]
        t = norm(iff.test).replace(' ', '')
        last = [norm(s).replace(' ', '') for s in iff.body]
        other = [norm(s).replace(' ', '') for s in iff.orelse]
        if t == f'{idx}!=len(self)-1':
            last, other = other, last
            t = f'{idx}==len(self)-1'
        if t == f'{idx}==len(self)-1' and last in ([f'super().__delitem__({idx})'], ['self.pop()'], ['list.pop(self)']):
            if len(other) == 3 and other[0].endswith('=self.pop()'):
                v = other[0].split('=')[0]
                ok = sorted(other[1:]) == sorted([f'{v}.index={idx}', f'super().__setitem__({idx},{v})'])
    rep.ob('C09.swap', 'IndexList.__delitem__', ok, sample={'rule': 'C09.swap', 'body': norm(f)[:300]})
    if not ok:
        rep.violate('C09.swap', cmod, f, body[0], 'IndexList.__delitem__ must delete the last element directly, otherwise pop the last element, set its .index to the freed position and store it there', node=f)
    g = cmod.func('GrowingList.__setitem__')
    txt = [cz(s) for s in body_no_doc(g)]
    ok = txt == ['ifindex>=len(self):self.extend([None]*(index+1-len(self)))', 'super().__setitem__(index,value)']
    rep.ob('C09.swap', 'GrowingList.__setitem__ grows with None up to index', ok)
    if not ok:
        rep.violate('C09.swap', cmod, g, body_no_doc(g)[0], 'GrowingList.__setitem__ must pad with None up to and including index, then store', node=g)
    g = cmod.func('GrowingList.free_index')
    # evaluated (Engine M) on every list of length <= 4 over {None, object}
    import itertools
    from kvstatic import minieval
    from kvstatic.core import ModelError as _ME
    bad = None
    try:
        for n in range(0, 5):
            for pat in itertools.product((None, 'x'), repeat=n):
                try:
                    got = minieval.call_function(g, [list(pat)])
                except (IndexError, KeyError, TypeError, StopIteration) as e:
                    got = type(e).__name__
                want = pat.index(None) if None in pat else n
                if got != want and bad is None:
                    bad = (list(pat), got, want)
        ok = bad is None
        rep.ob('C09.swap', 'GrowingList.free_index = first None position or len (evaluated on all lists up to length 4)', ok, evals=31)
        if not ok:
            rep.violate('C09.swap', cmod, g, body_no_doc(g)[0], f'free_index must return the first position holding None, or len(self): for {bad[0]} it returns {bad[1]} instead of {bad[2]}', node=g)
    except _ME:
        txt = [norm(s).replace(' ', '') for s in body_no_doc(g)]
        ok = txt in (['returnnext((ifor(i,x)inenumerate(self)ifxisNone),len(self))'], ['returnnext((ifori,xinenumerate(self)ifxisNone),len(self))'])
        rep.ob('C09.swap', 'GrowingList.free_index = first None position or len', ok)
        if not ok:
            rep.violate('C09.swap', cmod, g, body_no_doc(g)[0], 'free_index must return the first position holding None, or len(self)', node=g)


def backrefs(rep, repo, decided=()):
    """decided: qualified names of functions of circuit.py whose effect on the graph is decided by evaluation (C09.history / C10.function check the
    back-references of the resulting graph themselves): the pairing lint is not applied to them."""
    rep.rule('C09.backref', 'a store to X.reader/X.reader_pin (X.driver/X.driver_pin) is followed on the fall-through path by X.reader.ins[X.reader_pin] = X (X.driver.outs[X.driver_pin] = X)')
    n = 0
    for mod in repo.all_mods():
        for q, f in mod.funcs.items():
            stores = {}
            if mod.name == 'circuit' and q in decided:
                continue
            for st in walk_no_nested_funcs(f):
                if isinstance(st, ast.Assign) and len(st.targets) == 1 and isinstance(st.targets[0], ast.Attribute) \
                        and st.targets[0].attr in ('reader', 'reader_pin', 'driver', 'driver_pin'):
                    if isinstance(st.value, ast.Constant) and st.value.value is None:
                        continue
                    lp = enclosing(st, ast.For)
                    if lp is not None and isinstance(lp.iter, ast.Call) and call_name(lp.iter) == 'enumerate' and isinstance(lp.target, ast.Tuple) \
                            and len(lp.target.elts) == 2 and norm(lp.target.elts[1]) == norm(st.targets[0].value) and norm(lp.target.elts[0]) == norm(st.value) \
                            and st.targets[0].attr.endswith('_pin') and isinstance(lp.iter.args[0], ast.Attribute) \
                            and lp.iter.args[0].attr == ('outs' if st.targets[0].attr == 'driver_pin' else 'ins'):
                        continue   # renumbering idiom: for i, l in enumerate(X.outs): l.driver_pin = i  (l already sits at position i)
                    x = norm(st.targets[0].value)
                    side = 'reader' if st.targets[0].attr.startswith('reader') else 'driver'
                    stores.setdefault((x, side), []).append(st)
            for (x, side), sts in stores.items():
                n += 1
                lst = 'ins' if side == 'reader' else 'outs'
                want = f'{x}.{side}.{lst}[{x}.{side}_pin] = {x}'
                bad = []
                for st in sts:
                    if not followed_by(st, want, f):
                        bad.append(st)
                ok = not bad
                rep.ob('C09.backref', f'{mod.name}.{q}: {x}.{side}', ok, sample={'rule': 'C09.backref', 'function': f'{mod.name}.{q}', 'stores': [norm(s) for s in sts], 'required': want, 'ok': ok})
                if not ok:
                    rep.violate('C09.backref', mod, f, bad[0], f'{mod.name}.{q}: `{norm(bad[0])}` is not followed by the back-reference store `{want}` on the fall-through path; '
                                f'the line would record a pin that does not reference it', node=bad[0])
    rep.floor('back-reference pairing sites', n, 5 if not decided else 0)


def followed_by(st, want, f):
    """`want` (normalised text) occurs as a statement after st: later in st's block, or later in an enclosing block,
    before leaving the enclosing loop body / function; no continue/break/return in between at those levels."""
    node = st
    while True:
        parent = getattr(node, '_parent', None)
        if parent is None:
            return False
        for field in ('body', 'orelse', 'finalbody'):
            blk = getattr(parent, field, None)
            if isinstance(blk, list) and any(s is node for s in blk):
                i = next(k for k, s in enumerate(blk) if s is node)
                for s in blk[i + 1:]:
                    if norm(s) == want:
                        return True
                    if isinstance(s, (ast.Continue, ast.Break, ast.Return, ast.Raise)):
                        return False
                break
        if parent is f or isinstance(parent, (ast.For, ast.While, ast.FunctionDef)):
            return False
        node = parent


def removal(rep, cmod):
    rep.rule('C09.remove', 'Line.remove clears the driver and reader slots at the recorded pins before clearing its own fields; fork outputs are squeezed and renumbered')
    f = cmod.func('Line.remove')
    flat = [norm(s).replace(' ', '') for s in walk_no_nested_funcs(f) if isinstance(s, ast.stmt)]
    order = {t: i for i, t in enumerate([norm(s).replace(' ', '') for s in ast.walk(f) if isinstance(s, ast.stmt)])}
    lin = []
    for s in sorted([s for s in ast.walk(f) if isinstance(s, (ast.Assign, ast.Delete, ast.For))], key=lambda s: (s.lineno, s.col_offset)):
        lin.append(cz(s))
    need = ['self.driver.outs[self.driver_pin]=None', 'delself.driver.outs[self.driver_pin]',
            'for(i,l)inenumerate(self.driver.outs):l.driver_pin=i', 'self.reader.ins[self.reader_pin]=None',
            'delself.circuit.lines[self.index]', 'self.driver=None', 'self.reader=None', 'self.circuit=None']
    alt = {'for(i,l)inenumerate(self.driver.outs):l.driver_pin=i': 'fori,linenumerate(self.driver.outs):l.driver_pin=i'}
    pos = []
    for t in need:
        cands = [i for i, x in enumerate(lin) if x == t or x == alt.get(t)]
        pos.append(cands[0] if cands else -1)
    ok = all(p >= 0 for p in pos)
    for t, p in zip(need, pos):
        rep.ob('C09.remove', t, p >= 0)
        if p < 0:
            rep.violate('C09.remove', cmod, f, t, f'Line.remove: required step `{t}` is missing', node=f)
    if ok:
        d = dict(zip(need, pos))
        ok2 = d['self.driver.outs[self.driver_pin]=None'] < d['self.driver=None'] and d['self.reader.ins[self.reader_pin]=None'] < d['self.reader=None'] \
            and d['delself.circuit.lines[self.index]'] < d['self.circuit=None'] and d['delself.driver.outs[self.driver_pin]'] < d['for(i,l)inenumerate(self.driver.outs):l.driver_pin=i']
        rep.ob('C09.remove', 'slots cleared before own fields; squeeze before renumbering', ok2)
        if not ok2:
            rep.violate('C09.remove', cmod, f, 'ordering in Line.remove', 'Line.remove: slots must be cleared while driver/reader/pins are still recorded; squeeze before renumbering', node=f)
    # each clearing step runs exactly when the object it goes through is present (and only then)
    from kvstatic.paths import guard_texts
    want_guard = {'self.driver.outs[self.driver_pin]=None': 'self.driverisnotNone', 'self.reader.ins[self.reader_pin]=None': 'self.readerisnotNone',
                  'delself.circuit.lines[self.index]': 'self.circuitisnotNone', 'delself.driver.outs[self.driver_pin]': 'self.driverisnotNone'}
    for st in [s for s in ast.walk(f) if isinstance(s, (ast.Assign, ast.Delete))]:
        w = want_guard.get(cz(st))
        if w is None:
            continue
        g = guard_texts(st, body_no_doc(f))
        pos = [t for t, pol in g if pol is True]
        neg = [t for t, pol in g if pol is False]
        okg = w in pos and not any(t == w for t in neg) and not any(t.startswith('not') and w in t for t in pos)
        rep.ob('C09.remove', f'{cz(st)} guarded by {w}', okg)
        if not okg:
            rep.violate('C09.remove', cmod, f, st, f'Line.remove: `{norm(st)}` must run exactly when `{w.replace("isnotNone", " is not None")}` holds (guards found: {g}): otherwise the slot of a '
                        f'connected line is never cleared, or None is dereferenced', node=st)
    # squeeze only for forks
    iffs = [i for i in find_all(f, ast.If) if '__fork__' in norm(i.test)]
    ok = len(iffs) == 1 and norm(iffs[0].test).replace(' ', '') == "self.driver.kind=='__fork__'" and \
        [cz(s) for s in iffs[0].body][0] == 'delself.driver.outs[self.driver_pin]'
    rep.ob('C09.remove', 'squeeze only fork drivers', ok)
    if not ok:
        rep.violate('C09.remove', cmod, f, iffs[0] if iffs else 'fork squeeze', 'Line.remove: outputs are squeezed (deleted + renumbered) only for fork drivers', node=f)


def dangling(rep, cmod):
    """remove_dangling_nodes evaluated (Engine M) on stand-in nodes: every pin pattern of up to three inputs (unconnected, or driven
    by one of two drivers - the same driver may feed several pins) and up to two outputs (connected or not)."""
    import itertools
    from kvstatic import minieval
    from kvstatic.core import ModelError as _ME
    rep.rule('C09.dangling', 'remove_dangling_nodes: a node without connected outputs is removed together with every one of its connected input lines '
                             '(one per pin, also when several pins have the same driver) and the search continues at each driver; otherwise nothing is touched')
    f = cmod.func('Circuit.remove_dangling_nodes')
    bad = None
    n = 0
    try:
        for n_in in range(0, 4):
            for pat in itertools.product((None, 'd1', 'd2'), repeat=n_in):
                for outs in ((), (None,), ('x',), (None, 'x'), (None, None)):
                    n += 1
                    log = []
                    drivers = {k: minieval.NS(name=k) for k in ('d1', 'd2')}
                    lines = []
                    for k, d in enumerate(pat):
                        if d is None:
                            lines.append(None)
                        else:
                            ln = minieval.NS(driver=drivers[d], name=f'l{k}')
                            ln.remove = minieval.stub(lambda ln=ln: log.append(('line', ln.name)))
                            lines.append(ln)
                    root = minieval.NS(ins=lines, outs=[None if o is None else minieval.NS(name='o') for o in outs], name='root')
                    root.remove = minieval.stub(lambda: log.append(('node', 'root')))
                    me = minieval.NS()
                    me.remove_dangling_nodes = minieval.stub(lambda d: log.append(('recurse', d.name)))
                    try:
                        minieval.call_function(f, [me, root])
                    except (IndexError, KeyError, TypeError, AttributeError) as e:
                        log.append(('raises', type(e).__name__))
                    dangling_ = all(o is None for o in outs)
                    want_lines = sorted(f'l{k}' for k, d in enumerate(pat) if d is not None) if dangling_ else []
                    got_lines = sorted(x[1] for x in log if x[0] == 'line')
                    got_rec = {x[1] for x in log if x[0] == 'recurse'}
                    want_rec = {d for d in pat if d is not None} if dangling_ else set()
                    ok = got_lines == want_lines and got_rec == want_rec and ([x for x in log if x[0] == 'node'] == ([('node', 'root')] if dangling_ else [])) \
                        and not any(x[0] == 'raises' for x in log)
                    if not ok and bad is None:
                        bad = (list(pat), list(outs), log)
        ok = bad is None
        rep.ob('C09.dangling', f'evaluated on {n} pin patterns', ok, evals=n)
        if not ok:
            rep.violate('C09.dangling', cmod, f, 'remove_dangling_nodes', f'remove_dangling_nodes: for a node with input pins driven by {bad[0]} and outputs {bad[1]} the effects are {bad[2]}: '
                        f'every connected input line must be removed exactly once (a line left behind keeps a reader that is no longer in the circuit), the node once, and each driver visited', node=f)
    except _ME as e:
        rep.note(f'C09.dangling: remove_dangling_nodes is outside the evaluator subset ({e}); structural form used')
        txt = [cz(s) for s in body_no_doc(f)]
        ok = 'lines=[lforlinroot_node.insiflisnotNone]' in txt and 'drivers=[l.driverforlinlines]' in txt and 'forlinlines:¦l.remove()' .replace('¦', '') in ''.join(txt).replace('¦', '')
        rep.ob('C09.dangling', 'structural form', ok)
        if not ok:
            rep.violate('C09.dangling', cmod, f, 'remove_dangling_nodes', 'remove_dangling_nodes must collect the connected input lines as a list (one per pin), remove each, and recurse into their drivers', node=f)


def ctor_order(rep, cmod):
    rep.rule('C09.ctor', 'constructors: index = len(container) - 1 after the append; implicit pins use free_index() before the line is stored into the pin list')
    f = cmod.func('Line.__init__')
    seq = [cz(s) for s in body_no_doc(f) if not (isinstance(s, ast.Expr) and isinstance(s.value, ast.Constant))]
    def idx(t):
        return seq.index(t) if t in seq else -1
    a, b = idx('self.circuit.lines.append(self)'), idx('self.index=len(self.circuit.lines)-1')
    ok = 0 <= a < b
    rep.ob('C09.ctor', 'Line.index after append', ok)
    if not ok:
        rep.violate('C09.ctor', cmod, f, 'self.index = len(self.circuit.lines) - 1', 'Line.__init__: index must be len(lines) - 1 taken after the append', node=f)
    d1 = idx('ifnotisinstance(driver,tuple):driver=(driver,driver.outs.free_index())')
    r1 = idx('ifnotisinstance(reader,tuple):reader=(reader,reader.ins.free_index())')
    so, si = idx('self.driver.outs[self.driver_pin]=self'), idx('self.reader.ins[self.reader_pin]=self')
    ok = 0 <= d1 < so and 0 <= r1 < si and 0 <= d1 < si and 0 <= r1 < so
    rep.ob('C09.ctor', 'free_index() before stores into pin lists', ok, sample={'rule': 'C09.ctor', 'order': [d1, r1, so, si]})
    if not ok:
        rep.violate('C09.ctor', cmod, f, 'free_index() ordering', 'Line.__init__: implicit pins must be computed with free_index() on the right list (driver.outs / reader.ins) before the line is stored into any pin list', node=f)
    pairs = [('self.driver=driver[0]', 'self.driver_pin=driver[1]'), ('self.reader=reader[0]', 'self.reader_pin=reader[1]')]
    for x, y in pairs:
        ok = idx(x) >= 0 and idx(y) >= 0
        rep.ob('C09.ctor', f'{x}; {y}', ok)
        if not ok:
            rep.violate('C09.ctor', cmod, f, f'{x}; {y}', f'Line.__init__: must record `{x}` and `{y}`', node=f)
    g = cmod.func('Node.__init__')
    seq = [norm(s).replace(' ', '') for s in body_no_doc(g)]
    a = seq.index('circuit.nodes.append(self)') if 'circuit.nodes.append(self)' in seq else -1
    b = seq.index('self.index=len(circuit.nodes)-1') if 'self.index=len(circuit.nodes)-1' in seq else -1
    ok = 0 <= a < b
    rep.ob('C09.ctor', 'Node.index after append', ok)
    if not ok:
        rep.violate('C09.ctor', cmod, g, 'self.index = len(circuit.nodes) - 1', 'Node.__init__: index must be len(nodes) - 1 taken after the append', node=g)
    ok = 'self.ins=GrowingList()' in seq and 'self.outs=GrowingList()' in seq
    rep.ob('C09.ctor', 'pin lists are GrowingLists', ok)
    if not ok:
        rep.violate('C09.ctor', cmod, g, 'self.ins = GrowingList()', 'Node.__init__: ins/outs must be GrowingList instances', node=g)
    # __index__
    for cls in ('Node', 'Line'):
        h = cmod.func(f'{cls}.__index__')
        ok = [norm(s).replace(' ', '') for s in body_no_doc(h)] == ['returnself.index']
        rep.ob('C09.ctor', f'{cls}.__index__', ok)
        if not ok:
            rep.violate('C09.ctor', cmod, h, f'{cls}.__index__', f'{cls}.__index__ must return self.index', node=h)


def stats(rep, cmod):
    rep.rule('C09.stats', 'each __x__ total in Circuit.stats is len() of the container it names')
    f = cmod.func('Circuit.stats')
    want = {'__node__': 'len(self.nodes)', '__cell__': 'len(self.cells)', '__fork__': 'len(self.forks)', '__io__': 'len(self.io_nodes)', '__line__': 'len(self.lines)'}
    got = {}
    for st in find_all(f, ast.Assign):
        t = st.targets[0]
        if isinstance(t, ast.Subscript) and is_name(t.value, 'stats') and isinstance(t.slice, ast.Constant):
            got[t.slice.value] = (norm(st.value).replace(' ', ''), st)
    for k, v in want.items():
        ok = k in got and got[k][0] == v
        rep.ob('C09.stats', k, ok)
        if not ok:
            rep.violate('C09.stats', cmod, f, got[k][1] if k in got else k, f"stats['{k}'] must be {v}", node=got[k][1] if k in got else f)
    ok = got.get('__seq__', ('',))[0] == "stats['__dff__']+stats['__latch__']"
    rep.ob('C09.stats', '__seq__', ok)
    if not ok:
        rep.violate('C09.stats', cmod, f, '__seq__', "stats['__seq__'] must be __dff__ + __latch__", node=f)


def depends(rep, repo):
    """Cell substitution, fork elimination, copy and pickle are edit operations of this property: their rules (C10.pins,
    C10.keys, C10.names, C10.elim, C10.copy, C10.pickle) are part of this check."""
    from checks import c10
    cmod = repo.mod('circuit')
    if not hasattr(rep, '_c10_function'):
        c10.function_rules(rep, repo, cmod, what=('elim', 'substitute'))
    # copying and pickling are edit operations of this property as well: evaluated along the histories of C09.history; structural rules otherwise
    if not getattr(rep, '_c09_history', False):
        c10.copy_rules(rep, cmod)
        c10.pickle_rules(rep, cmod)


def thorough(rep, repo):
    """Thorough tier: the quick rules plus checker self-validation on the C09 slice of the mutation corpus."""
    from kvstatic import thorough as thorough_mod
    thorough_mod.selftest_slice(rep, repo, 'C09')
