"""WaveSim.__init__ and WaveSimCuda.__init__ evaluated (Engine M with array stand-ins). The base-class constructor call is replaced by a recording
stand-in that leaves behind what SimOps.__init__ provides (c_locs_len, c_len, s_len, ops, c_locs, c_caps); the rest of the constructor - its own
statements - is evaluated for several delay annotations (one dataset as a 3-d array, one and three datasets as 4-d arrays), lane counts and
accumulation tables, and the object it leaves is compared with what the kernels and the rest of the class rely on:
  delays   self.delays has shape (datasets, c_locs_len, 2, 2): the given delays in rows 0..lines-1 of every dataset, zero for every other slot
  memory   self.c is (c_len, sims) and TMAX everywhere (every waveform empty; the zero line reads constant 0); self.s is (11, s_len, sims) zeros
  abuf     self.abuf has max(op column 6) + 1 rows and `sims` lanes of zeros (any non-empty dummy when no accumulator is requested)
  simctl   self.simctl_int is (2, sims): row 0 = 0..sims-1 (a seed per lane), row 1 = 2 (random picking)
  super    SimOps.__init__ receives circuit, c_caps, c_caps_min=4, a_ctrl, c_reuse, strip_forks as given
  cuda     WaveSimCuda.__init__ forwards all its arguments to WaveSim.__init__ and mirrors c, s, ops, c_locs, c_caps, delays, simctl_int, abuf to the
           device, each from its own host array."""
from __future__ import annotations

import ast
import copy

from kvstatic.core import ModelError
from kvstatic import minieval, ndarr
from kvstatic.minieval import NS, stub
from kvstatic.ndarr import NDArr, DType

RAISES = (IndexError, KeyError, TypeError, ValueError, AttributeError, ZeroDivisionError, RuntimeError, UnboundLocalError, OverflowError)
PARTS = ('delays', 'memory', 'abuf', 'simctl', 'super', 'cuda')
_MEMO = {}


def with_super_stub(fdef):
    """copy of the constructor in which `super().__init__(...)` is a call of the stand-in __super_init__"""
    f = copy.deepcopy(fdef)
    n = 0
    for node in ast.walk(f):
        if isinstance(node, ast.Call) and isinstance(node.func, ast.Attribute) and node.func.attr == '__init__' and isinstance(node.func.value, ast.Call) \
                and isinstance(node.func.value.func, ast.Name) and node.func.value.func.id == 'super':
            node.func = ast.Name(id='__super_init__', ctx=ast.Load())
            n += 1
    if n != 1:
        raise ModelError(f'{fdef.name}: {n} calls of the base-class constructor')
    return ast.fix_missing_locations(f)


def class_members(me, mod, names, genv):
    """class-level constants and the other methods of the classes, as attributes of the stand-in object"""
    for nm in names:
        cls = mod.cls(nm)
        for st in cls.body:
            if isinstance(st, ast.Assign) and len(st.targets) == 1 and isinstance(st.targets[0], ast.Name) and not hasattr(me, st.targets[0].id):
                try:
                    setattr(me, st.targets[0].id, ast.literal_eval(st.value))
                except ValueError:
                    pass
        minieval.bind_class(me, cls, genv)


def raw(repo):
    from checks import c03_eval
    mod = repo.mod('wave_sim')
    K = c03_eval.constants(mod)
    wi = with_super_stub(mod.func('WaveSim.__init__'))
    ci = with_super_stub(mod.func('WaveSimCuda.__init__'))
    bad = {}
    n = 0
    L, CL, CLEN, SLEN = 4, 9, 14, 3
    for form in ('3d', '4d-1', '4d-3'):
        for sims in (1, 3):
            for acc in ((-1, -1, -1), (2, -1, 0), (0, 0, 0)):
                n += 1
                nds = 3 if form == '4d-3' else 1
                dl = [[[[100.0 * d + 10.0 * l + 2 * p + q + 1 for q in range(2)] for p in range(2)] for l in range(L)] for d in range(nds)]
                delays = NDArr(dl[0] if form == '3d' else dl, dt=DType('float64' if sims == 1 else 'float32'))
                ops = NDArr([[7, k, 0, 0, 0, 0, a, 1, 1] for k, a in enumerate(acc)], dt=DType('int32'))
                tok = {k: NS(tag=k) for k in ('circuit', 'c_caps', 'a_ctrl', 'c_reuse', 'strip_forks')}
                calls = []
                genv = dict(K)
                genv['np'] = ndarr.numpy_ns()
                minieval.module_functions(mod.tree, genv)
                me = NS()

                def super_init(*a, **kw):
                    calls.append((a, kw))
                    me.c_locs_len, me.c_len, me.s_len, me.ops = CL, CLEN, SLEN, ops
                    me.c_locs, me.c_caps = NDArr(list(range(CL))), NDArr([4] * CL)
                    me.circuit = a[0] if a else kw.get('circuit')
                genv['__super_init__'] = stub(super_init)
                class_members(me, mod, ('WaveSim',), genv)
                params = [a.arg for a in wi.args.args][1:]
                vals = dict(tok, delays=delays, sims=sims)
                if any(p_ not in vals for p_ in params):
                    raise ModelError(f'WaveSim.__init__ has parameters the rule does not know: {params}')
                try:
                    minieval.call_function(wi, [me] + [vals[p_] for p_ in params], genv)
                except RAISES as ex:
                    for part in PARTS[:5]:
                        bad.setdefault(part, f'delays given as {form}, sims={sims}, accumulator rows {acc}: raises {type(ex).__name__}: {ex}')
                    continue
                where = f'delays given as {form} ({nds} dataset(s), {L} lines), sims={sims}, accumulator rows {acc}'

                def arr(name):
                    v = getattr(me, name, None)
                    return v if isinstance(v, NDArr) else None
                d = arr('delays')
                if d is None or d.shape != (nds, CL, 2, 2):
                    bad.setdefault('delays', f'{where}: self.delays has shape {getattr(d, "shape", None)}, expected ({nds}, {CL}, 2, 2) = (datasets, c_locs_len, 2, 2)')
                else:
                    got = d.tolist()
                    for ds in range(nds):
                        for l in range(CL):
                            exp = dl[ds][l] if l < L else [[0, 0], [0, 0]]
                            if got[ds][l] != exp:
                                bad.setdefault('delays', f'{where}: self.delays[{ds}, {l}] = {got[ds][l]}, expected {exp} (the annotation for lines, zero for the special and port slots)')
                c, s = arr('c'), arr('s')
                if c is None or c.shape != (CLEN, sims) or any(v != K['TMAX'] for v in c.flatten().tolist()):
                    bad.setdefault('memory', f'{where}: self.c must be a (c_len, sims) = ({CLEN}, {sims}) array holding TMAX everywhere; found shape {getattr(c, "shape", None)}'
                                             f'{"" if c is None else ", values " + str(sorted(set(c.flatten().tolist()))[:3])}')
                if s is None or s.shape != (11, SLEN, sims) or any(v != 0 for v in s.flatten().tolist()):
                    bad.setdefault('memory', f'{where}: self.s must be an (11, s_len, sims) = (11, {SLEN}, {sims}) array of zeros; found shape {getattr(s, "shape", None)}')
                ab = arr('abuf')
                rows = max(acc) + 1
                if ab is None or ab.ndim != 2 or ab.size == 0 or any(v != 0 for v in ab.flatten().tolist()) or (rows > 0 and ab.shape != (rows, sims)):
                    bad.setdefault('abuf', f'{where}: self.abuf must be a zero array with max(op column 6) + 1 = {rows} rows and {sims} lanes'
                                           f'{" (any non-empty dummy when no accumulator is used)" if rows <= 0 else ""}; found shape {getattr(ab, "shape", None)}')
                sc = arr('simctl_int')
                if sc is None or sc.tolist() != [list(range(sims)), [2] * sims]:
                    bad.setdefault('simctl', f'{where}: self.simctl_int must be [[0..sims-1], [2, ...]]; found {None if sc is None else sc.tolist()}')
                # element types, where the constructor states them (an array created without a stated type is not judged)
                for nm, part, want in (('c', 'memory', DType('float32')), ('s', 'memory', DType('float32')), ('abuf', 'abuf', DType('int32')), ('simctl_int', 'simctl', DType('int32')),
                                       ('delays', 'delays', delays.dt)):
                    v = arr(nm)
                    if v is not None and v.dt is not None and v.dt != want:
                        bad.setdefault(part, f'{where}: self.{nm} has element type {v.dt!r}, expected {want!r}'
                                             f'{" (the type of the given annotation)" if nm == "delays" else " (the kernels and the accumulation arithmetic are written for it)"}')
                if getattr(me, 'sims', None) != sims:
                    bad.setdefault('simctl', f'{where}: self.sims is {getattr(me, "sims", None)}')
                if len(calls) != 1:
                    bad.setdefault('super', f'the base-class constructor is called {len(calls)} times')
                else:
                    a, kw = calls[0]
                    names = ['circuit', 'c_caps', 'c_caps_min', 'a_ctrl', 'c_reuse', 'strip_forks']        # SimOps.__init__(circuit, c_caps=1, c_caps_min=1, a_ctrl=None, c_reuse=False, strip_forks=False)
                    got = dict(zip(names, a))
                    got.update(kw)
                    want = dict(tok, c_caps_min=4)
                    for k_, v_ in want.items():
                        g = got.get(k_)
                        if not (g is v_ or (k_ == 'c_caps_min' and g == 4 and not isinstance(g, bool))):
                            bad.setdefault('super', f'SimOps.__init__ receives {k_} = {getattr(g, "tag", g)!r}; WaveSim must pass '
                                                    f'{"c_caps_min=4 (room for TMIN, one edge and the terminator)" if k_ == "c_caps_min" else "its own argument " + k_}')
    # ---- WaveSimCuda
    for _ in (0,):
        n += 1
        tok = {k: NS(tag=k) for k in ('circuit', 'delays', 'sims', 'c_caps', 'a_ctrl', 'c_reuse', 'strip_forks')}
        calls = []
        me = NS()
        host = {}
        genv = dict(K)
        genv['np'] = ndarr.numpy_ns()
        minieval.module_functions(mod.tree, genv)

        def super_init2(*a, **kw):
            calls.append((a, kw))
            for nm in ('c', 's', 'ops', 'c_locs', 'c_caps', 'delays', 'simctl_int', 'abuf'):
                host[nm] = NS(tag='host-' + nm)
                setattr(me, nm, host[nm])
        genv['__super_init__'] = stub(super_init2)
        genv['cuda'] = NS(to_device=stub(lambda v: NS(tag='device', of=v)))
        class_members(me, mod, ('WaveSimCuda', 'WaveSim'), genv)
        params = [a.arg for a in ci.args.args][1:]
        if any(p_ not in tok for p_ in params):
            raise ModelError(f'WaveSimCuda.__init__ has parameters the rule does not know: {params}')
        try:
            minieval.call_function(ci, [me] + [tok[p_] for p_ in params], genv)
        except RAISES as ex:
            bad.setdefault('cuda', f'WaveSimCuda.__init__ raises {type(ex).__name__}: {ex}')
        else:
            for nm in host:
                v = getattr(me, nm, None)
                if not (isinstance(v, NS) and getattr(v, 'tag', None) == 'device' and v.of is host[nm]):
                    bad.setdefault('cuda', f'WaveSimCuda.__init__: self.{nm} is not cuda.to_device(self.{nm}) of its own host array afterwards '
                                           f'(found {getattr(getattr(v, "of", v), "tag", v)!r}): the kernels would work on another array than the one the class reads back')
            if len(calls) != 1:
                bad.setdefault('cuda', f'WaveSimCuda.__init__ calls the base-class constructor {len(calls)} times')
            else:
                a, kw = calls[0]
                names = [x.arg for x in wi.args.args][1:]
                got = dict(zip(names, a))
                got.update(kw)
                for k_, v_ in tok.items():
                    if got.get(k_) is not v_:
                        bad.setdefault('cuda', f'WaveSimCuda.__init__ passes {k_} = {getattr(got.get(k_), "tag", got.get(k_))!r} to WaveSim.__init__ instead of its own argument')
            bd = getattr(me, '_block_dim', None)
            if not (isinstance(bd, tuple) and len(bd) == 2 and all(isinstance(v, int) and v > 0 for v in bd)):
                bad.setdefault('cuda', f'WaveSimCuda._block_dim = {bd!r} is not a pair of positive integers')
    return {'bad': bad, 'evals': n}


TEXT = {
    'delays': 'self.delays = (datasets, c_locs_len, 2, 2): the annotation in the line rows of every dataset, zero elsewhere',
    'memory': 'self.c = TMAX everywhere, (c_len, sims); self.s = zeros, (11, s_len, sims)',
    'abuf': 'self.abuf = zeros with max(op column 6) + 1 rows x sims lanes',
    'simctl': 'self.simctl_int = [[0..sims-1], [2..]]',
    'super': 'SimOps.__init__ receives circuit, c_caps, c_caps_min=4, a_ctrl, c_reuse, strip_forks',
    'cuda': 'WaveSimCuda.__init__ forwards its arguments and mirrors the eight arrays to the device, each from its own host array',
}


def decide(rep, repo, rid, parts):
    """records the verdicts for `parts` under rule `rid`; False when the constructors are outside the evaluator subset"""
    from kvstatic.core import cached_rules
    mod = repo.mod('wave_sim')
    try:
        if id(repo) not in _MEMO:
            _MEMO[id(repo)] = cached_rules(rep, repo, 'wavesim_init_eval.raw', ['wave_sim'], lambda r: raw(repo))
        res = _MEMO[id(repo)]
    except ModelError as e:
        rep.note(f'{rid}: the WaveSim constructors are outside the evaluated subset ({e}); the statement rules decide')
        return False
    for part in parts:
        fn = mod.func('WaveSimCuda.__init__' if part == 'cuda' else 'WaveSim.__init__')
        ok = part not in res['bad']
        rep.ob(rid, f'constructor evaluated ({res["evals"]} configurations): {TEXT[part]}', ok, evals=res['evals'],
               sample={'rule': rid, 'part': part, 'verdict': 'as required' if ok else res['bad'][part]})
        if not ok:
            rep.violate(rid, mod, fn, f'{fn.name}: {part}', res['bad'][part], node=fn)
    return True
