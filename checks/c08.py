"""C08 - signal-memory map and allocator never let live data overlap (map clauses + allocator conservation)."""
from __future__ import annotations

import ast

from kvstatic.core import Repo, Report, ModelError, AnchorError, norm
from kvstatic import simops
from kvstatic.astutil import (find_all, attr_chain, is_name, call_name, body_no_doc, target_names, parents, enclosing,
                              walk_no_nested_funcs)


from kvstatic.paths import cz, czs  # noqa: E402


def run(rep: Report, repo: Repo):
    rep.explanation = (
        'Map clauses decided on the structure of SimOps.__init__: special slots, interface inputs and captured lines are pinned by a '
        '+1 reference that no pass ever removes; free is called only under c_reuse on the per-level free set; each alloc result is stored '
        'with its capacity in one statement and the capacity equals the allocated size; stem aliasing precedes output-slot aliasing; c_len '
        'is the heap high-water mark taken after the last alloc. For the allocator, a path-wise symbolic effect analysis of Heap.alloc / '
        'Heap.free proves two necessary invariants on every path: conservation (sum of chunk sizes changes exactly as current_size does) '
        'and released-list consistency (a deleted chunk key is removed from or replaced in `released`); chunk intervals are tracked '
        'symbolically so that splits and merges are position-exact and merges need a proven adjacency; the returned chunk has the requested size.')
    rep.trusted = ['counting argument in DESIGN.md C08.1: a location with a +1 pin never reaches ref_count <= 0']
    rep.assumptions = ['NOT DECIDED: the full allocator clause (no overlap / coalescing / tiling / true high-water mark under every alloc-free history) - '
                       'only the two path invariants above are decided; a bug that keeps them (e.g. wrong first-fit choice, missed coalescing) is not detected',
                       'capacities positive multiples of 4 as documented']
    smod = map_rules(rep, repo, with_heap=False)
    heap_effects(rep, smod)


def map_rules(rep, repo, with_heap=True):
    from checks import c07
    n0 = len(rep.violations)
    r = _map_rules(rep, repo, with_heap=with_heap)
    c07.structural_guard(rep, repo, n0)
    return r


def _map_rules(rep, repo, with_heap=True):
    """Pins / alloc / alias / size rules of the memory map (also included by C01, C02, C03, C05, C06 whose results
    depend on live signals not being overwritten)."""
    smod, init = simops.simops_init(repo)
    from checks import c07
    body = body_no_doc(init)
    flat = [cz(s) for s in body]
    if c07.evaluated_block(rep, repo, smod, init, ('C08.pins', 'C08.alloc', 'C08.alias', 'C08.size')):
        outside_block(rep, repo, smod, init, flat)
        if with_heap:
            heap_effects(rep, smod)
        return smod
    P = simops.Passes(init)

    # ---- 1. pins
    rep.rule('C08.pins', 'zero/tmp/tmp2, every PI/PPI slot and every line captured by an s_node get ref_count += 1 (stem-substituted); the only decrement is the per-operand one')
    for slot in ('zero_idx', 'tmp_idx', 'tmp2_idx'):
        a = f'(self.c_locs[self.{slot}],self.c_caps[self.{slot}])=(h.alloc(c_caps_min),c_caps_min)'
        a2 = f'self.c_locs[self.{slot}],self.c_caps[self.{slot}]=(h.alloc(c_caps_min),c_caps_min)'
        p = f'ref_count[self.{slot}]+=1'
        ok = (a in flat or a2 in flat) and p in flat
        rep.ob('C08.pins', f'{slot}: allocated and pinned', ok, sample={'rule': 'C08.pins', 'slot': slot, 'ok': ok})
        if not ok:
            rep.violate('C08.pins', smod, init, f'{slot}: alloc + pin', f'special slot {slot} must get its own h.alloc(c_caps_min) and ref_count[self.{slot}] += 1 '
                        f'(otherwise {"the constant-0 line" if slot == "zero_idx" else "a scratch slot"} can be released and handed to a signal)', node=init)
    ok = len(P.snode_loops) >= 2
    if not ok:
        raise AnchorError('SimOps.__init__: loops over enumerate(circuit.s_nodes) not found')
    pin_loop = P.snode_loops[0]
    i, n = target_names(pin_loop.target)
    b = [cz(s) for s in pin_loop.body]
    w1 = f'iflen({n}.outs)>0:(self.c_locs[self.ppi_offset+{i}],self.c_caps[self.ppi_offset+{i}])=(h.alloc(c_caps_min),c_caps_min)ref_count[self.ppi_offset+{i}]+=1'
    w1b = w1.replace(f'(self.c_locs[self.ppi_offset+{i}],self.c_caps[self.ppi_offset+{i}])=', f'self.c_locs[self.ppi_offset+{i}],self.c_caps[self.ppi_offset+{i}]=')
    ok = w1 in b or w1b in b
    rep.ob('C08.pins', 'PI/PPI slots allocated and pinned', ok)
    if not ok:
        rep.violate('C08.pins', smod, init, pin_loop, 'every s_node with outputs must get a PI/PPI waveform slot (h.alloc(c_caps_min)) and ref_count[ppi_offset + i] += 1', node=pin_loop)
    iff = [st for st in pin_loop.body if isinstance(st, ast.If) and cz(st.test) == f'len({n}.ins)>0']
    ok = False
    if len(iff) == 1:
        nm = None
        for st in iff[0].body:
            if isinstance(st, ast.Assign) and simops.stem_subst(st.value) == f'{n}.ins[0]':
                nm = st.targets[0].id
        ok = nm is not None and f'ref_count[{nm}]+=1' in [cz(s) for s in iff[0].body]
    rep.ob('C08.pins', 'captured lines pinned through the stem substitution', ok)
    if not ok:
        rep.violate('C08.pins', smod, init, iff[0] if iff else pin_loop, 'the line feeding input 0 of every s_node must get ref_count += 1 through `stems[l] if stems[l] >= 0 else l` '
                    '(with stripped forks the waveform lives at the stem; without the pin, c_reuse releases an output waveform before it is captured)', node=pin_loop)
    decs = [st for st in walk_no_nested_funcs(init) if isinstance(st, ast.AugAssign) and isinstance(st.op, ast.Sub) and isinstance(st.target, ast.Subscript) and is_name(st.target.value, 'ref_count')]
    ok = len(decs) == 4 and all(any(n2 is st for n2 in ast.walk(P.alloc_op_loop)) for st in decs)
    rep.ob('C08.pins', 'only the four per-operand decrements', ok)
    if not ok:
        rep.violate('C08.pins', smod, init, decs[0] if decs else 'ref_count -= 1', f'ref_count is decremented at {len(decs)} sites; only the four per-operand decrements of the allocation pass are allowed (a pin must never be removed)', node=init)
    asg = [st for st in walk_no_nested_funcs(init) if isinstance(st, ast.Assign) and isinstance(st.targets[0], ast.Subscript) and is_name(st.targets[0].value, 'ref_count')]
    rep.ob('C08.pins', 'ref_count never overwritten', not asg)
    for st in asg:
        rep.violate('C08.pins', smod, init, st, 'ref_count entries must only be incremented/decremented, never overwritten', node=st)
    # order: pins before the allocation pass
    pin_positions = [k for k, s in enumerate(body) if s is pin_loop]
    al = [k for k, s in enumerate(body) if s is P.alloc_level_loop]
    ok = pin_positions and al and pin_positions[0] < al[0] and all(flat.index(f'ref_count[self.{s}]+=1') < al[0] for s in ('zero_idx', 'tmp_idx', 'tmp2_idx') if f'ref_count[self.{s}]+=1' in flat)
    rep.ob('C08.pins', 'pins are placed before the allocation pass', bool(ok))
    if not ok:
        rep.violate('C08.pins', smod, init, 'order of pin statements', 'all pins must be placed before the per-level allocation pass starts releasing', node=init)

    # ---- 2./3. alloc store and capacity
    rep.rule('C08.alloc', 'alloc result and capacity are stored together; recorded capacity = allocated size = max(c_caps_min, c_caps[o]); WaveSim passes c_caps_min=4')
    ab = [cz(s) for s in P.alloc_op_loop.body]
    opv = target_names(P.alloc_op_loop.target)[-1]
    ok = f'o_idx={opv}[1]' in ab and 'cap=max(c_caps_min,c_caps[o_idx])' in ab and \
        ('(self.c_locs[o_idx],self.c_caps[o_idx])=(h.alloc(cap),cap)' in ab or 'self.c_locs[o_idx],self.c_caps[o_idx]=(h.alloc(cap),cap)' in ab)
    rep.ob('C08.alloc', 'output waveform: loc and cap stored in one statement with the allocated size', ok, sample={'rule': 'C08.alloc', 'statements': ab[-3:]})
    if not ok:
        rep.violate('C08.alloc', smod, init, '; '.join(ab[-3:]), 'per op: o_idx = op[1]; cap = max(c_caps_min, c_caps[o_idx]); self.c_locs[o_idx], self.c_caps[o_idx] = h.alloc(cap), cap - '
                    'the recorded capacity must be exactly the allocated size of the output line', node=P.alloc_op_loop)
    outside_block(rep, repo, smod, init, flat)
    ok = 'self.c_locs=np.full((self.c_locs_len,),-1,dtype=np.int32)' in flat and 'self.c_caps=np.zeros((self.c_locs_len,),dtype=np.int32)' in flat
    rep.ob('C08.alloc', 'c_locs starts at -1 (no memory), c_caps at 0', ok)
    if not ok:
        rep.violate('C08.alloc', smod, init, 'c_locs/c_caps init', 'c_locs must start as -1 ("no memory") and c_caps as 0 for all c_locs_len entries', node=init)
    _map_rules_rest(rep, repo, smod, init, P, body, flat, pin_loop, with_heap)
    return smod


def outside_block(rep, repo, smod, init, flat):
    """the parts of the map rules that concern code outside the evaluated block: what the simulators pass to SimOps, the expansion of a uniform capacity"""
    wmod = repo.mod('wave_sim')
    wi = wmod.func('WaveSim.__init__')
    sup = [c for c in find_all(wi, ast.Call) if cz(c.func) == 'super().__init__']
    kws = {k.arg: cz(k.value) for k in sup[0].keywords} if sup else {}
    ok = kws.get('c_caps_min') == '4' and kws.get('c_caps') == 'c_caps' and kws.get('c_reuse') == 'c_reuse' and kws.get('strip_forks') == 'strip_forks' and kws.get('a_ctrl') == 'a_ctrl'
    from checks import wavesim_init_eval
    if wavesim_init_eval.decide(rep, repo, 'C08.alloc', ('super',)):
        ok = True           # decided by evaluating WaveSim.__init__ with a recording base-class constructor
    else:
        rep.ob('C08.alloc', 'WaveSim passes c_caps, c_caps_min=4, a_ctrl, c_reuse, strip_forks to SimOps', ok)
    if not ok:
        rep.violate('C08.alloc', wmod, wi, sup[0] if sup else 'super().__init__', 'WaveSim.__init__ must forward c_caps, a_ctrl, c_reuse, strip_forks and c_caps_min=4 (the kernel needs room for TMIN, one edge and the terminator)', node=wi)
    lmod = repo.mod('logic_sim')
    li = lmod.func('LogicSim.__init__')
    sup = [c for c in find_all(li, ast.Call) if cz(c.func) == 'super().__init__']
    kws = {k.arg: cz(k.value) for k in sup[0].keywords} if sup else {}
    ok = kws.get('c_reuse') == 'c_reuse' and kws.get('strip_forks') == 'strip_forks'
    rep.ob('C08.alloc', 'LogicSim forwards c_reuse, strip_forks', ok)
    if not ok:
        rep.violate('C08.alloc', lmod, li, sup[0] if sup else 'super().__init__', 'LogicSim.__init__ must forward c_reuse and strip_forks unchanged', node=li)
    ok = "ifisinstance(c_caps,int):c_caps=[c_caps]*(len(circuit.lines)+3)" in flat
    rep.ob('C08.alloc', 'uniform capacity expands to every line + 3 special slots', ok)
    if not ok:
        rep.violate('C08.alloc', smod, init, 'c_caps expansion', 'an integer c_caps must expand to len(circuit.lines) + 3 entries', node=init)


def _map_rules_rest(rep, repo, smod, init, P, body, flat, pin_loop, with_heap):
    # ---- 4. aliasing order
    rep.rule('C08.alias', 'stem -> branch copy of (loc, cap) precedes the n.ins[0] -> PPO slot copy; both copy loc and cap together')
    stem_loop = next((l for l in body if isinstance(l, ast.For) and cz(l.iter) == 'enumerate(stems)'), None)
    ppo_loop = P.snode_loops[-1]
    ok = stem_loop is not None
    if ok:
        a, b2 = target_names(stem_loop.target)
        t = [cz(s) for s in stem_loop.body]
        ok = t in ([f'if{b2}>=0:(self.c_locs[{a}],self.c_caps[{a}])=(self.c_locs[{b2}],self.c_caps[{b2}])'], [f'if{b2}>=0:self.c_locs[{a}],self.c_caps[{a}]=(self.c_locs[{b2}],self.c_caps[{b2}])'])
    rep.ob('C08.alias', 'fan-out branch takes loc and cap of its stem', ok)
    if not ok:
        rep.violate('C08.alias', smod, init, stem_loop or 'stem copy loop', 'for every fan-out line with stem >= 0: c_locs[line], c_caps[line] = c_locs[stem], c_caps[stem]', node=stem_loop or init)
    i2, n2 = target_names(ppo_loop.target)
    t = [cz(s) for s in ppo_loop.body]
    w = f'iflen({n2}.ins)>0:(self.c_locs[self.ppo_offset+{i2}],self.c_caps[self.ppo_offset+{i2}])=(self.c_locs[{n2}.ins[0]],self.c_caps[{n2}.ins[0]])'
    ok = t in ([w], [w.replace(f'(self.c_locs[self.ppo_offset+{i2}],self.c_caps[self.ppo_offset+{i2}])=', f'self.c_locs[self.ppo_offset+{i2}],self.c_caps[self.ppo_offset+{i2}]=')]) and ppo_loop is not pin_loop
    rep.ob('C08.alias', 'output slot takes loc and cap of the line at input 0', ok)
    if not ok:
        rep.violate('C08.alias', smod, init, ppo_loop, 'for every s_node with inputs: c_locs[ppo_offset + i], c_caps[ppo_offset + i] = c_locs[n.ins[0]], c_caps[n.ins[0]]', node=ppo_loop)
    if stem_loop is not None:
        ks, kp, ka = body.index(stem_loop), body.index(ppo_loop), body.index(P.alloc_level_loop)
        ok = ka < ks < kp
        rep.ob('C08.alias', 'allocation < stem copy < output-slot copy', ok)
        if not ok:
            rep.violate('C08.alias', smod, init, 'order: allocation, stem copy, PPO copy', 'the stem->branch copy must follow the allocation pass and precede the output-slot copy (an output fed by a stripped branch would otherwise get -1)', node=init)
    # stems table
    st_ok = "stems=np.zeros(self.c_locs_len,dtype='int32')-1" in flat
    sl = next((s for s in body if isinstance(s, ast.If) and cz(s.test) == 'strip_forks'), None)
    if sl is not None:
        t = cz(sl)
        want = czs("""
            for f in circuit.forks.values():
                if f in interface_dict: continue
                prev_line = f.ins[0]
                while prev_line.driver.kind == '__fork__' and prev_line.driver not in interface_dict:
                    prev_line = prev_line.driver.ins[0]
                stem_idx = prev_line.index
                for ol in f.outs:
                    if ol is not None:
                        stems[ol] = stem_idx
            """)
        st_ok = st_ok and [cz(x) for x in sl.body] == [want]
    else:
        st_ok = False
    rep.ob('C08.alias', 'stems maps every fork output to the line before the first fork of its chain', st_ok)
    if not st_ok:
        rep.violate('C08.alias', smod, init, sl or 'stems', 'stems must default to -1 and, when forks are stripped, map each output of a non-interface fork to the index of the line driving the outermost non-interface fork of its chain (port forks are evaluated as PI/PPI and keep their own memory)', node=sl or init)

    # ---- 5. size
    rep.rule('C08.size', 'c_len = h.max_size taken after the last alloc; Heap.alloc raises max_size on the path that grows current_size')
    allocs = [c for c in find_all(init, ast.Call, nested=False) if call_name(c) == 'h.alloc']
    cl = [s for s in body if isinstance(s, ast.Assign) and cz(s) == 'self.c_len=h.max_size']
    ok = len(cl) == 1 and all(c.lineno < cl[0].lineno for c in allocs) and body.index(cl[0]) > body.index(P.alloc_level_loop)
    rep.ob('C08.size', 'self.c_len = h.max_size after the allocation pass', ok)
    if not ok:
        rep.violate('C08.size', smod, init, cl[0] if cl else 'self.c_len', 'c_len must be h.max_size read after the last allocation (signal memory is sized by it)', node=init)
    rep.floor('alloc sites in SimOps.__init__', len(allocs), 5)
    if with_heap:      # the allocator the map is built with (a chunk handed out twice makes two live signals share memory)
        heap_effects(rep, smod)
    return smod


# --------------------------------------------------------------------------- allocator: path-wise effect analysis

def heap_effects(rep, smod):
    from kvstatic import heapsym
    rep.rule('C08.heap-tiling', 'on every path of Heap.alloc/free the chunk intervals after the path cover exactly what the touched chunks covered before '
                                '(+/- the tail by which current_size changed): position-exact splits, merges only between provably adjacent chunks')
    rep.rule('C08.heap-returned', 'the key alloc returns has exactly the requested size and is no longer listed in `released`')
    rep.rule('C08.heap-released', 'a deleted chunk key never stays in `released`; a freed chunk that survives is listed; every listed key is a chunk')
    rep.rule('C08.heap-maxsize', 'max_size is raised to current_size after every growth of current_size')
    rep.rule('C08.heap-keys', 'chunks[...] is only accessed at addresses known to be chunk keys (the freed chunk, entries of `released`, or proven equal to one)')
    rid = {'tiling': 'C08.heap-tiling', 'returned': 'C08.heap-returned', 'released': 'C08.heap-released', 'maxsize': 'C08.heap-maxsize', 'keys': 'C08.heap-keys'}
    # `released` is kept in address order: free() finds the neighbours of a chunk with bisect and takes the last entry as the chunk at the end of
    # the range. Only order-preserving mutators may touch it (insort*, del / pop at a position, replacing the entry at the bisect position).
    rep.rule('C08.heap-order', '`released` is only changed by order-preserving operations (insort, del / pop of an entry, store at a bisect position); never sorted by another key, reversed, appended to')
    nmut = 0
    disordered = set()
    for q, f in sorted(smod.funcs.items()):
        if not q.startswith('Heap.') or q == 'Heap.__init__':
            continue
        for c in find_all(f, ast.Call):
            fn = c.func
            if isinstance(fn, ast.Attribute) and cz(fn.value) == 'self.released':
                nmut += 1
                bad = fn.attr in ('append', 'extend', 'insert', 'reverse', 'appendleft') or (fn.attr == 'sort' and (c.args or c.keywords))
                ok = not bad
                rep.ob('C08.heap-order', f'{q}: self.released.{fn.attr}(...)', ok)
                if bad:
                    disordered.add(q)
                    rep.violate('C08.heap-order', smod, f, c, f'{q}: `{norm(c)[:80]}` can leave `released` out of address order; Heap.free locates the neighbouring free chunks with bisect and '
                                f'trims the range by `released[-1]`: adjacent free chunks are then no longer merged and the heap does not shrink (allocations creep upwards)', node=c)
        for st in find_all(f, ast.Assign):
            for t in st.targets:
                if cz(t) == 'self.released' and not (isinstance(st.value, ast.Call) and call_name(st.value) in ('sorted',) and not st.value.keywords):
                    nmut += 1
                    disordered.add(q)
                    rep.ob('C08.heap-order', f'{q}: self.released = ...', False)
                    rep.violate('C08.heap-order', smod, f, st, f'{q}: `released` is re-bound to `{norm(st.value)[:60]}`; it must stay the address-ordered list free() relies on', node=st)
    for q in ('Heap.alloc', 'Heap.free'):
        f = smod.func(q)
        n = 0
        if q in disordered:
            continue      # the symbolic path analysis models `released` as an ordered list: not applicable to a method that breaks the order
        for res in heapsym.analyse(f, q):
            n += 1
            desc = ' ; '.join(res['trace'])[:300]
            kinds = {k for k, _ in res['problems']}
            for k in ('tiling', 'released', 'keys') + (('returned',) if q == 'Heap.alloc' else ()) + (('maxsize',) if res.get('grows') else ()):
                rep.ob(rid[k], f'{q}: {desc}', k not in kinds,
                       sample={'rule': rid[k], 'function': q, 'path': res['trace']} if n <= 2 and k == 'tiling' else None)
            for k, msg in res['problems']:
                rep.violate(rid[k], smod, f, desc, f'{q}: {msg}', witness={'path': res['trace']}, node=f)
        rep.note(f'{q}: {n} paths analysed symbolically')
        rep.floor(f'{q} paths analysed', n, 4 if q == 'Heap.alloc' else 9)


def depends(rep, repo):
    """Which locations are live at the same time is decided by the schedule pass that releases memory (C07 operand,
    level and release rules): a wrong release (freed twice, freed while a later op of the level still reads it) makes two
    live signals share memory. Rule ids keep their C07. prefix."""
    from checks import c07
    c07.schedule_rules(rep, repo)


def thorough(rep, repo):
    """Thorough tier: the quick rules plus checker self-validation on the C08 slice of the mutation corpus."""
    from kvstatic import thorough as thorough_mod
    thorough_mod.selftest_slice(rep, repo, 'C08')
