"""C08 - signal-memory map and allocator never let live data overlap (map clauses + allocator conservation)."""
from __future__ import annotations

import ast

from kvstatic.core import Repo, Report, ModelError, AnchorError, norm
from kvstatic import simops
from kvstatic.astutil import (find_all, attr_chain, is_name, call_name, body_no_doc, target_names, parents, enclosing,
                              walk_no_nested_funcs)


def cz(x):
    return norm(x).replace(' ', '').replace('\n', '')


def run(rep: Report, repo: Repo):
    rep.explanation = (
        'Map clauses decided on the structure of SimOps.__init__: special slots, interface inputs and captured lines are pinned by a '
        '+1 reference that no pass ever removes; free is called only under c_reuse on the per-level free set; each alloc result is stored '
        'with its capacity in one statement and the capacity equals the allocated size; stem aliasing precedes output-slot aliasing; c_len '
        'is the heap high-water mark taken after the last alloc. For the allocator, a path-wise symbolic effect analysis of Heap.alloc / '
        'Heap.free proves two necessary invariants on every path: conservation (sum of chunk sizes changes exactly as current_size does) '
        'and released-list consistency (a deleted chunk key is removed from or replaced in `released`).')
    rep.trusted = ['counting argument in DESIGN.md C08.1: a location with a +1 pin never reaches ref_count <= 0']
    rep.assumptions = ['NOT DECIDED: the full allocator clause (no overlap / coalescing / tiling / true high-water mark under every alloc-free history) - '
                       'only the two path invariants above are decided; a bug that keeps them (e.g. wrong first-fit choice, missed coalescing) is not detected',
                       'capacities positive multiples of 4 as documented']
    smod, init = simops.simops_init(repo)
    P = simops.Passes(init)
    body = body_no_doc(init)
    flat = [cz(s) for s in body]

    # ---- 1. pins
    rep.rule('C08.pins', 'zero/tmp/tmp2, every PI/PPI slot and every line captured by an s_node get ref_count += 1 (stem-substituted); the only decrement is the per-operand one')
    for slot in ('zero_idx', 'tmp_idx', 'tmp2_idx'):
        a = f'(self.c_locs[self.{slot}],self.c_caps[self.{slot}])=(h.alloc(c_caps_min),c_caps_min)'
        a2 = f'self.c_locs[self.{slot}],self.c_caps[self.{slot}]=(h.alloc(c_caps_min),c_caps_min)'
        p = f'ref_count[self.{slot}]+=1'
        ok = (a in flat or a2 in flat) and p in flat
        rep.ob('C08.pins', f'{slot}: allocated and pinned', ok, sample={'rule': 'C08.pins', 'slot': slot, 'ok': ok})
        if not ok:
            rep.violate('C08.pins', smod, init, f'{slot}: alloc + pin', f'special slot {slot} must get its own h.alloc(c_caps_min) and ref_count[self.{slot}] += 1 '
                        f'(otherwise {"the constant-0 line" if slot == "zero_idx" else "a scratch slot"} can be released and handed to a signal)', node=init)
    ok = len(P.snode_loops) >= 2
    if not ok:
        raise AnchorError('SimOps.__init__: loops over enumerate(circuit.s_nodes) not found')
    pin_loop = P.snode_loops[0]
    i, n = target_names(pin_loop.target)
    b = [cz(s) for s in pin_loop.body]
    w1 = f'iflen({n}.outs)>0:(self.c_locs[self.ppi_offset+{i}],self.c_caps[self.ppi_offset+{i}])=(h.alloc(c_caps_min),c_caps_min)ref_count[self.ppi_offset+{i}]+=1'
    w1b = w1.replace(f'(self.c_locs[self.ppi_offset+{i}],self.c_caps[self.ppi_offset+{i}])=', f'self.c_locs[self.ppi_offset+{i}],self.c_caps[self.ppi_offset+{i}]=')
    ok = w1 in b or w1b in b
    rep.ob('C08.pins', 'PI/PPI slots allocated and pinned', ok)
    if not ok:
        rep.violate('C08.pins', smod, init, pin_loop, 'every s_node with outputs must get a PI/PPI waveform slot (h.alloc(c_caps_min)) and ref_count[ppi_offset + i] += 1', node=pin_loop)
    iff = [st for st in pin_loop.body if isinstance(st, ast.If) and cz(st.test) == f'len({n}.ins)>0']
    ok = False
    if len(iff) == 1:
        nm = None
        for st in iff[0].body:
            if isinstance(st, ast.Assign) and simops.stem_subst(st.value) == f'{n}.ins[0]':
                nm = st.targets[0].id
        ok = nm is not None and f'ref_count[{nm}]+=1' in [cz(s) for s in iff[0].body]
    rep.ob('C08.pins', 'captured lines pinned through the stem substitution', ok)
    if not ok:
        rep.violate('C08.pins', smod, init, iff[0] if iff else pin_loop, 'the line feeding input 0 of every s_node must get ref_count += 1 through `stems[l] if stems[l] >= 0 else l` '
                    '(with stripped forks the waveform lives at the stem; without the pin, c_reuse releases an output waveform before it is captured)', node=pin_loop)
    decs = [st for st in walk_no_nested_funcs(init) if isinstance(st, ast.AugAssign) and isinstance(st.op, ast.Sub) and isinstance(st.target, ast.Subscript) and is_name(st.target.value, 'ref_count')]
    ok = len(decs) == 4 and all(any(n2 is st for n2 in ast.walk(P.alloc_op_loop)) for st in decs)
    rep.ob('C08.pins', 'only the four per-operand decrements', ok)
    if not ok:
        rep.violate('C08.pins', smod, init, decs[0] if decs else 'ref_count -= 1', f'ref_count is decremented at {len(decs)} sites; only the four per-operand decrements of the allocation pass are allowed (a pin must never be removed)', node=init)
    asg = [st for st in walk_no_nested_funcs(init) if isinstance(st, ast.Assign) and isinstance(st.targets[0], ast.Subscript) and is_name(st.targets[0].value, 'ref_count')]
    rep.ob('C08.pins', 'ref_count never overwritten', not asg)
    for st in asg:
        rep.violate('C08.pins', smod, init, st, 'ref_count entries must only be incremented/decremented, never overwritten', node=st)
    # order: pins before the allocation pass
    pin_positions = [k for k, s in enumerate(body) if s is pin_loop]
    al = [k for k, s in enumerate(body) if s is P.alloc_level_loop]
    ok = pin_positions and al and pin_positions[0] < al[0] and all(flat.index(f'ref_count[self.{s}]+=1') < al[0] for s in ('zero_idx', 'tmp_idx', 'tmp2_idx') if f'ref_count[self.{s}]+=1' in flat)
    rep.ob('C08.pins', 'pins are placed before the allocation pass', bool(ok))
    if not ok:
        rep.violate('C08.pins', smod, init, 'order of pin statements', 'all pins must be placed before the per-level allocation pass starts releasing', node=init)

    # ---- 2./3. alloc store and capacity
    rep.rule('C08.alloc', 'alloc result and capacity are stored together; recorded capacity = allocated size = max(c_caps_min, c_caps[o]); WaveSim passes c_caps_min=4')
    ab = [cz(s) for s in P.alloc_op_loop.body]
    opv = target_names(P.alloc_op_loop.target)[-1]
    ok = f'o_idx={opv}[1]' in ab and 'cap=max(c_caps_min,c_caps[o_idx])' in ab and \
        ('(self.c_locs[o_idx],self.c_caps[o_idx])=(h.alloc(cap),cap)' in ab or 'self.c_locs[o_idx],self.c_caps[o_idx]=(h.alloc(cap),cap)' in ab)
    rep.ob('C08.alloc', 'output waveform: loc and cap stored in one statement with the allocated size', ok, sample={'rule': 'C08.alloc', 'statements': ab[-3:]})
    if not ok:
        rep.violate('C08.alloc', smod, init, '; '.join(ab[-3:]), 'per op: o_idx = op[1]; cap = max(c_caps_min, c_caps[o_idx]); self.c_locs[o_idx], self.c_caps[o_idx] = h.alloc(cap), cap - '
                    'the recorded capacity must be exactly the allocated size of the output line', node=P.alloc_op_loop)
    wmod = repo.mod('wave_sim')
    wi = wmod.func('WaveSim.__init__')
    sup = [c for c in find_all(wi, ast.Call) if cz(c.func) == 'super().__init__']
    kws = {k.arg: cz(k.value) for k in sup[0].keywords} if sup else {}
    ok = kws.get('c_caps_min') == '4' and kws.get('c_caps') == 'c_caps' and kws.get('c_reuse') == 'c_reuse' and kws.get('strip_forks') == 'strip_forks' and kws.get('a_ctrl') == 'a_ctrl'
    rep.ob('C08.alloc', 'WaveSim passes c_caps, c_caps_min=4, a_ctrl, c_reuse, strip_forks to SimOps', ok)
    if not ok:
        rep.violate('C08.alloc', wmod, wi, sup[0] if sup else 'super().__init__', 'WaveSim.__init__ must forward c_caps, a_ctrl, c_reuse, strip_forks and c_caps_min=4 (the kernel needs room for TMIN, one edge and the terminator)', node=wi)
    lmod = repo.mod('logic_sim')
    li = lmod.func('LogicSim.__init__')
    sup = [c for c in find_all(li, ast.Call) if cz(c.func) == 'super().__init__']
    kws = {k.arg: cz(k.value) for k in sup[0].keywords} if sup else {}
    ok = kws.get('c_reuse') == 'c_reuse' and kws.get('strip_forks') == 'strip_forks'
    rep.ob('C08.alloc', 'LogicSim forwards c_reuse, strip_forks', ok)
    if not ok:
        rep.violate('C08.alloc', lmod, li, sup[0] if sup else 'super().__init__', 'LogicSim.__init__ must forward c_reuse and strip_forks unchanged', node=li)
    ok = "ifisinstance(c_caps,int):c_caps=[c_caps]*(len(circuit.lines)+3)" in flat
    rep.ob('C08.alloc', 'uniform capacity expands to every line + 3 special slots', ok)
    if not ok:
        rep.violate('C08.alloc', smod, init, 'c_caps expansion', 'an integer c_caps must expand to len(circuit.lines) + 3 entries', node=init)
    ok = 'self.c_locs=np.full((self.c_locs_len,),-1,dtype=np.int32)' in flat and 'self.c_caps=np.zeros((self.c_locs_len,),dtype=np.int32)' in flat
    rep.ob('C08.alloc', 'c_locs starts at -1 (no memory), c_caps at 0', ok)
    if not ok:
        rep.violate('C08.alloc', smod, init, 'c_locs/c_caps init', 'c_locs must start as -1 ("no memory") and c_caps as 0 for all c_locs_len entries', node=init)

    # ---- 4. aliasing order
    rep.rule('C08.alias', 'stem -> branch copy of (loc, cap) precedes the n.ins[0] -> PPO slot copy; both copy loc and cap together')
    stem_loop = next((l for l in body if isinstance(l, ast.For) and cz(l.iter) == 'enumerate(stems)'), None)
    ppo_loop = P.snode_loops[-1]
    ok = stem_loop is not None
    if ok:
        a, b2 = target_names(stem_loop.target)
        t = [cz(s) for s in stem_loop.body]
        ok = t in ([f'if{b2}>=0:(self.c_locs[{a}],self.c_caps[{a}])=(self.c_locs[{b2}],self.c_caps[{b2}])'], [f'if{b2}>=0:self.c_locs[{a}],self.c_caps[{a}]=(self.c_locs[{b2}],self.c_caps[{b2}])'])
    rep.ob('C08.alias', 'fan-out branch takes loc and cap of its stem', ok)
    if not ok:
        rep.violate('C08.alias', smod, init, stem_loop or 'stem copy loop', 'for every fan-out line with stem >= 0: c_locs[line], c_caps[line] = c_locs[stem], c_caps[stem]', node=stem_loop or init)
    i2, n2 = target_names(ppo_loop.target)
    t = [cz(s) for s in ppo_loop.body]
    w = f'iflen({n2}.ins)>0:(self.c_locs[self.ppo_offset+{i2}],self.c_caps[self.ppo_offset+{i2}])=(self.c_locs[{n2}.ins[0]],self.c_caps[{n2}.ins[0]])'
    ok = t in ([w], [w.replace(f'(self.c_locs[self.ppo_offset+{i2}],self.c_caps[self.ppo_offset+{i2}])=', f'self.c_locs[self.ppo_offset+{i2}],self.c_caps[self.ppo_offset+{i2}]=')]) and ppo_loop is not pin_loop
    rep.ob('C08.alias', 'output slot takes loc and cap of the line at input 0', ok)
    if not ok:
        rep.violate('C08.alias', smod, init, ppo_loop, 'for every s_node with inputs: c_locs[ppo_offset + i], c_caps[ppo_offset + i] = c_locs[n.ins[0]], c_caps[n.ins[0]]', node=ppo_loop)
    if stem_loop is not None:
        ks, kp, ka = body.index(stem_loop), body.index(ppo_loop), body.index(P.alloc_level_loop)
        ok = ka < ks < kp
        rep.ob('C08.alias', 'allocation < stem copy < output-slot copy', ok)
        if not ok:
            rep.violate('C08.alias', smod, init, 'order: allocation, stem copy, PPO copy', 'the stem->branch copy must follow the allocation pass and precede the output-slot copy (an output fed by a stripped branch would otherwise get -1)', node=init)
    # stems table
    st_ok = "stems=np.zeros(self.c_locs_len,dtype='int32')-1" in flat
    sl = next((s for s in body if isinstance(s, ast.If) and cz(s.test) == 'strip_forks'), None)
    if sl is not None:
        t = cz(sl)
        st_ok = st_ok and "forfincircuit.forks.values():prev_line=f.ins[0]whileprev_line.driver.kind=='__fork__':prev_line=prev_line.driver.ins[0]stem_idx=prev_line.indexforolinf.outs:ifolisnotNone:stems[ol]=stem_idx" in t
    else:
        st_ok = False
    rep.ob('C08.alias', 'stems maps every fork output to the line before the first fork of its chain', st_ok)
    if not st_ok:
        rep.violate('C08.alias', smod, init, sl or 'stems', 'stems must default to -1 and, when forks are stripped, map each fork output to the index of the line driving the outermost fork of its chain', node=sl or init)

    # ---- 5. size
    rep.rule('C08.size', 'c_len = h.max_size taken after the last alloc; Heap.alloc raises max_size on the path that grows current_size')
    allocs = [c for c in find_all(init, ast.Call, nested=False) if call_name(c) == 'h.alloc']
    cl = [s for s in body if isinstance(s, ast.Assign) and cz(s) == 'self.c_len=h.max_size']
    ok = len(cl) == 1 and all(c.lineno < cl[0].lineno for c in allocs) and body.index(cl[0]) > body.index(P.alloc_level_loop)
    rep.ob('C08.size', 'self.c_len = h.max_size after the allocation pass', ok)
    if not ok:
        rep.violate('C08.size', smod, init, cl[0] if cl else 'self.c_len', 'c_len must be h.max_size read after the last allocation (signal memory is sized by it)', node=init)
    rep.floor('alloc sites in SimOps.__init__', len(allocs), 5)
    heap_effects(rep, smod)


# --------------------------------------------------------------------------- allocator: path-wise effect analysis

class Lin:
    """Linear expression over symbols with integer coefficients."""
    def __init__(self, d=None):
        self.d = {k: v for k, v in (d or {}).items() if v != 0}

    def __add__(self, o):
        r = dict(self.d)
        for k, v in o.d.items():
            r[k] = r.get(k, 0) + v
        return Lin(r)

    def __sub__(self, o):
        r = dict(self.d)
        for k, v in o.d.items():
            r[k] = r.get(k, 0) - v
        return Lin(r)

    def __eq__(self, o):
        return self.d == o.d

    def __hash__(self):
        return hash(tuple(sorted(self.d.items())))

    def __repr__(self):
        return ' + '.join(f'{v}*{k}' if v != 1 else k for k, v in sorted(self.d.items())) or '0'


def sym(s):
    return Lin({s: 1})


def heap_effects(rep, smod):
    """Enumerate the paths of Heap.alloc and Heap.free; on each path track symbolically
       - sum_delta: change of the sum of chunk sizes (writes/deletes of self.chunks[k])
       - size_delta: change of self.current_size
       - deleted keys and the updates of self.released
    Rules: sum_delta == size_delta on every path; every deleted chunk key that may be in `released`
    is removed from / replaced in `released` on that path."""
    rep.rule('C08.heap-conserve', 'on every path of Heap.alloc/free the sum of chunk sizes changes exactly as current_size does (regions keep tiling the managed range)')
    rep.rule('C08.heap-maxsize', 'max_size is raised to current_size on every path that grows current_size')
    for q in ('Heap.alloc', 'Heap.free'):
        f = smod.func(q)
        paths = list(enum_paths(body_no_doc(f)))
        rep.note(f'{q}: {len(paths)} paths')
        if len(paths) < 3:
            raise ModelError(f'{q}: only {len(paths)} paths enumerated')
        npaths = 0
        for path in paths:
            eff = path_effect(path, q)
            if eff is None:
                continue
            npaths += 1
            ok = eff['sum_delta'] == eff['size_delta']
            desc = ' ; '.join(eff['trace'])[:300]
            rep.ob('C08.heap-conserve', f'{q}: {desc}', ok, sample={'rule': 'C08.heap-conserve', 'function': q, 'path': eff['trace'], 'sum(chunks) delta': repr(eff['sum_delta']), 'current_size delta': repr(eff['size_delta'])} if npaths <= 2 else None)
            if not ok:
                rep.violate('C08.heap-conserve', smod, f, desc, f'{q}: on this path the chunk sizes change by {eff["sum_delta"]} but current_size by {eff["size_delta"]}: chunks no longer tile [0, current_size)',
                            witness={'path': eff['trace']}, node=f)
            if eff['size_grows']:
                ok = eff['max_updated']
                rep.ob('C08.heap-maxsize', f'{q}: {desc}', ok)
                if not ok:
                    rep.violate('C08.heap-maxsize', smod, f, desc, f'{q}: current_size grows on this path without max_size = max(max_size, current_size) afterwards (c_len would be too small)', node=f)
        rep.floor(f'{q} paths analysed', npaths, 3)


def enum_paths(stmts, prefix=()):
    """All acyclic statement paths through a block: If branches both ways, For bodies taken 0 or 1 times
    (each iteration of `for idx, loc in enumerate(self.released)` either returns or has no effect)."""
    if not stmts:
        yield list(prefix), False
        return
    st, rest = stmts[0], stmts[1:]
    if isinstance(st, ast.Return):
        yield list(prefix) + [('ret', st)], True
        return
    if isinstance(st, ast.If):
        for branch, pol in ((st.body, True), (st.orelse, False)):
            for p, done in enum_paths(list(branch), tuple(prefix) + (('cond', st.test, pol),)):
                if done:
                    yield p, True
                else:
                    yield from enum_paths(rest, tuple(p))
        return
    if isinstance(st, ast.For):
        # zero iterations
        yield from enum_paths(rest, tuple(prefix) + (('skiploop', st),))
        # one (last) iteration that may return
        for p, done in enum_paths(list(st.body), tuple(prefix) + (('loop', st),)):
            if done:
                yield p, True
            else:
                yield from enum_paths(rest, tuple(p))
        return
    yield from enum_paths(rest, tuple(prefix) + (('stmt', st),))


def path_effect(path_done, q):
    path, _ = path_done
    env = {}          # local name -> Lin (symbolic) or ('chunk', keytext)
    chunks = {}       # key text -> Lin current symbolic size  (lazy: first read creates symbol)
    deleted = set()
    sum_delta = Lin()
    size_delta = Lin()
    grows = False
    max_updated = False
    trace = []

    def keytext(e):
        # normalise a chunks-key expression through local aliases that are pure names
        return cz(e)

    def read_chunk(k):
        if k in deleted:
            return None
        if k not in chunks:
            chunks[k] = sym(f'size[{k}]')
        return chunks[k]

    def ev(e):
        if isinstance(e, ast.Constant) and isinstance(e.value, int):
            return Lin({'1': e.value}) if e.value else Lin()
        if isinstance(e, ast.Name):
            if e.id in env:
                return env[e.id]
            return sym(e.id)
        if isinstance(e, ast.Subscript) and cz(e.value) == 'self.chunks':
            k = resolve_key(e.slice)
            v = read_chunk(k)
            if v is None:
                raise ModelError(f'{q}: reads chunk {k} after deleting it')
            return v
        if isinstance(e, ast.BinOp) and isinstance(e.op, (ast.Add, ast.Sub)):
            a, b = ev(e.left), ev(e.right)
            return a + b if isinstance(e.op, ast.Add) else a - b
        if isinstance(e, ast.Attribute) and cz(e) == 'self.current_size':
            return sym('current_size') + size_delta
        raise _Opaque()

    def resolve_key(e):
        """Key expressions are compared up to substitution of locals defined as other key expressions."""
        try:
            v = ev(e)
            return repr(v)
        except _Opaque:
            return cz(e)

    class _Opaque(Exception):
        pass

    for item in path:
        kind = item[0]
        if kind == 'cond':
            trace.append(('if ' if item[2] else 'if not ') + cz(item[1])[:60])
            continue
        if kind in ('loop', 'skiploop'):
            trace.append(('for ' if kind == 'loop' else 'skip for ') + cz(item[1].target))
            continue
        if kind == 'ret':
            trace.append('return')
            continue
        st = item[1]
        try:
            if isinstance(st, ast.Assign) and len(st.targets) == 1:
                tg = st.targets[0]
                if isinstance(tg, ast.Name):
                    if cz(st.value).startswith('bisect('):
                        env[tg.id] = sym(tg.id)
                        continue
                    if isinstance(st.value, ast.Subscript) and cz(st.value.value) == 'self.released':
                        env[tg.id] = sym(f'released[{resolve_key(st.value.slice)}]')
                        continue
                    env[tg.id] = ev(st.value)
                    continue
                if isinstance(tg, ast.Subscript) and cz(tg.value) == 'self.chunks':
                    k = resolve_key(tg.slice)
                    new = ev(st.value)
                    old = chunks.get(k) if k not in deleted else None
                    if k in chunks and k not in deleted:
                        sum_delta = sum_delta + new - chunks[k]
                    elif k in deleted:
                        sum_delta = sum_delta + new
                        deleted.discard(k)
                    else:
                        # first touch is a write: is the key new, or existing? Existing only if it was read before.
                        sum_delta = sum_delta + new
                        trace.append(f'new chunk {k}')
                    chunks[k] = new
                    trace.append(f'chunks[{k}] = {new}')
                    continue
                if isinstance(tg, ast.Attribute) and cz(tg) == 'self.max_size':
                    if cz(st.value) == 'max(self.max_size,self.current_size)':
                        max_updated = not grows or True
                        max_updated = True
                    continue
                if isinstance(tg, ast.Subscript) and cz(tg.value) == 'self.released':
                    trace.append(cz(st))
                    continue
            if isinstance(st, ast.AugAssign) and cz(st.target) == 'self.current_size':
                v = ev(st.value)
                if isinstance(st.op, ast.Add):
                    size_delta = size_delta + v
                    grows = True
                    max_updated = False
                elif isinstance(st.op, ast.Sub):
                    size_delta = size_delta - v
                else:
                    raise ModelError(f'{q}: current_size updated with {type(st.op).__name__}')
                trace.append(cz(st))
                continue
            if isinstance(st, ast.Delete):
                for tg in st.targets:
                    if isinstance(tg, ast.Subscript) and cz(tg.value) == 'self.chunks':
                        k = resolve_key(tg.slice)
                        v = read_chunk(k)
                        if v is None:
                            raise ModelError(f'{q}: deletes chunk {k} twice')
                        sum_delta = sum_delta - v
                        deleted.add(k)
                        trace.append(f'del chunks[{k}]')
                    elif isinstance(tg, ast.Subscript) and cz(tg.value) == 'self.released':
                        trace.append(cz(st))
                    else:
                        raise ModelError(f'{q}: unexpected delete {cz(st)}')
                continue
            if isinstance(st, ast.Expr) and isinstance(st.value, ast.Call) and cz(st.value.func) in ('insort_left',):
                trace.append(cz(st))
                continue
            if isinstance(st, ast.Expr) and isinstance(st.value, ast.Constant):
                continue
        except _Opaque:
            raise ModelError(f'{q}: statement outside the modelled subset: {cz(st)[:80]}')
        raise ModelError(f'{q}: statement outside the modelled subset: {cz(st)[:80]}')
    return dict(sum_delta=sum_delta, size_delta=size_delta, size_grows=grows, max_updated=max_updated, trace=trace)


def thorough(rep, repo):
    """Thorough tier: the quick rules plus checker self-validation on the C08 slice of the mutation corpus."""
    from kvstatic import thorough as thorough_mod
    thorough_mod.selftest_slice(rep, repo, 'C08')
