"""Capture evaluated (Engine M with array stand-ins): WaveSim.c_to_s + wave_capture_cpu and WaveSimCuda.c_to_s + wave_capture_gpu - their own
statements - are run on stand-in simulators whose output lines hold a family of waveforms, and the rows s[3..10] they write are compared with what
the waveform encodes:
   s[3] initial value (first entry <= TMIN)      s[4] earliest transition time (TMAX if none)     s[5] latest transition time (TMIN if none)
   s[6] final value (parity of the entries before the terminator)                                  s[10] overflow flag (terminator is TMAX_OVL)
   s[8] value at the capture time T = parity of the entries with t < T (strictly: the value just before T), s[7] = s[8] for sd = 0, s[9] = 0;
   for sd > 0, s[7] is the probability that the value at a normally distributed capture time is 1 (compared with 1e-9 tolerance) and s[8]
   is compared only where it is not sampled (probability >= 0.99 or <= 0.01).
The family: initial value 0/1, 0..6 transitions, capacities 4 and 8 (also completely filled lines: terminator in the last entry), overflow marker,
stale entries behind the terminator, capture times 0.0 (before every transition) / at / between / after the transitions and the default (TMAX), sd in {0, 0.75},
an unconnected output (no memory location), three lanes, a launch grid that over-covers the arrays. Bounded evaluation of the code, not a proof."""
from __future__ import annotations

import ast
import math

from kvstatic.core import ModelError
from kvstatic import minieval, ndarr
from kvstatic.minieval import NS, stub
from kvstatic.ndarr import NDArr

RAISES = (IndexError, KeyError, TypeError, ValueError, AttributeError, ZeroDivisionError, RuntimeError, UnboundLocalError, OverflowError)
FIELDS = {3: 'initial value', 4: 'earliest arrival', 5: 'latest stabilisation', 6: 'final value', 7: 'capture probability', 8: 'captured value', 9: 'slack placeholder', 10: 'overflow flag'}
STALE = (2.5, -7.0, 1.0e9)


def waveforms(K):
    """(initial, times, capacity, overflow marker?)"""
    out = []
    base = [1.0, 2.5, 2.75, 6.0, 6.5, 9.0]
    for init in (0, 1):
        for k in range(0, 7):
            for cap in (4, 8):
                if init + k + 1 > cap:
                    continue
                for ovl in (False, True):
                    if ovl and (k + init) % 3 == 1:
                        continue
                    out.append((init, base[:k], cap, ovl))
    out.append((0, [5.0, 2.0, 7.0], 8, False))          # not monotonic: earliest / latest are min / max over all transitions
    return out


def lane_wf(wfs, i, x):
    """the waveform lane x of line i holds: another one of the same capacity (so that a completely filled line stays completely filled)"""
    cap = wfs[i][2]
    group = [k for k, w in enumerate(wfs) if w[2] == cap]
    return wfs[group[(group.index(i) + x) % len(group)]]


def memory(wfs, K, lanes):
    """c rows: each waveform gets its own line; the lanes of a line hold different waveforms of the same capacity"""
    locs, caps, rows = [], [], []
    n = len(wfs)
    for i in range(n):
        cap = wfs[i][2]
        locs.append(len(rows))
        caps.append(cap)
        for k in range(cap):
            rows.append([None] * lanes)
        for x in range(lanes):
            init, times, wcap, ovl = lane_wf(wfs, i, x)
            w = ([K['TMIN']] if init else []) + list(times) + [K.get('TMAX_OVL', K['TMAX']) if ovl else K['TMAX']]
            w += [STALE[(k + x) % 3] if (k % 2) else K['TMIN'] for k in range(cap - len(w))]     # stale entries behind the terminator
            for k in range(cap):
                rows[locs[i] + k][x] = w[k]
        rows.append([123.0] * lanes)        # a gap between lines
    return locs, caps, rows


def expected(wf, K, T, s_sqrt2):
    init, times, cap, ovl = wf
    entries = ([K['TMIN']] if init else []) + list(times)
    e = {3: float(init), 4: min(times) if times else K['TMAX'], 5: max(times) if times else K['TMIN'], 6: float(len(entries) & 1), 9: 0.0, 10: 1.0 if ovl and 'TMAX_OVL' in K else 0.0}
    val = sum(1 for t in entries if t < T) & 1
    if s_sqrt2 > 0:
        p = float(init)
        v = init
        for t in times:
            p += (1 if v == 0 else -1) * 0.5 * (1 - math.erf((t - T) / s_sqrt2))
            v ^= 1
        e[7] = p
        e[8] = 1.0 if p >= 0.99 else (0.0 if p <= 0.01 else None)
    else:
        e[7] = float(val)
        e[8] = float(val)
    return e


def environment(repo, mod, K):
    genv = dict(K)
    genv['np'] = ndarr.numpy_ns()
    genv['math'] = NS(erf=stub(lambda v: math.erf(v)), sqrt=stub(lambda v: math.sqrt(v)))
    for st in repo.mod('__init__').tree.body:
        if isinstance(st, ast.FunctionDef) and st.name == 'cdiv':
            genv['cdiv'] = minieval.LocalFn(st, genv)
    minieval.module_functions(mod.tree, genv)
    return genv


def run_side(repo, mod, K, side, wfs, T, sd, bd):
    """s rows 3..10 per (position, lane) after c_to_s, or an error text"""
    lanes = 3
    locs, caps, rows = memory(wfs, K, lanes)
    n = len(wfs)
    off_i, off_o = 2, 2 + (n + 1)
    # positions: 0..n-1 the waveforms, position n: an output without memory (unconnected)
    c_locs = [-1] * off_i + [-1] * (n + 1) + locs + [-1]
    c_caps = [0] * off_i + [0] * (n + 1) + caps + [0]
    s = NDArr([[[55.0 + r] * lanes for _ in range(n + 1)] for r in range(11)])
    c = NDArr(rows)
    genv = environment(repo, mod, K)
    me = NS(s=s, c=c, sims=lanes, s_len=n + 1, c_locs=NDArr(c_locs), c_caps=NDArr(c_caps), ppi_offset=off_i, ppo_offset=off_o, poppo_s_locs=NDArr(list(range(n))), _block_dim=bd)
    if side == 'gpu':
        kern = mod.func('wave_capture_gpu')
        thread = [0, 0]
        genv['cuda'] = NS(grid=stub(lambda nd: (thread[0], thread[1])), synchronize=stub(lambda: None))
        launches = []

        class Kernel:
            _kv_array = True
            _kv_attrs = ()
            _kv_methods = ()

            def __getitem__(self, cfg):
                if not (isinstance(cfg, tuple) and len(cfg) == 2 and all(isinstance(d, tuple) and len(d) == 2 and all(isinstance(v, int) for v in d) for d in cfg)):
                    raise ModelError('kernel launch configuration')
                grid, block = cfg

                def go(*args):
                    launches.append(cfg)
                    if grid[0] * block[0] * grid[1] * block[1] > 40000:
                        raise ModelError('kernel launch far larger than the arrays')
                    for ty in range(grid[1] * block[1]):
                        for tx in range(grid[0] * block[0]):
                            thread[0], thread[1] = tx, ty
                            minieval.call_function(kern, list(args), genv)
                return stub(go)
        genv['wave_capture_gpu'] = Kernel()
        minieval.bind_class(me, mod.cls('WaveSimCuda'), genv)
        minieval.bind_class(me, mod.cls('WaveSim'), genv)
        fn = mod.func('WaveSimCuda.c_to_s')
    else:
        minieval.bind_class(me, mod.cls('WaveSim'), genv)
        fn = mod.func('WaveSim.c_to_s')
    params = [a.arg for a in fn.args.args][1:]
    vals = {'time': T, 'sd': sd, 'seed': 1}
    if any(p_ not in vals for p_ in params):
        raise ModelError(f'{fn.name} has parameters the rule does not know: {params}')
    try:
        minieval.call_function(fn, [me] + [vals[p_] for p_ in params], genv)
    except RAISES as ex:
        return f'raises {type(ex).__name__}: {ex}', None
    if side == 'gpu':
        if len(launches) != 1:
            return f'launches the capture kernel {len(launches)} times', None
        (gx, gy), (bx, by) = launches[0]
        if gx * bx < lanes or gy * by < n + 1:
            return f'the launch grid {launches[0]} does not cover {lanes} lanes x {n + 1} positions', None
    if me.c.tolist() != rows:
        return 'changes the waveform memory', None
    return None, me.s.tolist()


_MEMO = {}


def raw(repo):
    """{'bad': {(side, row): message}, 'agree': message or None, 'evals': n, 'waveforms': n, 'times': n}; ModelError when outside the evaluator subset"""
    from checks import c03_eval
    mod = repo.mod('wave_sim')
    K = c03_eval.constants(mod)
    bd = (32, 16)
    for st in ast.walk(mod.cls('WaveSimCuda')):
        if isinstance(st, ast.Assign) and len(st.targets) == 1 and ast.unparse(st.targets[0]) == 'self._block_dim':
            try:
                v = ast.literal_eval(st.value)
            except ValueError:
                raise ModelError('WaveSimCuda._block_dim is not a constant')
            if not (isinstance(v, tuple) and len(v) == 2 and all(isinstance(n, int) and 0 < n <= 64 for n in v)):
                raise ModelError('WaveSimCuda._block_dim is not a pair of small positive integers')
            bd = v
    for f in (mod.func('wave_capture_cpu'), mod.func('wave_capture_gpu')):
        for n in ast.walk(f):
            if isinstance(n, ast.Constant) and isinstance(n.value, int) and not isinstance(n.value, bool) and n.value > 64 and n.value not in (0xDEECE66D, 0xffffff, 0xB):
                raise ModelError(f'{f.name}: integer constant {n.value} (a threshold would make the small family inadequate)')
    wfs = waveforms(K)
    n = len(wfs)
    lanes = 3
    times = [K['TMAX'], 0.0, 2.6, 2.75, 100.0]         # default, before every transition (and a falsy number), between, exactly at one, after all
    bad = {}
    agree = None
    evals = 0
    for T in times:
        for sd in (0.0, 0.75):
            if sd > 0 and T >= K['TMAX']:
                continue
            s_sqrt2 = sd * math.sqrt(2)
            results = {}
            for side in ('cpu', 'gpu'):
                evals += 1
                err, s = run_side(repo, mod, K, side, wfs, T, sd, bd)
                if err:
                    for r in range(3, 11):
                        bad.setdefault((side, r), f'capture at time {"TMAX" if T >= K["TMAX"] else T}, sd={sd}: {err}')
                    continue
                results[side] = s
                for y in range(n + 1):
                    for x in range(lanes):
                        got = {r: s[r][y][x] for r in range(3, 11)}
                        if y == n:
                            for r in got:
                                if got[r] != 55.0 + r:
                                    bad.setdefault((side, r), f'an output without memory location (position {y}) gets a capture result in s[{r}]')
                            continue
                        wf = lane_wf(wfs, y, x)
                        exp = expected(wf, K, T, s_sqrt2)
                        for r in range(3, 11):
                            g, e = got[r], exp[r]
                            if e is None or (side, r) in bad:
                                continue
                            ok = abs(float(g) - e) <= 1e-9 if r == 7 and sd > 0 else float(g) == e
                            if not ok:
                                def show(v):
                                    return 'TMAX' if v == K['TMAX'] else 'TMIN' if v == K['TMIN'] else v
                                bad[(side, r)] = (f'waveform initial={wf[0]}, transitions {wf[1]}, capacity {wf[2]}{", overflow marker" if wf[3] else ""}, lane {x}, capture time '
                                                  f'{"TMAX" if T >= K["TMAX"] else T}, sd={sd}: s[{r}] ({FIELDS[r]}) = {show(g)}, the waveform encodes {show(e)}')
            if len(results) == 2 and agree is None:
                a, b = results['cpu'], results['gpu']
                for r in (3, 4, 5, 6, 7, 10):
                    for y in range(n):
                        for x in range(lanes):
                            if a[r][y][x] != b[r][y][x] and agree is None:
                                wf = lane_wf(wfs, y, x)
                                agree = (f'waveform initial={wf[0]}, transitions {wf[1]}, capture time {"TMAX" if T >= K["TMAX"] else T}, sd={sd}: '
                                         f's[{r}] ({FIELDS[r]}) is {a[r][y][x]} on the CPU path and {b[r][y][x]} on the GPU path')
    return {'bad': {f'{k[0]}:{k[1]}': v for k, v in bad.items()}, 'agree': agree, 'evals': evals, 'waveforms': n, 'times': len(times)}


def decide(rep, repo, rid, fields, agree=False):
    """records the verdict for the result rows `fields` under rule `rid`; False when the capture code is outside the evaluator subset"""
    from kvstatic.core import cached_rules
    mod = repo.mod('wave_sim')
    try:
        if id(repo) not in _MEMO:
            _MEMO[id(repo)] = cached_rules(rep, repo, 'capture_eval.raw', ['wave_sim', '__init__'], lambda r: raw(repo))
        res = _MEMO[id(repo)]
    except ModelError as e:
        rep.note(f'{rid}: the capture routines are outside the evaluated subset ({e}); the statement rules decide')
        return False
    for side in ('cpu', 'gpu'):
        msgs = [res['bad'][f'{side}:{r}'] for r in sorted(fields) if f'{side}:{r}' in res['bad']]
        ok = not msgs
        fn = mod.func('wave_capture_cpu' if side == 'cpu' else 'wave_capture_gpu')
        rep.ob(rid, f'{side}: c_to_s evaluated on {res["waveforms"]} waveforms x 3 lanes x {res["times"]} capture times x sd in (0, 0.75): rows {sorted(fields)} of s equal what the waveform encodes', ok,
               evals=res['evals'], sample={'rule': rid, 'side': side, 'waveforms': res['waveforms'], 'verdict': 'as encoded' if ok else msgs[0]})
        if not ok:
            rep.violate(rid, mod, fn, f'{side} capture', f'{"WaveSim.c_to_s / wave_capture_cpu" if side == "cpu" else "WaveSimCuda.c_to_s / wave_capture_gpu"}: {msgs[0]}', node=fn)
    if agree:
        ok = res['agree'] is None
        rep.ob(rid, 'cpu = gpu on s[3..7], s[10] for every waveform, capture time and sd', ok)
        if not ok:
            rep.violate(rid, mod, mod.func('wave_capture_gpu'), 'cpu / gpu capture', f'the CPU and the GPU capture disagree: {res["agree"]}', node=mod.func('wave_capture_gpu'))
    return True
