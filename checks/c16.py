"""C16 - the fault-injection callback sees and controls every evaluated signal (call-site contract)."""
from __future__ import annotations

import ast

from kvstatic.core import Repo, Report, ModelError, AnchorError, norm
from kvstatic.astutil import (find_all, attr_chain, is_name, call_name, find_dispatch_loops, resolve_locs, body_no_doc,
                              target_names, parents, flatten_if_chain)
from checks import c01


def run(rep: Report, repo: Repo):
    rep.explanation = (
        'Call-site contract on LogicSim.c_prop, decided completely from the syntax tree: in each of the three logic arms the '
        'callback parameter is called exactly once per op, after the dispatch chain, guarded at most by `inject_cb is not None` '
        'and by "the op has an output line"; argument 0 is a Line of the circuit selected by op column 1 before it is mapped to a '
        'memory location; argument 1 is a basic-index view of self.c at the output location, which is what downstream ops read.')
    rep.trusted = ['numpy: integer/slice indexing returns a writable view, fancy indexing and .copy() do not']
    rep.assumptions = ['"nothing upstream reflects the overwrite" follows from C07.2 (operands are produced earlier) and is not re-checked here',
                       'ops without an output line (regular node whose output is unconnected writes to the scratch slot) evaluate no signal and need no callback']
    mod = repo.mod('logic_sim')
    cp = mod.func('LogicSim.c_prop')
    params = [a.arg for a in cp.args.args]
    if len(params) < 2:
        raise AnchorError('LogicSim.c_prop lost its callback parameter')
    cb = params[1]
    rep.rule('C16.presence', 'every logic arm calls the callback exactly once per op after the dispatch chain (guards: callback given, op has an output line)')
    rep.rule('C16.identity', 'argument 0 is circuit.lines[<op column 1, unmapped>] - a Line, not a memory location')
    rep.rule('C16.view', 'argument 1 is a basic-index view self.c[<output location>] (writable, read by downstream ops)')
    rep.rule('C16.forward', 'cycle forwards its callback to c_prop; the callback-free fast path is taken only when no callback is given')
    arms = 0
    for m in (2, 4, 8):
        arm = c01.logic_arm(cp, m)
        ds = []
        for st in arm:
            ds += find_dispatch_loops(c01._Holder([st]))
        if len(ds) != 1:
            raise AnchorError(f'LogicSim.c_prop: expected one dispatch loop in the m == {m} arm, found {len(ds)}')
        d = ds[0]
        arms += 1
        if not isinstance(getattr(d, 'ops_iter', d.loop.iter), ast.Subscript):
            rep.rule('C16.columns', 'the per-op loop visits every op once, in op-list order: the callback sees each evaluated signal once, after its operands are final (iterable evaluated)')
            c01.iter_rule(rep, 'C16.columns', mod, cp, d, f'm == {m}')
        resolve_locs(d)
        # reachability of the loop for a given callback
        if m == 2:
            guard_ok = False
            for p in parents(d.loop):
                if isinstance(p, ast.If) and norm(p.test).replace(' ', '') in (f'{cb}isNone', f'{cb}isnotNone'):
                    in_body = any(x is d.loop or any(n is d.loop for n in ast.walk(x)) for x in p.body)
                    is_none = 'isnot' not in norm(p.test).replace(' ', '')
                    # loop must be on the "callback given" side, the other side is the fast path
                    guard_ok = (in_body and not is_none) or (not in_body and is_none)
                    fast = p.body if is_none else p.orelse
                    okf = any(isinstance(n, ast.Call) and call_name(n) == '_prop_cpu' for s in fast for n in ast.walk(s))
                    rep.ob('C16.forward', 'fast path only without callback', guard_ok and okf)
                    if not (guard_ok and okf):
                        rep.violate('C16.forward', mod, cp, p.test, 'm == 2: the callback-free _prop_cpu path must be taken exactly when no callback is given', node=p)
            if not guard_ok:
                rep.violate('C16.forward', mod, cp, d.loop.target, 'm == 2: the per-op loop with the callback is not selected by `inject_cb is None`', node=d.loop)
        calls = [n for st in d.loop.body for n in ast.walk(st) if isinstance(n, ast.Call) and is_name(n.func, cb)]
        in_tail = [c for c in calls if any(any(n is c for n in ast.walk(t)) for t in d.tail)]
        ok = len(calls) == 1 and len(in_tail) == 1
        rep.ob('C16.presence', f'm={m}: {len(calls)} call(s), {len(in_tail)} after the chain', ok,
               sample={'rule': 'C16.presence', 'm': m, 'calls': [norm(c) for c in calls]})
        # ... on every path through the loop body: nothing may leave the iteration before the callback site
        jumps = [n for st in d.loop.body for n in ast.walk(st) if isinstance(n, (ast.Continue, ast.Break, ast.Return))]
        rep.ob('C16.presence', f'm={m}: no continue/break/return in the per-op loop', not jumps)
        for j in jumps:
            rep.violate('C16.presence', mod, cp, j, f'm == {m}: `{norm(j)}` inside the per-op loop leaves the iteration before the callback is invoked: the signals evaluated on that '
                        f'path are never shown to the callback and cannot be overwritten', node=j)
        # the callback sees (and overwrites) the final value: nothing in the iteration writes the output location after the call
        if calls:
            cs = calls[0]
            top = cs
            while getattr(top, '_parent', None) is not None and top._parent is not d.loop:
                top = top._parent
            after = d.loop.body[d.loop.body.index(top) + 1:] if top in d.loop.body else []
            late = []
            for st in after:
                for n in ast.walk(st):
                    tgt = None
                    if isinstance(n, ast.Call) and n.args and isinstance(n.args[0], ast.Subscript) and attr_chain(n.args[0].value) == 'self.c' and not is_name(n.func, cb):
                        tgt = n.args[0]
                    elif isinstance(n, ast.Call) and any(k.arg == 'out' and isinstance(k.value, ast.Subscript) and attr_chain(k.value.value) == 'self.c' for k in n.keywords):
                        tgt = next(k.value for k in n.keywords if k.arg == 'out')
                    elif isinstance(n, (ast.Assign, ast.AugAssign)):
                        for t in (n.targets if isinstance(n, ast.Assign) else [n.target]):
                            b = t
                            while isinstance(b, ast.Subscript) and attr_chain(b.value) != 'self.c':
                                b = b.value
                            if isinstance(b, ast.Subscript) and attr_chain(b.value) == 'self.c':
                                tgt = b
                    if tgt is not None and any(isinstance(x, ast.Name) and x.id in (d.loc_out, d.outvar) for x in ast.walk(tgt.slice)):
                        late.append((st, n))
            rep.ob('C16.view', f'm={m}: nothing writes the output location after the callback', not late)
            for st, n in late[:1]:
                rep.violate('C16.view', mod, cp, f'[m=={m}] {norm(st)[:90]}', f'm == {m}: `{norm(n)[:80]}` changes the output signal after the callback has been called: the callback does not see the value '
                            f'downstream gates read, and a value it writes is modified afterwards', node=st)
        if not calls:
            rep.violate('C16.presence', mod, cp, f'm == {m}: no {cb}(...) call in the per-op loop', f'm == {m}: the callback is never invoked in this logic', node=d.loop)
            continue
        if not ok:
            rep.violate('C16.presence', mod, cp, calls[0], f'm == {m}: the callback must be called exactly once per op, after (not inside) the dispatch chain; found {len(calls)} call(s), {len(in_tail)} after the chain', node=calls[0])
        for c in calls:
            # guards between the call and the loop
            for p in parents(c):
                if p is d.loop:
                    break
                if isinstance(p, (ast.If, ast.IfExp, ast.BoolOp)):
                    conds = []
                    t = p.test if isinstance(p, (ast.If, ast.IfExp)) else None
                    if t is None:
                        continue
                    parts = t.values if isinstance(t, ast.BoolOp) and isinstance(t.op, ast.And) else [t]
                    for part in parts:
                        s = norm(part).replace(' ', '')
                        okg = s == f'{cb}isnotNone' or s in (f'{d.outvar}<len(self.circuit.lines)', f'{d.outvar}<self.zero_idx', f'{d.outvar}!=self.tmp_idx', f'len(self.circuit.lines)>{d.outvar}')
                        rep.ob('C16.presence', f'm={m}: guard {s}', okg)
                        if not okg:
                            rep.violate('C16.presence', mod, cp, part, f'm == {m}: callback is guarded by `{norm(part)}`; only "callback given" and "op has an output line" may suppress it', node=part)
                    if isinstance(p, ast.If) and any(any(n is c for n in ast.walk(x)) for x in p.orelse):
                        rep.violate('C16.presence', mod, cp, p.test, f'm == {m}: callback sits in an else branch', node=p)
                elif isinstance(p, (ast.For, ast.While, ast.Try)):
                    rep.violate('C16.presence', mod, cp, c, f'm == {m}: callback is nested in another {type(p).__name__} inside the per-op loop', node=c)
            if len(c.args) != 2 or c.keywords:
                rep.ob('C16.identity', f'm={m}', False)
                rep.violate('C16.identity', mod, cp, c, f'm == {m}: callback must be called as f(Line, ndarray)', node=c)
                continue
            a0, a1 = c.args
            # identity
            idx_ok = False
            why = ''
            if isinstance(a0, ast.Subscript) and (attr_chain(a0.value) or '').endswith('circuit.lines') and isinstance(a0.slice, ast.Name):
                x = a0.slice.id
                rebound = x in target_names(d.rebinding.targets[0]) if d.rebinding is not None else False
                other = [st for st in find_all(d.loop, (ast.Assign, ast.AugAssign)) if x in (target_names(st.targets[0]) if isinstance(st, ast.Assign) else target_names(st.target))]
                if x == d.outvar and not rebound and not other:
                    idx_ok = True
                elif x == d.outvar or x == d.loc_out:
                    why = f'{x} has been mapped through c_locs: it is a memory location, not the line index'
                else:
                    why = f'{x} is not op column 1'
            elif isinstance(a0, ast.Name):
                why = f'{a0.id} is an integer {"memory location" if a0.id == d.loc_out else "index"}, the contract is f(Line, ndarray)'
            else:
                why = f'{norm(a0)} is not self.circuit.lines[<op column 1>]'
            rep.ob('C16.identity', f'm={m}: {norm(a0)}', idx_ok)
            if not idx_ok:
                rep.violate('C16.identity', mod, cp, f'[m=={m}] {norm(c)}', f'm == {m}: callback identity argument: {why}', node=c)
            # view
            v_ok = isinstance(a1, ast.Subscript) and attr_chain(a1.value) == 'self.c' and is_name(a1.slice, d.loc_out)
            if not v_ok:
                if isinstance(a1, ast.Subscript) and attr_chain(a1.value) != 'self.c':
                    why = f'{norm(a1)} indexes {attr_chain(a1.value)}, not the signal memory self.c'
                elif isinstance(a1, ast.Subscript):
                    why = f'{norm(a1)} is not indexed by the output location {d.loc_out} alone (fancy/other index gives a copy or another signal)'
                else:
                    why = f'{norm(a1)} is not a view of self.c at the output location'
                rep.violate('C16.view', mod, cp, f'[m=={m}] {norm(c)}', f'm == {m}: callback value argument: {why}', node=c)
            rep.ob('C16.view', f'm={m}: {norm(a1)}', v_ok)
    rep.floor('logic arms', arms, 3)
    cyc = mod.func('LogicSim.cycle')
    cparams = [a.arg for a in cyc.args.args]
    calls = [c for c in find_all(cyc, ast.Call) if call_name(c) == 'self.c_prop']
    ok = len(calls) == 1 and cb in cparams and (([norm(a) for a in calls[0].args] == [cb]) or any(k.arg == cb and norm(k.value) == cb for k in calls[0].keywords))
    rep.ob('C16.forward', 'cycle -> c_prop(inject_cb)', ok)
    if not ok:
        rep.violate('C16.forward', mod, cyc, calls[0] if calls else 'self.c_prop()', 'cycle must forward its inject_cb to c_prop', node=calls[0] if calls else cyc)


def untouched_rule(rep, repo):
    """"Leaving the values untouched changes nothing": with a callback the 2-valued logic is computed by the per-op loop of c_prop, without one by
    _prop_cpu. The two are siblings: for every opcode both must store the same Boolean function of the operands (16 rows each, from the code of both
    arms - no oracle involved), and both must have an arm for the same opcodes."""
    from kvstatic import simtab
    from checks.c01 import NotLaneWise
    rep.rule('C16.untouched', 'for every opcode the callback path of c_prop (m == 2) stores the same Boolean function as the callback-free _prop_cpu (sibling arms, 16 rows each)')
    weights, *_ = simtab.wave_operand_bits(repo)
    vt = simtab.var_tables(weights)
    lmod, chains = c01.chains_2v(repo)
    tabs = {}
    for cname, fn, d, arrs in chains:
        resolve_locs(d)
        t = tabs.setdefault(cname, {})
        for const, test, body in d.arms:
            store = [st for st in body if not (isinstance(st, ast.Expr) and isinstance(st.value, ast.Constant))]
            if const in t or len(store) != 1 or not isinstance(store[0], ast.Assign):
                continue
            try:
                t[const] = (c01.bool_table(store[0].value, d.loc_ins, vt, arrs), store[0], fn)
            except (NotLaneWise, ModelError):
                continue        # C01.writers reports an arm that is no lane-wise expression of its operands
    (na, ta), (nb, tb) = list(tabs.items())[:2]
    n = 0
    for const in sorted(set(ta) | set(tb)):
        if const not in ta or const not in tb:
            continue            # a missing arm is C01.exhaust
        n += 1
        ok = ta[const][0] == tb[const][0]
        rep.ob('C16.untouched', const, ok, evals=16)
        if not ok:
            rows = [r for r in range(16) if ((ta[const][0] ^ tb[const][0]) >> r) & 1]
            rep.violate('C16.untouched', lmod, tb[const][2], tb[const][1], f'{nb}: the arm for {const} computes {tb[const][0]:#018b}, the arm of {na} computes {ta[const][0]:#018b}: '
                        f'passing a callback that touches nothing changes the result of every {const} gate on the operand rows {rows}', node=tb[const][1])
    rep.floor('opcodes compared between the two 2-valued paths', n, 30)


def depends(rep, repo):
    """"Overwriting a signal is equivalent to driving it with the overwritten values - every downstream result reflects it and nothing
    else does" rests on every op reading exactly the lines wired to its node's input pins (interface ops: the PI/PPI slot): the operand
    wiring rule of C01 is part of this check."""
    from checks import c01
    c01.wiring_rules(rep, repo)
    untouched_rule(rep, repo)
    # ... and on the memory map: the location a PO/PPO is captured from must be the location of the line feeding it, and
    # distinct live lines must not share memory (C08 map rules), otherwise an overwrite is not seen downstream or leaks sideways
    from checks import c08
    c08.map_rules(rep, repo)


def thorough(rep, repo):
    """Thorough tier: the quick rules plus checker self-validation on the C16 slice of the mutation corpus."""
    from kvstatic import thorough as thorough_mod
    thorough_mod.selftest_slice(rep, repo, 'C16')
