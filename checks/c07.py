"""C07 - the published level partition is a valid parallel schedule (structural clauses)."""
from __future__ import annotations

import ast

from kvstatic.core import Repo, Report, ModelError, AnchorError, norm
from kvstatic import simops
from kvstatic.astutil import (find_all, attr_chain, is_name, call_name, body_no_doc, target_names, parents, enclosing,
                              walk_no_nested_funcs)


from kvstatic.paths import cz  # noqa: E402


def run(rep: Report, repo: Repo):
    rep.explanation = (
        'Structure of the greedy levelisation and of the launch loops: the level test, the reference-count pass and the release pass '
        'all read op columns 2..5 through the same stem substitution; a new level starts iff some operand was produced in the current '
        'level; the output level is recorded after the test; releases happen after all allocations of a level; both c_prop loops launch '
        'levels in order over [op_start, op_stop); GPU threads outside the range return; stores of a thread go to its own output '
        'waveform or through atomic add. A two-line induction (DESIGN.md C07.2) lifts this to "every operand is produced in an earlier level".')
    rep.trusted = ['each line has exactly one driver (C09), so distinct ops of a level write distinct waveforms given the memory map of C08']
    rep.assumptions = ['BOUNDED: the schedule is decided by evaluating the levelisation / allocation block on 100 generated stand-in netlists x 8 option combinations; for every circuit it is argued, not mechanised',
                       'scratch-slot sharing by ops with unconnected outputs is outside "signals" and not examined']
    schedule_rules(rep, repo)
    launches(rep, repo)
    thread_writes(rep, repo)


EVAL_TEXT = {
    'C07.operands': 'the scheduling passes leave the op table as translated (evaluated)',
    'C07.level': 'level boundaries partition the op list and every operand (through its stem when forks are stripped) is produced in an earlier level (evaluated)',
    'C07.release': 'nothing is released unless c_reuse; a region is released once, only after the allocations of the last level that reads it (evaluated)',
    'C08.pins': 'zero / scratch slots, input slots and lines captured by ports and state elements have memory that is never released (evaluated)',
    'C08.alloc': 'every produced line has a region; recorded capacity >= max(c_caps_min, requested) and <= the region (evaluated)',
    'C08.alias': 'a stripped branch has (loc, cap) of its stem, an output slot those of the line at input 0 (evaluated)',
    'C08.size': 'c_len covers every region ever handed out (evaluated)',
}


def evaluated_block(rep, repo, smod, init, rules):
    """The schedule / memory-map block of SimOps.__init__ evaluated on stand-in circuits (kvstatic/mapeval.py, Engine M). Registers the given rule
    ids with their evaluated obligations and returns True; returns False when the block is outside the evaluator subset (the structural
    rules decide then). The evaluation is done once per run and shared by the C07 and C08 rule groups."""
    from kvstatic import mapeval
    if not hasattr(repo, '_mapeval'):
        try:
            from kvstatic import core as _core
            key = _core.cache_key(repo, 'mapeval', ['sim'])
            hit = _core.cache_get(key)
            if hit is None:
                hit = ('v', mapeval.run(init))
                _core.cache_put(key, hit)
            repo._mapeval = hit[1]
            repo._mapeval_why = 'an integer constant in the block is no op-column number (possible size threshold)'
        except ModelError as e:
            repo._mapeval = None
            repo._mapeval_why = str(e)
            repo._mapeval_outside = True
    res = repo._mapeval
    if res is None:
        rep.note(f'{rules[0][:3]}: schedule / memory-map block of SimOps.__init__ is outside the evaluated subset ({repo._mapeval_why}); the structural rules decide')
        return False
    for rid in rules:
        rep.rule(rid, EVAL_TEXT[rid])
        bad = res['findings'].get(rid)
        rep.ob(rid, f'contract on {res["evaluations"]} evaluations ({res["circuits"]} stand-in circuits x strip_forks x c_reuse x capacities)', bad is None,
               evals=res['evaluations'] if rid == rules[0] else 0, sample={'rule': rid, 'evaluations': res['evaluations'], 'ok': bad is None})
        if bad is not None:
            msg, desc = bad
            rep.violate(rid, smod, init, rid.split('.')[1], f'SimOps.__init__: {msg} - on {desc}', node=init)
    rep.floor('evaluations of the schedule / memory-map block', res['evaluations'], 400)
    if 'C07.level' in rules:
        # the evaluation does not model element widths: the integer tables of the block (levels, reference counts, stems, locations, capacities) index and
        # count lines and ops of arbitrarily large circuits, so a dtype narrower than 32 bits wraps (a wrapped reference count releases memory that is still read)
        from kvstatic import mapeval
        WIDE = {"'int32'", "'int64'", "'uint32'", "'uint64'", 'np.int32', 'np.int64', 'np.uint32', 'np.uint64', 'np.intp', 'int', "'int'", "'intp'", 'np.int_'}
        nt = 0
        for st in mapeval.block(init):
            for c in find_all(st, ast.Call):
                if (call_name(c) or '') in ('np.zeros', 'np.full', 'np.asarray', 'np.array', 'np.empty', 'np.ones'):
                    dt = next((norm(k.value) for k in c.keywords if k.arg == 'dtype'), None)
                    if dt is None:
                        continue
                    nt += 1
                    ok = dt in WIDE
                    rep.ob('C07.level', f'integer table `{norm(c)[:60]}` is at least 32 bits wide', ok)
                    if not ok:
                        rep.violate('C07.level', smod, init, c, f'SimOps.__init__: the table `{norm(c)[:80]}` has element type {dt}: levels, reference counts, line indices and memory locations of a '
                                    f'large circuit do not fit (a wrapped reference count releases memory that is still read; a wrapped level puts a reader into its producer\'s level)', node=c)
        rep.floor('integer tables of the schedule block with an explicit dtype', nt, 4)
    return True


def structural_guard(rep, repo, n0):
    """The structural rules are templates over the per-op form of the block. When the block could not be evaluated because it uses constructs
    outside the evaluator (a vectorised or otherwise restructured block) a template mismatch says nothing about the behaviour: the findings
    the templates added are withdrawn and the run ends undecided (exit 2). Templates that all match still decide (the block has the known shape)."""
    if getattr(repo, '_mapeval_outside', False) and len(rep.violations) > n0:
        # the templates apply when their anchors are there: both passes read the four operand columns through the stem substitution, per op
        try:
            _, init = simops.simops_init(repo)
            P = simops.Passes(init)
            shape = all(sorted(c for c, _ in P.operand_names(loop)[0].values()) == [2, 3, 4, 5] for loop in (P.level_loop, P.alloc_op_loop))
        except (ModelError, AnchorError):
            shape = False
        if shape:
            return
        first = rep.violations[n0]
        del rep.violations[n0:]
        raise ModelError(f'schedule / memory-map block of SimOps.__init__ is outside the evaluated subset ({repo._mapeval_why}) and does not have the per-op shape '
                         f'the structural rules are written for ([{first.rule}] {first.message[:140]}): undecided')


def schedule_rules(rep, repo):
    n0 = len(rep.violations)
    _schedule_rules(rep, repo)
    structural_guard(rep, repo, n0)


def _schedule_rules(rep, repo):
    """Level test / reference counting / release structure of SimOps.__init__ (also included by the checks of
    properties whose results depend on a valid schedule: C01, C02, C03, C05, C06)."""
    smod, init = simops.simops_init(repo)
    if evaluated_block(rep, repo, smod, init, ('C07.operands', 'C07.level', 'C07.release')):
        return
    P = simops.Passes(init)

    # ---- 1. one operand set, three passes
    rep.rule('C07.operands', 'level test, ref-count increment, decrement and release each use all four operand columns 2..5 through the stem substitution')
    sub_l, plain_l = P.operand_names(P.level_loop)
    sub_a, plain_a = P.operand_names(P.alloc_op_loop)
    for nm, loop, sub, plain in (('levelisation pass', P.level_loop, sub_l, plain_l), ('allocation pass', P.alloc_op_loop, sub_a, plain_a)):
        cols = sorted(c for c, _ in sub.values())
        ok = cols == [2, 3, 4, 5]
        rep.ob('C07.operands', f'{nm}: stem-substituted columns {cols}', ok, sample={'rule': 'C07.operands', 'pass': nm, 'names': {k: v[0] for k, v in sub.items()}})
        if not ok:
            missing = [c for c in (2, 3, 4, 5) if c not in cols]
            st = plain[0][2] if plain else loop
            rep.violate('C07.operands', smod, init, f'{nm}: operand columns {cols}', f'{nm}: operand columns {missing} are not read through `stems[op[k]] if stems[op[k]] >= 0 else op[k]` '
                        f'(a stripped fan-out branch would be levelled/released instead of its stem)', node=st)
    # level test
    ifs = [st for st in P.level_loop.body if isinstance(st, ast.If)]
    lt = [st for st in ifs if 'current_level' in norm(st.test)]
    if len(lt) != 1:
        raise ModelError('SimOps.__init__: level test not found in the levelisation loop')
    lt = lt[0]
    t = lt.test
    parts = t.values if isinstance(t, ast.BoolOp) and isinstance(t.op, ast.Or) else [t]
    used = set()
    shape_ok = True
    for p in parts:
        if isinstance(p, ast.Compare) and len(p.ops) == 1 and isinstance(p.ops[0], ast.GtE) and norm(p.comparators[0]) == 'current_level' \
                and isinstance(p.left, ast.Subscript) and is_name(p.left.value, 'levels') and isinstance(p.left.slice, ast.Name):
            used.add(p.left.slice.id)
        else:
            shape_ok = False
    cols = sorted(sub_l[n][0] for n in used if n in sub_l)
    ok = shape_ok and cols == [2, 3, 4, 5] and len(parts) == 4
    rep.ob('C07.operands', f'level test over operand columns {cols}', ok)
    if not ok:
        missing = [c for c in (2, 3, 4, 5) if c not in cols]
        rep.violate('C07.operands', smod, init, t, f'level test must be `levels[x] >= current_level` or-ed over all four stem-substituted operands; '
                    f'{"operand column(s) " + str(missing) + " missing: an op could read a signal produced in its own level" if missing else "unrecognised shape"}', node=lt)
    # increments
    def counted(loop, op):
        names = []
        for st in ast.walk(loop):
            if isinstance(st, ast.AugAssign) and isinstance(st.op, op) and isinstance(st.target, ast.Subscript) and is_name(st.target.value, 'ref_count') \
                    and isinstance(st.target.slice, ast.Name) and norm(st.value) == '1':
                names.append((st.target.slice.id, st))
        return names
    inc = counted(P.level_loop, ast.Add)
    cols = sorted(sub_l[n][0] for n, _ in inc if n in sub_l)
    ok = cols == [2, 3, 4, 5]
    rep.ob('C07.operands', f'ref_count += 1 over columns {cols}', ok)
    if not ok:
        rep.violate('C07.operands', smod, init, f'ref_count increments over {cols}', f'every operand column 2..5 must be counted once (stem-substituted); found {cols}: an uncounted reader lets the memory be released while still needed', node=P.level_loop)
    dec = counted(P.alloc_op_loop, ast.Sub)
    cols = sorted(sub_a[n][0] for n, _ in dec if n in sub_a)
    ok = cols == [2, 3, 4, 5]
    rep.ob('C07.operands', f'ref_count -= 1 over columns {cols}', ok)
    if not ok:
        rep.violate('C07.operands', smod, init, f'ref_count decrements over {cols}', f'every operand column 2..5 must be released once per reading op (stem-substituted); found {cols}', node=P.alloc_op_loop)
    rel = []
    for st in P.alloc_op_loop.body:
        if isinstance(st, ast.If) and cz(st.test).startswith('ref_count[') and cz(st.test).endswith(']<=0') and len(st.body) == 1:
            n = st.test.left.slice.id if isinstance(st.test.left.slice, ast.Name) else None
            ok1 = cz(st.body[0]) == f'free_set.add(self.c_locs[{n}])'
            rel.append((n, ok1, st))
    cols = sorted(sub_a[n][0] for n, ok1, _ in rel if n in sub_a and ok1)
    ok = cols == [2, 3, 4, 5]
    rep.ob('C07.operands', f'release candidates over columns {cols}', ok)
    if not ok:
        rep.violate('C07.operands', smod, init, f'free_set candidates over {cols}', 'for each operand x: `if ref_count[x] <= 0: free_set.add(self.c_locs[x])` with the same x that was decremented', node=P.alloc_op_loop)
    # decrement precedes its release test
    body = P.alloc_op_loop.body
    for n, _, st in rel:
        d = [s for nn, s in dec if nn == n]
        ok = bool(d) and body.index(d[0]) < body.index(st) if d and d[0] in body else False
        rep.ob('C07.operands', f'{n}: decrement before release test', ok)
        if not ok:
            rep.violate('C07.operands', smod, init, st, f'ref_count[{n}] must be decremented before it is tested for release', node=st)

    # ---- 2. level test and assignment
    rep.rule('C07.level', 'levels start at 0, current_level at 1; a new level starts at the op that reads a current-level signal; output level recorded after the test; starts/stops partition the op list')
    inits = {cz(st) for st in body_no_doc(init)}
    for w, why in (("levels=np.zeros(self.c_locs_len,dtype='int32')", 'levels of interface/zero slots are 0'),
                   ('current_level=1', 'first level is 1 (> level of inputs)'), ('level_starts=[0]', 'first level starts at op 0')):
        ok = w in inits
        rep.ob('C07.level', w, ok)
        if not ok:
            rep.violate('C07.level', smod, init, w, f'SimOps.__init__: `{w}` required ({why})', node=init)
    b = [cz(s) for s in lt.body]
    it = target_names(P.level_loop.target)
    ok = b == ['current_level+=1', f'level_starts.append({it[0]})'] and not lt.orelse
    rep.ob('C07.level', 'new level: current_level += 1; level_starts.append(i)', ok)
    if not ok:
        rep.violate('C07.level', smod, init, lt, 'on a level break: current_level += 1 and level_starts.append(<op index>) - nothing else', node=lt)
    lb = P.level_loop.body
    asg = [st for st in lb if isinstance(st, ast.Assign) and cz(st) == f'levels[{it[1]}[1]]=current_level']
    ok = len(asg) == 1 and lb.index(asg[0]) > lb.index(lt)
    rep.ob('C07.level', 'levels[op[1]] = current_level after the test', ok)
    if not ok:
        rep.violate('C07.level', smod, init, asg[0] if asg else 'levels[op[1]] = current_level', 'the output line level must be set to current_level after the level test, on every path (not inside the if)', node=P.level_loop)
    # ... and on every iteration: no op may skip the test, the level record or the reference counting
    skips = [n for n in ast.walk(P.level_loop) if isinstance(n, (ast.Continue, ast.Break, ast.Return))]
    rep.ob('C07.level', 'the levelisation loop has no continue/break/return', not skips)
    for n in skips:
        rep.violate('C07.level', smod, init, n, 'the levelisation loop must run completely for every op (level test, levels[op[1]] = current_level, reference counts): '
                    'an op that skips it keeps level 0 / is not counted, so its readers may be put into its own level', node=n)
    for w in ("self.level_starts=np.asarray(level_starts,dtype='int32')", "self.level_stops=np.asarray(level_starts[1:]+[len(self.ops)],dtype='int32')"):
        ok = w in inits
        rep.ob('C07.level', w, ok)
        if not ok:
            rep.violate('C07.level', smod, init, w, f'SimOps.__init__: `{w}` required: level k covers ops [starts[k], starts[k+1]) and the last level ends at len(ops)', node=init)

    # ---- 3. release after the level's allocations
    rep.rule('C07.release', 'every alloc of a level is inside the per-op loop; every free is after that loop, inside the per-level loop, under c_reuse, over the free set of that level')
    for starts, stops, got, want in P.level_partition():
        ok = got == want
        rep.ob('C07.release', f'allocation pass covers ops {want} for level_starts={starts} level_stops={stops}', ok)
        if not ok:
            rep.violate('C07.release', smod, init, f'ops per allocation-pass iteration for level_starts={starts}, level_stops={stops}: {got}',
                        f'the allocation pass must treat exactly the ops [level_starts[k], level_stops[k]) in its k-th iteration; it covers {got} instead of {want}: '
                        f'an op of another level is charged to this level\'s release set, so memory it still reads can be handed out within its own level', node=P.alloc_level_loop)
    allocs = [c for c in find_all(P.alloc_level_loop, ast.Call) if call_name(c) == 'h.alloc']
    frees = [c for c in find_all(init, ast.Call, nested=False) if call_name(c) == 'h.free']
    ok = len(allocs) == 1 and all(any(n is c for n in ast.walk(P.alloc_op_loop)) for c in allocs)
    rep.ob('C07.release', 'alloc inside per-op loop', ok)
    if not ok:
        rep.violate('C07.release', smod, init, allocs[0] if allocs else 'h.alloc', 'the output waveform of each op must be allocated inside the per-op loop of its level', node=P.alloc_level_loop)
    ok = len(frees) == 1
    if ok:
        fc = frees[0]
        in_level = any(n is fc for n in ast.walk(P.alloc_level_loop))
        in_op = any(n is fc for n in ast.walk(P.alloc_op_loop))
        top = next(st for st in P.alloc_level_loop.body if any(n is fc for n in ast.walk(st)))
        after = P.alloc_level_loop.body.index(top) > P.alloc_level_loop.body.index(P.alloc_op_loop)
        guard = isinstance(top, ast.If) and cz(top.test) == 'c_reuse' and not top.orelse
        floop = enclosing(fc, ast.For)
        over = floop is not None and cz(floop.iter) == 'free_set' and [cz(a) for a in fc.args] == [cz(floop.target)]
        ok = in_level and not in_op and after and guard and over
    rep.ob('C07.release', 'free after the per-op loop, per level, under c_reuse, over free_set', ok, sample={'rule': 'C07.release', 'free': norm(frees[0]) if frees else None})
    if not ok:
        rep.violate('C07.release', smod, init, frees[0] if frees else 'h.free', 'memory may only be released after all allocations of the level (after the per-op loop, inside the per-level loop), guarded by c_reuse, for the locations collected in free_set; '
                    'otherwise a location can be handed out again within the level that still reads it', node=frees[0] if frees else init)
    fs = [st for st in P.alloc_level_loop.body if isinstance(st, ast.Assign) and cz(st) == 'free_set=set()']
    ok = len(fs) == 1 and P.alloc_level_loop.body.index(fs[0]) < P.alloc_level_loop.body.index(P.alloc_op_loop)
    rep.ob('C07.release', 'free_set is per level', ok)
    if not ok:
        rep.violate('C07.release', smod, init, 'free_set = set()', 'free_set must be re-created for every level before the per-op loop', node=P.alloc_level_loop)



def gpu_threads_evaluated(rep, wmod, g):
    """wave_eval_gpu - its own statements - evaluated (Engine M) for every thread (x, y) of a grid that over-covers a level: the thread must hand exactly
    op row op_start + y and lane sim_start + x to the kernel when both are inside [op_start, op_stop) x [sim_start, sim_stop), and must touch nothing otherwise."""
    from kvstatic import minieval
    NS, stub = minieval.NS, minieval.stub
    params = [a.arg for a in g.args.args]
    bad = None
    n = 0
    for op_start, op_stop, sim_start, sim_stop in ((3, 5, 0, 2), (0, 1, 1, 3), (6, 7, 0, 1)):
        from kvstatic.ndarr import NDArr
        ops = NDArr([[100 + r, r, 0, 0, 0, 0, -1, 0, 0] for r in range(7)])
        for x in range(0, 5):
            for y in range(0, 5):
                n += 1
                calls = []
                thread = (x, y)

                def kern(op, *rest):
                    calls.append((op[0] - 100, rest[3] if len(rest) > 3 else None))
                    return (0, 0)
                env = {'cuda': NS(grid=stub(lambda nd: thread), atomic=NS(add=stub(lambda *a: None))), '_wave_eval_gpu': stub(kern)}
                minieval.module_functions(wmod.tree, env)
                vals = dict(ops=ops, op_start=op_start, op_stop=op_stop, cbuf=minieval.Rec(), c_locs=minieval.Rec(), c_caps=minieval.Rec(), abuf=minieval.Rec(), sim_start=sim_start,
                            sim_stop=sim_stop, delays=minieval.Rec(), simctl_int=minieval.Rec(), seed=1)
                if any(p_ not in vals for p_ in params):
                    raise ModelError('wave_eval_gpu has parameters the rule does not know')
                try:
                    minieval.call_function(g, [vals[p_] for p_ in params], env)
                    got = calls
                except (IndexError, KeyError, TypeError) as e:
                    got = type(e).__name__
                want = [(op_start + y, sim_start + x)] if (op_start + y < op_stop and sim_start + x < sim_stop) else []
                if got != want and bad is None:
                    bad = (x, y, op_start, op_stop, sim_start, sim_stop, got, want)
    ok = bad is None
    rep.ob('C07.launch', f'wave_eval_gpu: thread (x, y) evaluates op op_start + y for lane sim_start + x iff both are inside the level / lane range ({n} threads evaluated)', ok, evals=n)
    if not ok:
        x, y, a, b_, c, d, got, want = bad
        rep.violate('C07.launch', wmod, g, 'thread -> (sim, op) mapping and range guards', f'wave_eval_gpu: thread (x={x}, y={y}) of a launch over ops [{a}, {b_}) and lanes [{c}, {d}) '
                    f'evaluates (op row, lane) = {got}, expected {want}: every op of the level must be evaluated exactly once per lane and nothing outside the level', node=g)
    return True


def launches(rep, repo):
    rep.rule('C07.launch', 'both c_prop loops launch levels in order over zip(level_starts, level_stops); CPU iterates range(op_start, op_stop); GPU threads with op_idx >= op_stop or sim >= sim_stop return; synchronize after the loop')
    wmod = repo.mod('wave_sim')
    for q in ('WaveSim.c_prop', 'WaveSimCuda.c_prop'):
        f = wmod.func(q)
        loops = [st for st in body_no_doc(f) if isinstance(st, ast.For)]
        ok = len(loops) == 1 and cz(loops[0].iter) == 'zip(self.level_starts,self.level_stops)' and cz(loops[0].target) in ('(op_start,op_stop)', 'op_start,op_stop')
        rep.ob('C07.launch', f'{q}: level loop', ok)
        if not ok:
            rep.violate('C07.launch', wmod, f, loops[0].iter if loops else q, f'{q} must launch one level at a time, in order, over zip(self.level_starts, self.level_stops)', node=f)
            continue
        calls = [c for c in find_all(loops[0], ast.Call) if (isinstance(c.func, ast.Subscript) and attr_chain(c.func.value) == 'wave_eval_gpu') or call_name(c) == 'level_eval_cpu']
        ok = len(calls) == 1 and [cz(a) for a in calls[0].args[:3]] == ['self.ops', 'op_start', 'op_stop']
        rep.ob('C07.launch', f'{q}: kernel receives (ops, op_start, op_stop)', ok)
        if not ok:
            rep.violate('C07.launch', wmod, f, calls[0] if calls else q, f'{q}: the level kernel must be called with (self.ops, op_start, op_stop, ...)', node=f)
        if q == 'WaveSimCuda.c_prop':
            b = body_no_doc(f)
            syn = [st for st in b if cz(st) == 'cuda.synchronize()']
            ok = len(syn) == 1 and b.index(syn[0]) > b.index(loops[0])
            rep.ob('C07.launch', 'cuda.synchronize() after the level loop', ok)
            if not ok:
                rep.violate('C07.launch', wmod, f, 'cuda.synchronize()', 'WaveSimCuda.c_prop must synchronize after the last level', node=f)
            gd = [st for st in loops[0].body if isinstance(st, ast.Assign) and cz(st) == 'grid_dim=self._grid_dim(sims,op_stop-op_start)']
            ok = len(gd) == 1
            rep.ob('C07.launch', 'grid covers sims x (op_stop - op_start)', ok)
            if not ok:
                rep.violate('C07.launch', wmod, f, 'grid_dim', 'the grid must cover sims x (op_stop - op_start) threads', node=f)
    f = wmod.func('level_eval_cpu')
    loops = [st for st in body_no_doc(f) if isinstance(st, ast.For)]
    ok = len(loops) == 1 and cz(loops[0].iter) == 'range(op_start,op_stop)'
    rep.ob('C07.launch', 'level_eval_cpu iterates range(op_start, op_stop)', ok)
    if not ok:
        rep.violate('C07.launch', wmod, f, loops[0].iter if loops else 'level_eval_cpu', 'level_eval_cpu must evaluate exactly the ops op_start..op_stop-1', node=f)
    g = wmod.func('wave_eval_gpu')
    b = [cz(s) for s in body_no_doc(g)]
    need = ['(x,y)=cuda.grid(2)', 'sim=sim_start+x', 'op_idx=op_start+y', 'ifsim>=sim_stop:return', 'ifop_idx>=op_stop:return', 'op=ops[op_idx]']
    alt = {'(x,y)=cuda.grid(2)': 'x,y=cuda.grid(2)'}
    pos = []
    try:
        if gpu_threads_evaluated(rep, wmod, g):
            need = []           # decided by evaluating the kernel for every thread of an over-sized grid
    except ModelError as e:
        rep.note(f'C07.launch: wave_eval_gpu is outside the evaluated subset ({e}); the statement rules decide')
    for w in need:
        p = b.index(w) if w in b else (b.index(alt[w]) if alt.get(w) in b else -1)
        pos.append(p)
        rep.ob('C07.launch', f'wave_eval_gpu: {w}', p >= 0)
        if p < 0:
            rep.violate('C07.launch', wmod, g, w, f'wave_eval_gpu: `{w}` required (thread -> (sim, op) mapping and range guards)', node=g)
    if need and all(p >= 0 for p in pos):
        ok = pos[3] < pos[5] and pos[4] < pos[5]
        rep.ob('C07.launch', 'range guards precede the op fetch', ok)
        if not ok:
            rep.violate('C07.launch', wmod, g, 'guards after op fetch', 'wave_eval_gpu: threads outside [op_start, op_stop) x [sim_start, sim_stop) must return before touching ops', node=g)
    cd = repo.mod('__init__')
    cdiv = cd.func('cdiv')
    ok = [cz(s) for s in body_no_doc(cdiv)] == ['return-(x//-y)']
    rep.ob('C07.launch', 'cdiv is ceiling division', ok)
    if not ok:
        rep.violate('C07.launch', cd, cdiv, 'cdiv', 'cdiv must be ceiling division, otherwise trailing ops/sims get no thread', node=cdiv)
    gd = wmod.func('WaveSimCuda._grid_dim')
    ok = [cz(s) for s in body_no_doc(gd)] == ['return(cdiv(x,self._block_dim[0]),cdiv(y,self._block_dim[1]))']
    rep.ob('C07.launch', '_grid_dim = ceil(x / bx), ceil(y / by)', ok)
    if not ok:
        rep.violate('C07.launch', wmod, gd, '_grid_dim', '_grid_dim must be (cdiv(x, block_dim[0]), cdiv(y, block_dim[1]))', node=gd)
    # mock launcher enumerates every (x, y) of the grid exactly once
    L = None
    for n in ast.walk(cd.tree):
        if isinstance(n, ast.FunctionDef) and n.name == 'inner' and len(find_all(n, ast.For)) == 4:
            L = n
    ok = L is not None
    if ok:
        t = cz(L)
        ok = 'forgrid_xinrange(grid_dim[0]):forgrid_yinrange(grid_dim[1]):forblock_xinrange(block_dim[0]):forblock_yinrange(block_dim[1]):' in t \
            and 'outer.x=grid_x*block_dim[0]+block_x' in t and 'outer.y=grid_y*block_dim[1]+block_y' in t and 'self.func(*args,**kwargs)' in t
    rep.ob('C07.launch', 'mock launcher visits every (x, y) once', ok)
    if not ok:
        rep.violate('C07.launch', cd, 'MockCuda.jit', 'Launcher.__getitem__.inner', 'the pure-Python grid launcher must run func once for every x = grid_x*block_x_dim + block_x, y = grid_y*block_y_dim + block_y', node=L)


def thread_writes(rep, repo):
    rep.rule('C07.writes', 'a thread stores only into its own output waveform cbuf[z_mem + ..., sim] or adds to abuf atomically')
    wmod = repo.mod('wave_sim')
    f = wmod.func('_wave_eval')
    zm = [st for st in body_no_doc(f) if isinstance(st, ast.Assign) and cz(st) == 'z_mem=c_locs[z_idx]']
    zi = [st for st in body_no_doc(f) if isinstance(st, ast.Assign) and cz(st) == 'z_idx=op[1]']
    ok = len(zm) == 1 and len(zi) == 1
    rep.ob('C07.writes', 'z_mem = c_locs[op[1]]', ok)
    if not ok:
        rep.violate('C07.writes', wmod, f, 'z_mem = c_locs[z_idx]', '_wave_eval: the output waveform base must be c_locs[op[1]]', node=f)
    n = 0
    for st in ast.walk(f):
        tg = None
        if isinstance(st, ast.Assign):
            tg = st.targets[0]
        elif isinstance(st, ast.AugAssign):
            tg = st.target
        if isinstance(tg, ast.Subscript):
            n += 1
            base = norm(tg.value)
            ok = base == 'cbuf' and isinstance(tg.slice, ast.Tuple) and len(tg.slice.elts) == 2 and cz(tg.slice.elts[1]) == 'sim' \
                and (cz(tg.slice.elts[0]) == 'z_mem' or cz(tg.slice.elts[0]).startswith('z_mem+'))
            rep.ob('C07.writes', f'_wave_eval: {cz(tg)}', ok)
            if not ok:
                rep.violate('C07.writes', wmod, f, st, f'_wave_eval stores to {norm(tg)}; a thread may only write cbuf[z_mem + k, sim] (its own op, its own lane)', node=st)
    rep.floor('stores in _wave_eval', n, 3)
    g = wmod.func('wave_eval_gpu')
    stores = [st for st in ast.walk(g) if isinstance(st, (ast.Assign, ast.AugAssign)) and isinstance(st.targets[0] if isinstance(st, ast.Assign) else st.target, ast.Subscript)]
    rep.ob('C07.writes', 'wave_eval_gpu has no plain array store', not stores)
    for st in stores:
        rep.violate('C07.writes', wmod, g, st, 'wave_eval_gpu must not store to shared arrays directly (accumulators are shared between ops of a level: use cuda.atomic.add)', node=st)
    at = [c for c in find_all(g, ast.Call) if call_name(c) == 'cuda.atomic.add']
    ok = len(at) == 1 and cz(at[0].args[0]) == 'abuf' and cz(at[0].args[1]) == '(a_loc,sim)'
    rep.ob('C07.writes', 'cuda.atomic.add(abuf, (a_loc, sim), ...)', ok)
    if not ok:
        rep.violate('C07.writes', wmod, g, at[0] if at else 'cuda.atomic.add', 'wave_eval_gpu must accumulate with cuda.atomic.add(abuf, (a_loc, sim), ...)', node=g)


def depends(rep, repo):
    """The schedule is computed over stem-substituted operands and over the memory map: the stem table, the keep-alive
    references and the allocation of the special slots (C08 map rules) decide which line an op really reads and when its
    memory may be handed out again. Rule ids keep their C08. prefix."""
    from checks import c08
    c08.map_rules(rep, repo)


def thorough(rep, repo):
    """Thorough tier: the quick rules plus checker self-validation on the C07 slice of the mutation corpus."""
    from kvstatic import thorough as thorough_mod
    thorough_mod.selftest_slice(rep, repo, 'C07')
