"""C12 - multi-valued operators agree across both storage formats and the algebra."""
from __future__ import annotations

import ast

from kvstatic.core import Repo, Report, ModelError, AnchorError, norm
from kvstatic import oracle
from kvstatic.mvlogic import Logic
from kvstatic.tt import LaneViolation, ShapeViolation
from kvstatic.astutil import find_all, attr_chain, is_name, call_name, body_no_doc, walk_no_nested_funcs, parents

CH = '0X-1PRFN'


def rowstr(row, k, radix=8):
    return ''.join(CH[(row // radix ** j) % radix] for j in range(k))


def compare(rep, rid, mod, fdef, what, got, exp, k, radix, mask=None):
    n = radix ** k
    m = (1 << (2 if radix == 4 else 3)) - 1
    bad = [r for r in range(n) if (got[r] if mask is None else got[r] & mask) != exp[r]]
    ok = not bad
    sample = None
    if k <= 2:
        r0 = (n * 5) // 7
        sample = {'rule': rid, 'case': what, 'row': rowstr(r0, k, radix), 'code': CH[got[r0] & 7] if got[r0] < 8 else got[r0], 'oracle': CH[exp[r0]], 'ok': ok}
    rep.ob(rid, what, ok, evals=n, sample=sample)
    if not ok:
        w = [{'operands': rowstr(r, k, radix), 'code': (CH[got[r]] if got[r] < 8 else hex(got[r])), 'oracle': CH[exp[r]]} for r in bad[:6]]
        rep.violate(rid, mod, fdef, what, f'{what}: {len(bad)} of {n} operand combinations differ from the documented algebra', witness=w, node=fdef)
    return ok


def op_tables(rep, lg: Logic, rid='C12.bp'):
    """All code-derived operator tables, compared with the oracle. Returns dict for reuse (C02, C05)."""
    mod = lg.mod
    tabs = {}
    nops = 0
    for nplanes, pre, radix in ((3, 'bp8v', 8), (2, 'bp4v', 4)):
        for op in ('buf', 'not', 'and', 'or', 'xor'):
            fname = f'{pre}_{op}'
            f = lg.func(fname)
            ks = (1,) if op in ('buf', 'not') else (1, 2, 3, 4)
            for k in ks:
                try:
                    res0, ret_out, steps = lg.bp_table(fname, k, nplanes, junk=0)
                    res1, _, _ = lg.bp_table(fname, k, nplanes, junk=1)
                    res2, _, _ = lg.bp_table(fname, k, nplanes, junk=2)
                except ShapeViolation as e:
                    rep.ob(rid, f'{fname}/{k}', False)
                    rep.violate(rid.split('.')[0] + '.broadcast', mod, f, e.node if e.node is not None else fname, f'{fname}: {e}', node=e.node or f)
                    continue
                except LaneViolation as e:
                    rep.ob(rid, f'{fname}/{k}', False)
                    rep.violate('C12.lanewise', mod, f, e.node if e.node is not None else fname, f'{fname}: {e}', node=e.node or f)
                    continue
                nops += 1
                if res0 != res1 or res0 != res2:
                    rep.violate(rid, mod, f, f'{fname} arity {k}', f'{fname}: result depends on the previous content of `out` (not fully overwritten)', node=f)
                exp = oracle.op_table(op, k, radix)
                if radix == 4:
                    pass
                compare(rep, rid, mod, f, f'{fname} arity {k}', res0, exp, k, radix)
                tabs[(fname, k)] = res0
                if not ret_out:
                    rep.note(f'{fname} does not return its out argument')
    return tabs, nops


def mv_tables(rep, lg: Logic, tabs):
    mod = lg.mod
    n = 0
    for op in ('not', 'and', 'or', 'xor'):
        fname = f'_mv_{op}'
        f = lg.func(fname)
        ks = (1,) if op == 'not' else (1, 2, 3, 4)
        for k in ks:
            try:
                res0, steps = lg.mv_table(fname, k, junk=0)
                res1, _ = lg.mv_table(fname, k, junk=1)
                res2, _ = lg.mv_table(fname, k, junk=2)
            except ShapeViolation as e:
                rep.ob('C12.mv', f'{fname}/{k}', False)
                rep.violate('C12.broadcast', mod, f, e.node if e.node is not None else fname, f'{fname}: {e}', node=e.node or f)
                continue
            except LaneViolation as e:
                rep.ob('C12.mv', f'{fname}/{k}', False)
                rep.violate('C12.lanewise', mod, f, e.node if e.node is not None else fname, f'{fname}: {e}', node=e.node or f)
                continue
            n += 1
            if res0 != res1 or res0 != res2:
                rep.violate('C12.mv', mod, f, f'{fname} arity {k}', f'{fname}: result depends on the previous content of `out`', node=f)
            exp = oracle.op_table(op, k, 8)
            compare(rep, 'C12.mv', mod, f, f'{fname} arity {k}', res0, exp, k, 8)
            tabs[(fname, k)] = res0
            bp = tabs.get((f'bp8v_{op}', k))
            if bp is not None:
                ok = bp == res0
                rep.ob('C12.agree', f'{fname} vs bp8v_{op} arity {k}', ok, evals=8 ** k)
                if not ok:
                    bad = [r for r in range(8 ** k) if bp[r] != res0[r]]
                    rep.violate('C12.agree', mod, f, f'{fname} vs bp8v_{op} arity {k}',
                                f'array-based and bit-parallel {op.upper()} disagree on {len(bad)} of {8 ** k} combinations',
                                witness=[{'operands': rowstr(r, k), 'mv': CH[res0[r] & 7], 'bp': CH[bp[r] & 7]} for r in bad[:6]], node=f)
    return n


def check_wrappers(rep, lg: Logic):
    """mv_not/mv_or/mv_and/mv_xor pass operands in order to the worker and return out; out= discipline for
    every function with an `out=None` parameter."""
    mod = lg.mod
    rep.rule('C12.wrap', 'public mv_* wrappers hand (out, operands in order) to their worker and return out')
    for op, nargs in (('not', 1), ('or', 2), ('and', 2), ('xor', 2)):
        f = lg.func(f'mv_{op}')
        params = [a.arg for a in f.args.args]
        calls = [c for c in find_all(f, ast.Call) if call_name(c) == f'_mv_{op}']
        ok = len(calls) == 1 and params[-1] == 'out' and [norm(a) for a in calls[0].args] == ['out'] + params[:-1] and len(params) == nargs + 1
        rep.ob('C12.wrap', f'mv_{op}', ok, sample={'rule': 'C12.wrap', 'call': norm(calls[0]) if calls else None, 'params': params})
        if not ok:
            rep.violate('C12.wrap', mod, f, calls[0] if calls else f'mv_{op}', f'mv_{op}{tuple(params)} must call _mv_{op}(out, {", ".join(params[:-1])})', node=calls[0] if calls else f)
    rep.rule('C12.out', 'an `out=None` array parameter is tested with `is None`, never by truthiness; the result is written into it and returned')
    n = 0
    for name, f in lg.funcs.items():
        params = f.args.args
        defaults = f.args.defaults
        has_out = False
        for a, d in zip(params[len(params) - len(defaults):], defaults):
            if a.arg == 'out' and isinstance(d, ast.Constant) and d.value is None:
                has_out = True
        if not has_out:
            continue
        n += 1
        bad = []
        for node in walk_no_nested_funcs(f):
            if isinstance(node, ast.BoolOp) and any(is_name(v, 'out') for v in node.values):
                bad.append(node)
            elif isinstance(node, ast.UnaryOp) and isinstance(node.op, ast.Not) and is_name(node.operand, 'out'):
                bad.append(node)
            elif isinstance(node, (ast.If, ast.IfExp, ast.While)) and is_name(node.test, 'out'):
                bad.append(node.test)
        ok = not bad
        rep.ob('C12.out', f'{name}: truthiness', ok)
        for b in bad:
            rep.violate('C12.out', mod, f, b, f'{name}: `{norm(b)}` takes the truth value of a caller-supplied array (raises ValueError for size > 1, '
                        f'silently replaces an all-zero single element); test `out is None` instead', node=b)
        # out must be (re)bound only to itself-or-new, and returned
        rets = [r for r in find_all(f, ast.Return, nested=False)]
        okr = bool(rets) and all(r.value is not None and is_name(r.value, 'out') for r in rets)
        rep.ob('C12.out', f'{name}: returns out', okr)
        if not okr:
            rep.violate('C12.out', mod, f, rets[0] if rets else name, f'{name}: must return the `out` array on every path', node=rets[0] if rets else f)
        # a rebind of out other than the None-default idiom loses the caller's array
        for st in find_all(f, ast.Assign, nested=False):
            if len(st.targets) == 1 and is_name(st.targets[0], 'out'):
                v = st.value
                guarded = False
                if isinstance(v, ast.BoolOp) and isinstance(v.op, ast.Or) and is_name(v.values[0], 'out'):
                    guarded = True    # reported above as truthiness
                if isinstance(v, ast.IfExp) and 'out is None' in norm(v.test) or isinstance(v, ast.IfExp) and 'out is not None' in norm(v.test):
                    guarded = True
                p = getattr(st, '_parent', None)
                if isinstance(p, ast.If) and 'out is None' in norm(p.test) and st in p.body:
                    guarded = True
                if not guarded:
                    rep.violate('C12.out', mod, f, st, f'{name}: `out` is rebound unconditionally; a caller-supplied output array does not receive the result', node=st)
        # the result array the function allocates itself holds 3-bit codes: it must be a uint8 array (numpy's default is float64)
        for c in find_all(f, ast.Call, nested=False):
            if call_name(c) in ('np.empty', 'np.zeros', 'np.ones', 'np.full', 'np.empty_like', 'np.zeros_like') and any(
                    isinstance(p, ast.Assign) and any(is_name(t, 'out') for t in p.targets) for p in parents(c)):
                dt = next((norm(k.value) for k in c.keywords if k.arg == 'dtype'), None)
                if dt is None and call_name(c) in ('np.full',) and len(c.args) >= 3:
                    dt = norm(c.args[2])
                if dt is None and call_name(c) in ('np.empty', 'np.zeros', 'np.ones') and len(c.args) >= 2:
                    dt = norm(c.args[1])
                okd = dt in ('np.uint8', "'uint8'", 'numpy.uint8') or (call_name(c).endswith('_like') and dt is None)
                rep.ob('C12.out', f'{name}: allocated result dtype {dt}', okd)
                if not okd:
                    rep.violate('C12.out', mod, f, c, f'{name}: the result array is allocated with dtype {dt} (`{norm(c)[:70]}`); multi-valued codes are uint8 - a float result breaks '
                                f'every operator applied to it afterwards (bitwise operations on floats raise TypeError) and the conversion to the bit-parallel format', node=c)
    rep.floor('functions with out= parameter', n, 6)


def algebra_identities(rep, lg, tabs):
    """Boolean restriction and De Morgan on the code-derived tables."""
    mod = lg.mod
    rep.rule('C12.demorgan', 'NOT(AND(x..)) = OR(NOT x..) and dual, on all 8^k tuples of the code-derived tables')
    rep.rule('C12.bool', 'restricted to 0/1 the operators are the Boolean operators')
    for pre, radix in (('bp8v', 8), ('_mv', 8), ('bp4v', 4)):
        nt = tabs.get((f'{pre}_not', 1))
        if nt is None:
            continue
        for k in (2, 3, 4):
            at, ot = tabs.get((f'{pre}_and', k)), tabs.get((f'{pre}_or', k))
            if at is None or ot is None:
                continue
            bad = []
            for row in range(radix ** k):
                vs = [(row // radix ** j) % radix for j in range(k)]
                nrow = sum((nt[v] & (radix - 1)) * radix ** j for j, v in enumerate(vs))
                if nt[at[row] & (radix - 1)] != ot[nrow] or nt[ot[row] & (radix - 1)] != at[nrow]:
                    bad.append(row)
            ok = not bad
            rep.ob('C12.demorgan', f'{pre} arity {k}', ok, evals=radix ** k)
            if not ok:
                rep.violate('C12.demorgan', mod, lg.func(f'{pre}_and'), f'{pre}_and/_or/_not arity {k}', f'De Morgan duality fails on {len(bad)} combinations',
                            witness=[rowstr(r, k, radix) for r in bad[:6]], node=lg.func(f'{pre}_and'))
        # boolean restriction
        B = {0: 0, 1: 3}
        for op, fn in (('and', lambda *x: int(all(x))), ('or', lambda *x: int(any(x))), ('xor', lambda *x: sum(x) & 1)):
            for k in (1, 2, 3, 4):
                t = tabs.get((f'{pre}_{op}', k))
                if t is None:
                    continue
                ok = True
                for bits in range(2 ** k):
                    bs = [(bits >> j) & 1 for j in range(k)]
                    row = sum(B[b] * radix ** j for j, b in enumerate(bs))
                    if t[row] != B[fn(*bs)]:
                        ok = False
                rep.ob('C12.bool', f'{pre}_{op} arity {k}', ok, evals=2 ** k)
                if not ok:
                    rep.violate('C12.bool', mod, lg.func(f'{pre}_{op}'), f'{pre}_{op} arity {k}', f'{pre}_{op} restricted to 0/1 is not Boolean {op.upper()}', node=lg.func(f'{pre}_{op}'))


def check_constants(rep, lg):
    rep.rule('C12.consts', 'the eight value constants are 0..7 with bit0 final, bit1 initial, bit2 activity')
    exp = dict(ZERO=0, UNKNOWN=1, UNASSIGNED=2, ONE=3, PPULSE=4, RISE=5, FALL=6, NPULSE=7)
    for k, v in exp.items():
        ok = lg.consts.get(k) == v
        rep.ob('C12.consts', k, ok)
        if not ok:
            rep.violate('C12.consts', lg.mod, '<module>', f'{k} = {lg.consts.get(k)}', f'{k} must be {v:#05b}', node=lg.nodes.get(k))


def run(rep: Report, repo: Repo):
    rep.explanation = (
        'Engine A interprets the bodies of bp4v_*/bp8v_* (on bit-planes) and _mv_* (bit-blasted uint8) over an exact '
        'finite abstract domain: every variable is the complete truth table over all 8^k (4^k) operand tuples, k=1..4. '
        'The resulting tables are compared with an independently written algebra oracle, with each other, and checked '
        'for De Morgan duality and Boolean restriction. Because only lane-wise/element-wise primitives are accepted, '
        'the verdict holds for every shape and lane count. The out= discipline is a syntactic rule.')
    rep.exhaustive = True
    rep.trusted = ["numpy &,|,^,~,==,<<,>> and bitwise_*(out=,where=), putmask are element-wise as documented",
                   'algebra oracle in kvstatic/oracle.py (12 lines per operator)']
    rep.assumptions = ['NOT DECIDED: numpy broadcasting semantics themselves (shape of np.broadcast(x1, x2))']
    lg = Logic(repo)
    check_constants(rep, lg)
    rep.rule('C12.bp', 'bit-parallel operator equals the algebra oracle on all 8^k / 4^k operand tuples, k = 1..4, independent of stale out content')
    rep.rule('C12.mv', 'array-based worker equals the algebra oracle on all 8^k operand tuples, k = 1..4')
    rep.rule('C12.agree', 'array-based and bit-parallel operators agree row by row')
    rep.rule('C12.lanewise', 'operators use only element-wise / whole-plane primitives (no reduction, reshape, axis-specific index, lane-dependent constant)')
    rep.rule('C12.broadcast', 'no in-place update of an array that has the shape of fewer operands than the value (shape-provenance domain): operands may broadcast in any order')
    tabs, nops = op_tables(rep, lg)
    nmv = mv_tables(rep, lg, tabs)
    rep.floor('bit-parallel operator tables', nops, 26)
    rep.floor('array operator tables', nmv, 13)
    algebra_identities(rep, lg, tabs)
    check_wrappers(rep, lg)
    rep.note(f'operator tables: {sorted(set(k[0] for k in tabs))}')


def depends(rep, repo):
    """The package itself calls the bit-parallel operators with the output array being one of the operands
    (LogicSim: `logic.bp4v_not(self.c[o0], self.c[o0])` ...). For exactly those call shapes the operator must give the
    same table as without aliasing (rule C02.alias, evaluated here as well)."""
    from checks import c02
    from kvstatic.tt import LaneViolation
    lg = Logic(repo)
    rep.rule('C02.alias', 'a call whose output location is also an operand gives the same table as without aliasing')
    mod, cp, chains, tv, tables, infos, luts, reach, weights, rows, sites = c02.branch_tables(rep, repo, lg)
    _conversion_rules(rep, repo)
    seen = set()
    for (m, const), (info, body, test) in sorted(infos.items()):
        for fn, out, args in info['calls']:
            if fn != 'copy' and out in args:
                j = args.index(out)
                nplanes = 2 if m == 4 else 3
                key = (fn, len(args), nplanes, j)
                if key in seen:
                    continue
                seen.add(key)
                try:
                    oka = lg.bp_table(fn, len(args), nplanes)[0] == lg.bp_table(fn, len(args), nplanes, alias=j)[0]
                except LaneViolation:
                    oka = False
                rep.ob('C02.alias', f'{fn}/{len(args)} planes={nplanes} out=in{j}', oka)
                if not oka:
                    rep.violate('C02.alias', lg.mod if hasattr(lg, 'mod') else 'logic', fn, f'logic.{fn}(x, ..., x)', f'logic.{fn} with its output array also passed as operand {j} '
                                f'(as LogicSim.c_prop does for {const}) overwrites the operand before it is read', node=test)


def _conversion_rules(rep, repo):
    """"The two storage formats agree": the format conversions mv_to_bp / bp_to_mv / packbits (C15.bitorder) are what relates them."""
    from checks import c15
    c15.plumbing(rep, repo, repo.mod('logic'))


def thorough(rep, repo):
    """Thorough tier: the quick rules plus checker self-validation on the C12 slice of the mutation corpus , a second evaluator for engine A and an alias sweep."""
    from kvstatic import thorough as thorough_mod
    from kvstatic.mvlogic import Logic
    lg = Logic(repo)
    tabs = {}
    for pre, nplanes in (('bp8v', 3), ('bp4v', 2)):
        for op in ('buf', 'not', 'and', 'or', 'xor'):
            for k in ((1,) if op in ('buf', 'not') else (1, 2, 3, 4)):
                try:
                    tabs[(f'{pre}_{op}', k)] = lg.bp_table(f'{pre}_{op}', k, nplanes)[0]
                except Exception:  # noqa: BLE001 - already reported by the quick rules
                    pass
    for op in ('not', 'and', 'or', 'xor'):
        for k in ((1,) if op == 'not' else (1, 2, 3, 4)):
            try:
                tabs[(f'_mv_{op}', k)] = lg.mv_table(f'_mv_{op}', k)[0]
            except Exception:  # noqa: BLE001
                pass
    if not rep.violations:
        thorough_mod.second_evaluator(rep, lg, tabs, seed=rep.seed)
        thorough_mod.alias_sweep(rep, lg)
    thorough_mod.selftest_slice(rep, repo, 'C12')
