"""C20 - DEF data is extracted as written, with wildcards and via arrays expanded (structural clauses)."""
from __future__ import annotations

import ast
import re

from kvstatic.core import Repo, Report, ModelError, AnchorError, norm
from kvstatic import grammar
from kvstatic.paths import cz, czs
from kvstatic.astutil import find_all, attr_chain, is_name, call_name, body_no_doc, target_names, walk_no_nested_funcs, renamed, parents


def run(rep: Report, repo: Repo):
    rep.explanation = (
        'def_file.py is a grammar plus positional handlers. Engine E compiles the grammar constant with the repository\'s lark and '
        'compares, for every rule, the kept children (filtered tokens dropped, inline and helper rules spliced, ?-rules passing single '
        'children through) with how the handler of that name indexes args: arity, token/tree kind, exhaustiveness, dead callbacks, option '
        'keyword agreement. A may-be-None / may-be-missing attribute flow rule covers the public properties (DefNet.wires/vias, '
        'DefWire.wire_points/vias); x/y symmetry of the via expansion and the special/regular twin handlers are compared by renaming.')
    rep.trusted = ['lark LALR compilation of the grammar constant']
    rep.assumptions = ['BOUNDED: value fidelity is decided for one fixture text covering every section (C20.extract) and all short routing lists (C20.geometry); arbitrary files and lexer ambiguities (ID vs NUMBER priority) are not']
    mod = repo.mod('def_file')
    text, gnode = grammar.extract_grammar(mod)
    G = grammar.Grammar(text, 'def_file')
    grammar.fresh_parser_rule(rep, 'C20.fresh', mod, 'DefTransformer')
    rep.rule('C20.grammar', 'DEF grammar <-> DefTransformer: arity, kind, exhaustiveness, no dead callback')
    consumed = ('propdef', 'propdef_stmt', 'vias', 'nondef', 'nondef_stmt', 'comp', 'pins', 'pinprop', 'pinprop_stmt', 'spnets', 'nets', 'spwire_opt', 'wire_opt')
    methods, handlers, n = grammar.check_agreement(rep, 'C20.grammar', mod, G, 'DefTransformer', consumed_as_tree=consumed)
    rep.floor('DEF callbacks analysed', n, 20)
    rep.floor('DEF grammar rules', len(G.user_rules()), 30)
    evaluated = False
    try:
        from checks import c20_eval
        evaluated = c20_eval.evaluate(rep, repo, mod)
    except ModelError as e:
        rep.note(f'C20.extract: DefTransformer is outside the evaluated subset ({e}); the structural rules C20.positions / C20.options / C20.twins decide')
    if not evaluated:
        positional(rep, mod, G, methods, gnode)
        options(rep, mod, G, methods, gnode)
        twins(rep, mod, methods)
    none_flow(rep, mod, methods)
    symmetry(rep, mod, methods)
    geometry_evaluated(rep, repo, mod)


def positional(rep, mod, G, methods, gnode):
    rep.rule('C20.positions', 'handlers read the positions the grammar yields: ROW (name, site, x, y, orient, do_step), TRACKS, UNITS, component (name, kind, point, orient), net pin, point, do_step')
    f = methods['design_stmt']
    seqs = G.callback_sequences('design_stmt', maxlen=9)
    by_kw = {}
    for s in seqs:
        if s and s[0].startswith('T:'):
            by_kw.setdefault(len(s), []).append(s)
    # which keyword token leads which alternative
    kw_alts = {}
    for syms, alias, expand1, keep in G.alts['design_stmt']:
        if syms and syms[0].is_term:
            pat = str(G.terminals[syms[0].name].pattern.value)
            kw_alts[pat] = [('T:' + s.name if s.is_term else 'R:' + s.name) for s in syms if not (s.is_term and s.filter_out)]
    want = {'UNITS': 4, 'ROW': 7, 'TRACKS': 6}
    for kw, nchild in want.items():
        a = kw_alts.get(kw)
        ok = a is not None and len(a) == nchild
        rep.ob('C20.positions', f'{kw}: {a}', ok, sample={'rule': 'C20.positions', 'keyword': kw, 'children': a})
        if not ok:
            rep.violate('C20.positions', mod, '<module>', f'design_stmt /{kw}/', f'grammar alternative /{kw}/ must keep {nchild} children for the handler\'s positional reads; found {a}', node=gnode)
    t = cz(f)
    need = {
        'units': "ifstmt=='units':self.def_file.units.append((args[1].value,args[2].value,int(args[3])))",
        'diearea': "elifstmt=='diearea':self.def_file.diearea=args[1:]",
        'row': "elifstmt=='row':self.def_file.rows.append((args[1].value,args[2].value,(int(args[3]),int(args[4])),args[5].value,max(args[6][0],args[6][1]),max(args[6][2],args[6][3])))",
        'tracks': "elifstmt=='tracks':self.def_file.tracks.append((args[1].value,int(args[2]),int(args[3]),int(args[4]),args[5].value))",
    }
    for k, w in need.items():
        ok = w in t
        rep.ob('C20.positions', f'design_stmt[{k}]', ok)
        if not ok:
            rep.violate('C20.positions', mod, f, f'design_stmt: {k}', f'design_stmt arm `{k}` must read its fields at the grammar positions: {w[:160]}', node=f)
    ok = "stmt=args[0].lower()" in t
    rep.ob('C20.positions', 'design_stmt dispatches on the lower-cased keyword token', ok)
    if not ok:
        rep.violate('C20.positions', mod, f, 'stmt = args[0].lower()', 'design_stmt must dispatch on args[0].lower()', node=f)
    # ROW: child 6 is the do_step tuple (n, m, dx, dy)
    a = kw_alts.get('ROW') or []
    ok = len(a) == 7 and a[6] == 'R:do_step' and a[3] == a[4] == 'T:NUMBER'
    rep.ob('C20.positions', 'ROW: children 3,4 numbers; child 6 do_step', ok)
    if not ok:
        rep.violate('C20.positions', mod, '<module>', 'design_stmt /ROW/', f'ROW must be ID ID NUMBER NUMBER ID do_step; found {a}', node=gnode)
    simple = {
        'do_step': 'returntuple(map(int,args))', 'point': "returntuple((int(arg.value)ifarg!='*'elseNoneforarginargs))",
        'net_pin': "return('__pin__',(args[0].value,args[1].value))", 'net_opt': 'return(args[0].lower(),args[1].value)',
        'spnet_wires': 'return(args[0].lower(),args[1:])', 'net_wires': 'return(args[0].lower(),args[1:])', 'sppoints': 'returnargs', 'points': 'returnargs',
        'design': 'self.def_file.design=args[0].value', 'start': 'returnself.def_file',
    }
    for nm, w in simple.items():
        g = methods.get(nm)
        ok = g is not None and cz(body_no_doc(g)[0]) == w
        rep.ob('C20.positions', nm, ok)
        if not ok:
            rep.violate('C20.positions', mod, g or '<module>', nm, f'DefTransformer.{nm} must be `{w}`', node=g)
    c = methods['comp_stmt']
    t = [cz(s) for s in body_no_doc(c)]
    ok = t == ['name=args[0].value', 'kind=args[1].value', 'point=args[2]', 'orientation=args[3].value', 'self.def_file.components[name]=(kind,point,orientation)']
    seqs = G.callback_sequences('comp_stmt')
    ok = ok and seqs == {('T:ID', 'T:ID', 'R:point', 'T:ID')}
    rep.ob('C20.positions', f'comp_stmt (name, kind, point, orientation) vs {sorted(seqs)}', ok)
    if not ok:
        rep.violate('C20.positions', mod, c, 'comp_stmt', 'comp_stmt must store components[name] = (kind, placement point, orientation) from children (ID, ID, point, ID)', node=c)
    seqs = G.callback_sequences('do_step')
    ok = all(len(s) == 4 for s in seqs)
    rep.ob('C20.positions', 'do_step keeps 4 numbers (n, m, dx, dy)', ok)
    if not ok:
        rep.violate('C20.positions', mod, '<module>', 'do_step', 'do_step must keep exactly four numbers', node=gnode)
    # signed steps: the two step terminals must admit a sign and no sign token may be filtered out in front of them
    ds = G.alts.get('do_step', [])
    kept_ok = sign_ok = True
    for syms, *_ in ds:
        kept = [s2 for s2 in syms if not (s2.is_term and s2.filter_out)]
        for i, s2 in enumerate(syms):
            if s2.is_term and s2.filter_out and str(G.terminals[s2.name].pattern.value) in ('-', '+'):
                sign_ok = False
    step_terms = set()
    for syms, *_ in ds:
        kept = [s2.name for s2 in syms if not (s2.is_term and s2.filter_out)]
        if len(kept) == 4:
            step_terms |= set(kept[2:])
    kept_ok = 'SIGNED_NUMBER' in step_terms
    ok = kept_ok and sign_ok
    rep.ob('C20.positions', f'do_step: step values may be negative (terminals {sorted(step_terms)}), no sign token is dropped', ok)
    if not ok:
        rep.violate('C20.positions', mod, '<module>', 'do_step', 'grammar rule do_step must keep the sign of the STEP values (SIGNED_NUMBER alternative; a literal "-" is filtered out of the tree and the sign is lost)', node=gnode)
    seqs = G.callback_sequences('point')
    ok = {len(s) for s in seqs} == {2, 3}
    rep.ob('C20.positions', 'point keeps 2 or 3 coordinates', ok)
    if not ok:
        rep.violate('C20.positions', mod, '<module>', 'point', f'point must keep 2 or 3 coordinate tokens; found lengths {sorted({len(s) for s in seqs})}', node=gnode)
    for nm, store in (('nets_stmt', 'self.def_file.nets[dnet.name]=dnet'), ('spnets_stmt', 'self.def_file.specialnets[dnet.name]=dnet'), ('vias_stmt', 'self.def_file.vias[via.name]=via'), ('pins_stmt', 'self.def_file.pins[pin.name]=pin')):
        g = methods[nm]
        ok = cz(body_no_doc(g)[-1]) == store
        rep.ob('C20.positions', f'{nm} stores into its own section', ok)
        if not ok:
            rep.violate('C20.positions', mod, g, body_no_doc(g)[-1], f'{nm} must end with `{store}`', node=g)


def keyword_alts(G, rule):
    """Upper-case keyword alternatives of the regex terminals leading the alternatives of a rule."""
    out = set()
    for syms, *_ in G.alts.get(rule, []):
        for s in syms:
            if s.is_term and not s.filter_out and s.name.startswith('__ANON') or (s.is_term and not s.filter_out and s.name.isupper() and s.name not in ('ID', 'NUMBER', 'STRING', 'SIGNED_NUMBER', 'ORIENTATION')):
                pat = str(G.terminals[s.name].pattern.value)
                if re.fullmatch(r'[A-Z]+', pat):
                    out.add(pat)
                break
    return out


def options(rep, mod, G, methods, gnode):
    rep.rule('C20.options', 'the lower-cased keyword of every `+ /KEYWORD/` alternative is what the handler compares against and what setattr stores; consumers name attributes some alternative can produce')
    for rule, handler in (('pins_opt', 'pins_opt'), ('vias_opt', 'vias_opt')):
        kws = {k.lower() for k in keyword_alts(G, rule)}
        f = methods[handler]
        named = set()
        for n in ast.walk(f):
            if isinstance(n, ast.Compare) and is_name(n.left, 'opt') and isinstance(n.ops[0], ast.In) and isinstance(n.comparators[0], ast.List):
                named |= {e.value for e in n.comparators[0].elts if isinstance(e, ast.Constant)}
        ok = named <= kws
        rep.ob('C20.options', f'{handler}: names {sorted(named)} within grammar keywords {sorted(kws)}', ok, sample={'rule': 'C20.options', 'handler': handler, 'grammar': sorted(kws), 'handler names': sorted(named)})
        if not ok:
            rep.violate('C20.options', mod, f, f'{sorted(named - kws)}', f'{handler} tests for option name(s) {sorted(named - kws)} that no grammar alternative produces (keywords: {sorted(kws)}); that option silently falls into the default arm', node=f)
        ok = cz(body_no_doc(f)[0]) == 'opt=args[0].lower()'
        rep.ob('C20.options', f'{handler}: opt = args[0].lower()', ok)
        if not ok:
            rep.violate('C20.options', mod, f, 'opt = args[0].lower()', f'{handler} must derive the option name from the keyword token', node=f)
    # pins_opt arms vs child shapes
    f = methods['pins_opt']
    t = cz(f)
    need = ["ifoptin['net','direction','use']:val=args[1].value", "elifoptin['layer']:val=[args[1].value]+args[2:]", "elifoptin['placed']:val=(args[1][0],args[1][1],args[2].value)"]
    for w in need:
        ok = w in t
        rep.ob('C20.options', f'pins_opt: {w[:50]}', ok)
        if not ok:
            rep.violate('C20.options', mod, f, w, f'pins_opt arm must be `{w}` (positions per grammar: NET/DIRECTION/USE id; LAYER id point point; PLACED point id)', node=f)
    shapes = {}
    for syms, *_ in G.alts['pins_opt']:
        kept = [('T:' + s.name if s.is_term else 'R:' + s.name) for s in syms if not (s.is_term and s.filter_out)]
        kw = str(G.terminals[syms[1].name].pattern.value) if len(syms) > 1 and syms[1].is_term else None
        shapes[kw] = kept[1:]
    ok = shapes.get('PLACED') == ['R:point', 'T:ID'] and shapes.get('LAYER') == ['T:ID', 'R:point', 'R:point'] and shapes.get('NET') == ['T:ID']
    rep.ob('C20.options', f'pins_opt child shapes {shapes}', ok)
    if not ok:
        rep.violate('C20.options', mod, '<module>', 'pins_opt alternatives', f'pins_opt grammar alternatives changed shape: {shapes}', node=gnode)
    f = methods['vias_opt']
    t = cz(f)
    need = ["ifoptin['viarule','pattern']:val=args[1].value", "elifoptin['layers']:val=[arg.valueforarginargs[1:]]", "else:val=[int(arg)forarginargs[1:]]"]
    for w in need:
        ok = w in t
        rep.ob('C20.options', f'vias_opt: {w[:50]}', ok)
        if not ok:
            rep.violate('C20.options', mod, f, w, f'vias_opt arm must be `{w}`', node=f)
    # attributes produced by setattr on nets and what consumers read
    produced = {k.lower() for k in keyword_alts(G, 'net_wires') | keyword_alts(G, 'spnet_wires') | keyword_alts(G, 'net_opt')}
    cls = mod.cls('DefNet')
    init_attrs = {t.attr for s in ast.walk(mod.func('DefNet.__init__')) if isinstance(s, ast.Assign) for t in s.targets if isinstance(t, ast.Attribute) and is_name(t.value, 'self')}
    for q in ('DefNet.wires', 'DefNet.vias'):
        g = mod.func(q)
        for n in ast.walk(g):
            if isinstance(n, ast.Attribute) and is_name(n.value, 'self') and n.attr not in init_attrs:
                ok = n.attr in produced
                rep.ob('C20.options', f'{q} reads self.{n.attr}', ok)
                if not ok:
                    rep.violate('C20.options', mod, g, n, f'{q} reads self.{n.attr}, which is neither set in DefNet.__init__ nor the lower-cased keyword of any net option alternative ({sorted(produced)})', node=n)
    rep.note(f'net attributes produced by option keywords: {sorted(produced)}')


def none_flow(rep, mod, methods):
    rep.rule('C20.none', 'public properties do not pass a may-be-None value to int()/arithmetic, do not hand unresolved `*` coordinates to the caller, and do not read a may-be-missing attribute unguarded')
    # fact 1: point() yields None for '*'
    pt = methods['point']
    fact_none = "ifarg!='*'elseNone" in cz(pt)
    # fact 2: attributes of DefWire initialised to None and not set by every constructing callback
    wi = mod.func('DefWire.__init__')
    none_attrs = {t.attr for s in ast.walk(wi) if isinstance(s, ast.Assign) and isinstance(s.value, ast.Constant) and s.value.value is None for t in s.targets if isinstance(t, ast.Attribute)}
    ctor_sets = {}
    for nm, f in methods.items():
        if any(isinstance(c, ast.Call) and call_name(c) == 'DefWire' for c in ast.walk(f)):
            ctor_sets[nm] = {t.attr for s in ast.walk(f) if isinstance(s, ast.Assign) for t in s.targets if isinstance(t, ast.Attribute) and is_name(t.value, 'wire')}
    maybe_none = {a for a in none_attrs if any(a not in s for s in ctor_sets.values())}
    rep.note(f'DefWire attributes that may stay None: {sorted(maybe_none)} (constructing callbacks: { {k: sorted(v) for k, v in ctor_sets.items()} })')
    # fact 3: DefNet attributes set only dynamically
    init_attrs = {t.attr for s in ast.walk(mod.func('DefNet.__init__')) if isinstance(s, ast.Assign) for t in s.targets if isinstance(t, ast.Attribute) and is_name(t.value, 'self')}
    n = 0
    for q in ('DefNet.wires', 'DefNet.vias', 'DefWire.wire_points', 'DefWire.vias'):
        f = mod.func(q)
        # (a) may-be-None attribute into int()/arithmetic
        for c in ast.walk(f):
            if isinstance(c, ast.Call) and call_name(c) in ('int', 'float') and c.args and isinstance(c.args[0], ast.Attribute) and c.args[0].attr in maybe_none:
                n += 1
                guarded = any(isinstance(p, (ast.IfExp, ast.If)) and f'{cz(c.args[0])}isnotNone' in cz(p.test) for p in parents(c))
                rep.ob('C20.none', f'{q}: {cz(c)}', guarded)
                if not guarded:
                    rep.violate('C20.none', mod, f, c, f'{q}: `{norm(c)}` - DefWire.{c.args[0].attr} stays None for wires built by the regular-net handler (only spwire sets it): TypeError for every routed regular net', node=c)
        # (b) may-be-missing attribute
        for a in ast.walk(f):
            if isinstance(a, ast.Attribute) and is_name(a.value, 'self') and q.startswith('DefNet.') and a.attr not in init_attrs and not isinstance(getattr(a, '_parent', None), ast.Call):
                n += 1
                guarded = any(isinstance(p, (ast.IfExp, ast.If)) and 'hasattr(self' in cz(p.test) for p in parents(a))
                rep.ob('C20.none', f'{q}: self.{a.attr}', guarded)
                if not guarded:
                    rep.violate('C20.none', mod, f, a, f'{q}: reads self.{a.attr}, which exists only if a `+ {a.attr.upper()}` option occurred (set by setattr, not in __init__): AttributeError for an unrouted net', node=a)
    # (c) sibling contradiction on wildcard resolution inside DefWire
    if fact_none:
        res = {}
        for q in ('DefWire.wire_points', 'DefWire.vias'):
            f = mod.func(q)
            res[q] = any(isinstance(t, ast.Compare) and isinstance(t.ops[0], (ast.Is, ast.IsNot)) and isinstance(t.comparators[0], ast.Constant) and t.comparators[0].value is None for t in ast.walk(f))
        n += 1
        ok = all(res.values()) or not any(res.values())
        rep.ob('C20.none', f'wildcard resolution in DefWire properties: {res}', ok, sample={'rule': 'C20.none', 'resolves *': res})
        if not ok:
            q = next(k for k, v in res.items() if not v)
            rep.violate('C20.none', mod, mod.func(q), q, f'{q} returns points of self.points without resolving `*` coordinates (None), while its sibling resolves them: '
                        f'a `*` coordinate must inherit the previous point\'s value', node=mod.func(q))
    rep.floor('None/missing flow sites', n, 2)
    # vias: location tracking
    v = mod.func('DefWire.vias')
    t = cz(v)
    need = ['loc=self.points[0]', 'ifnotisinstance(p[0],str):loc=(loc[0]ifp[0]isNoneelsep[0],loc[1]ifp[1]isNoneelsep[1])continue', "vv[vtype].append((loc[0],loc[1],paramor'N'))"]
    for w in need:
        ok = w in t
        rep.ob('C20.none', f'DefWire.vias: {w[:60]}', ok)
        if not ok:
            rep.violate('C20.none', mod, v, w, f'DefWire.vias: `{w}` required (a via sits at the last routing point; `*` keeps the previous coordinate)', node=v)


def symmetry(rep, mod, methods):
    rep.rule('C20.symmetry', 'via expansion treats x and y alike: loc[0]/p[0]/x_cnt/x_sp vs loc[1]/p[1]/y_cnt/y_sp; array ranges over range(x_cnt) x range(y_cnt); do_step order (n, m, dx, dy)')
    for q in ('DefWire.vias', 'DefWire.wire_points'):
        v = mod.func(q)
        tuples = [n for n in ast.walk(v) if isinstance(n, ast.Tuple) and len(n.elts) >= 2 and isinstance(n.ctx, ast.Load) and any('loc' in cz(e) or 'prev' in cz(e) for e in n.elts[:2]) and 'None' in cz(n)]
        for tpl in tuples:
            a = renamed(tpl.elts[0], consts={0: 1})
            ok = a == norm(tpl.elts[1])
            rep.ob('C20.symmetry', f'{q}: {cz(tpl)[:70]}', ok)
            if not ok:
                rep.violate('C20.symmetry', mod, v, tpl, f'{q}: x and y are not resolved symmetrically: `{norm(tpl)}`', node=tpl)
    v = mod.func('DefWire.vias')
    t = cz(v)
    ok = '(x_cnt,y_cnt,x_sp,y_sp)=param' in t.replace('x_cnt,y_cnt,x_sp,y_sp=param', '(x_cnt,y_cnt,x_sp,y_sp)=param')
    rep.ob('C20.symmetry', 'array parameters unpacked as (x_cnt, y_cnt, x_sp, y_sp) = (n, m, dx, dy)', ok)
    if not ok:
        rep.violate('C20.symmetry', mod, v, 'x_cnt, y_cnt, x_sp, y_sp = param', 'DefWire.vias must unpack DO n BY m STEP dx dy as (x_cnt, y_cnt, x_sp, y_sp)', node=v)
    lc = [n for n in ast.walk(v) if isinstance(n, ast.ListComp) and len(n.generators) == 2]
    ok = False
    if len(lc) == 1:
        g0, g1 = lc[0].generators
        ok = cz(g0.iter) == f'range({g0.target.id}_cnt)' and cz(g1.iter) == f'range({g1.target.id}_cnt)' and {g0.target.id, g1.target.id} == {'x', 'y'}
        call = lc[0].elt
        if ok and isinstance(call, ast.Call) and call.args and isinstance(call.args[0], ast.Tuple):
            e = call.args[0].elts
            ok = cz(e[0]) == 'loc[0]+x*x_sp' and cz(e[1]) == 'loc[1]+y*y_sp' and renamed(e[0], names={'x': 'y', 'x_sp': 'y_sp'}, consts={0: 1}) == norm(e[1])
        else:
            ok = False
    rep.ob('C20.symmetry', 'array expansion: all n x m positions loc + (x*x_sp, y*y_sp)', ok, sample={'rule': 'C20.symmetry', 'expansion': norm(lc[0])[:200] if lc else None})
    if not ok:
        rep.violate('C20.symmetry', mod, v, lc[0] if lc else 'array expansion', 'DefWire.vias must expand a via array to (loc[0] + x*x_sp, loc[1] + y*y_sp) for x in range(x_cnt) for y in range(y_cnt)', node=v)


def twins(rep, mod, methods):
    rep.rule('C20.twins', 'special-net and regular-net handlers agree up to the stated differences (section name; width; via orientation vs array)')
    a = [cz(s).replace('specialnets', 'nets') for s in body_no_doc(methods['spnets_stmt'])]
    b = [cz(s) for s in body_no_doc(methods['nets_stmt'])]
    ok = a == b
    rep.ob('C20.twins', 'spnets_stmt = nets_stmt (modulo section)', ok)
    if not ok:
        d = next((i for i, (x, y) in enumerate(zip(a, b)) if x != y), 0)
        rep.violate('C20.twins', mod, methods['nets_stmt'], body_no_doc(methods['nets_stmt'])[d], 'nets_stmt and spnets_stmt differ beyond the section they store into', witness={'special': a[d] if d < len(a) else None, 'regular': b[d] if d < len(b) else None}, node=methods['nets_stmt'])
    t = a
    ok = czs("""
        for arg in args[1:]:
            if arg[0] == '__pin__': dnet.pins.append(arg[1])
            else: setattr(dnet, arg[0], arg[1])
        """) in t
    rep.ob('C20.twins', 'net statements: pins appended, options stored by keyword', ok)
    if not ok:
        rep.violate('C20.twins', mod, methods['nets_stmt'], 'pin/option dispatch', 'net statements must append (instance, pin) pairs to dnet.pins and store every other child under its lower-cased keyword', node=methods['nets_stmt'])
    a = [cz(s) for s in body_no_doc(methods['spwire'])]
    b = [cz(s) for s in body_no_doc(methods['wire'])]
    tol = 'wire.width=args[1].value'
    ok = [x for x in a if x != tol] == b and tol in a
    rep.ob('C20.twins', 'spwire = wire + width (tolerated: special wires carry a width)', ok)
    if not ok:
        rep.violate('C20.twins', mod, methods['wire'], 'wire vs spwire', 'wire and spwire must agree except that spwire records args[1] as width: layer = args[0].value, points = args[-1]', node=methods['wire'])
    a = [cz(s) for s in body_no_doc(methods['sppoints_via'])]
    b = [cz(s) for s in body_no_doc(methods['points_via'])]
    ok = a == ['iflen(args)==1:return(args[0].value,None)else:return(args[0].value,args[1])'] and b == ["iflen(args)==1:return(args[0].value,'N')else:return(args[0].value,args[1].value.strip())"]
    rep.ob('C20.twins', 'sppoints_via -> (via, do_step | None); points_via -> (via, orientation | N)', ok)
    if not ok:
        rep.violate('C20.twins', mod, methods['points_via'], 'points_via / sppoints_via', 'sppoints_via must return (via name, do_step tuple or None), points_via (via name, orientation text or "N")', node=methods['points_via'])
    # DefNet.wires / vias aggregation
    w, v = mod.func('DefNet.wires'), mod.func('DefNet.vias')
    ok = 'fordwinself.routed' in cz(w) and 'ww[dw.layer].append(' in cz(w) and 'dw.wire_points' in cz(w) and 'iflen(dw.wire_points)>0' in cz(w)
    rep.ob('C20.twins', 'DefNet.wires: per layer (width, wire points) of every routed segment with points', ok)
    if not ok:
        rep.violate('C20.twins', mod, w, 'DefNet.wires', 'DefNet.wires must list, per layer, (width, wire_points) for every routed wire segment that has wire points', node=w)
    ok = '[vv[vtype].extend(locs)fordwinself.routedfor(vtype,locs)indw.vias.items()]' in cz(v).replace('forvtype,locsin', 'for(vtype,locs)in')
    rep.ob('C20.twins', 'DefNet.vias: per via type all locations of every routed segment', ok)
    if not ok:
        rep.violate('C20.twins', mod, v, 'DefNet.vias', 'DefNet.vias must collect, per via type, the locations of all routed wire segments', node=v)


def geometry_evaluated(rep, repo, mod):
    """DefWire.wire_points / DefWire.vias and DefNet.wires / DefNet.vias evaluated (Engine M) on every routing-point list of
    length <= 4 over a representative alphabet (explicit points incl. coordinate 0, `*` wildcards on either axis, an extension
    value, vias without / with orientation, via arrays) against the DEF semantics written down here independently."""
    import itertools
    from kvstatic import minieval
    rep.rule('C20.geometry', 'wire point lists and via lists of a routed segment, and the per-layer / per-via aggregation over a net, equal the DEF semantics '
                             '(`*` keeps the previous coordinate, an explicit 0 does not; a via sits at the last location; DO x BY y STEP dx dy expands x-major) on all short routing lists')
    dw = mod.cls('DefWire')
    dn = mod.cls('DefNet')

    def prop(cls, name):
        for st in cls.body:
            if isinstance(st, ast.FunctionDef) and st.name == name:
                return st
        raise AnchorError(f'def_file.{cls.name}.{name} vanished')
    f_wp, f_v, f_nw, f_nv = prop(dw, 'wire_points'), prop(dw, 'vias'), prop(dn, 'wires'), prop(dn, 'vias')
    first = [(3, 4), (0, 7)]
    alpha = [(5, 6), (None, 9), (0, None), (8, 0), (None, None, 2), ('v1', None), ('v1', 'S'), ('v2', (2, 1, 10, 20)), ('v1', (1, 2, 3, 4))]

    def spec_points(pts):
        out = [pts[0]]
        for p in pts[1:]:
            if isinstance(p[0], str):
                continue
            prev = out[-1]
            out.append((prev[0] if p[0] is None else p[0], prev[1] if p[1] is None else p[1]) + tuple(p[2:]))
        return out if len(out) > 1 else []

    def spec_vias(pts):
        vv = {}
        loc = pts[0]
        for p in pts[1:]:
            if not isinstance(p[0], str):
                loc = (loc[0] if p[0] is None else p[0], loc[1] if p[1] is None else p[1])
                continue
            name, par = p
            if isinstance(par, tuple):
                xc, yc, xs, ys = par
                for x in range(xc):
                    for y in range(yc):
                        vv.setdefault(name, []).append((loc[0] + x * xs, loc[1] + y * ys, 'N'))
            else:
                vv.setdefault(name, []).append((loc[0], loc[1], par if par else 'N'))
        return vv
    bad = None
    n = 0
    genv = {}
    if isinstance(getattr(mod, 'tree', None), ast.Module):
        minieval.module_functions(mod.tree, genv)
    try:
        segs = []
        via_segs = []
        for f0 in first:
            for k in range(0, 4):
                for rest in itertools.product(alpha, repeat=k):
                    if k == 3 and n % 3:      # thin out the longest lists
                        n += 1
                        continue
                    n += 1
                    pts = [f0] + list(rest)
                    me = minieval.bind_class(minieval.NS(points=pts, layer='M1', width=None), dw, genv, skip=('__init__', 'wire_points', 'vias'))
                    for what, fdef, spec in (('wire_points', f_wp, spec_points), ('vias', f_v, spec_vias)):
                        try:
                            got = minieval.call_function(fdef, [me])
                            got = dict(got) if isinstance(got, dict) else got
                        except (IndexError, KeyError, TypeError, ValueError, AttributeError) as e:
                            got = f'{type(e).__name__}'
                        want = spec(pts)
                        if got != want and bad is None:
                            bad = (f'DefWire.{what}', pts, got, want)
                    has_via = any(isinstance(q[0], str) for q in pts[1:])
                    if k >= 1 and ((len(segs) < 20 and not has_via) or (len(via_segs) < 20 and has_via)):
                        (via_segs if has_via else segs).append(pts)
        segs = [x for pair in zip(segs, via_segs) for x in pair] + segs[len(via_segs):] + via_segs[len(segs):]      # lists with and without vias interleaved
        # aggregation over a net: segments on two layers, widths given or not
        for a, b in itertools.islice(itertools.combinations(segs, 2), 60):
            n += 1
            wires = [minieval.NS(points=a, layer='M1', width=None, wire_points=spec_points(a), vias=spec_vias(a)),
                     minieval.NS(points=b, layer='M2', width='120', wire_points=spec_points(b), vias=spec_vias(b)),
                     minieval.NS(points=a, layer='M2', width=None, wire_points=spec_points(a), vias=spec_vias(a))]
            net = minieval.bind_class(minieval.NS(routed=wires), dn, genv, skip=('__init__', 'wires', 'vias'))      # helper methods of the class are evaluated as written
            want_w = {}
            want_v = {}
            for w in wires:
                if len(w.wire_points) > 0:
                    want_w.setdefault(w.layer, []).append((int(w.width) if w.width is not None else None, w.wire_points))
                for vt, locs in w.vias.items():
                    want_v.setdefault(vt, []).extend(locs)
            for what, fdef, want in (('wires', f_nw, want_w), ('vias', f_nv, want_v)):
                try:
                    got = dict(minieval.call_function(fdef, [net]))
                except (IndexError, KeyError, TypeError, ValueError, AttributeError) as e:
                    got = f'{type(e).__name__}'
                if got != want and bad is None:
                    bad = (f'DefNet.{what}', [w.points for w in wires], got, want)
    except ModelError as e:
        # no verdict from the evaluation and no structural rule that decides the aggregation: undecided (exit 2), never a silent pass
        raise ModelError(f'C20.geometry: DefWire / DefNet properties are outside the evaluator subset ({e})')
    ok = bad is None
    rep.ob('C20.geometry', f'evaluated on {n} routing lists / nets', ok, evals=n)
    if not ok:
        rep.violate('C20.geometry', mod, bad[0], bad[0], f'{bad[0]}: for the routing points {bad[1]} the property yields {str(bad[2])[:200]} but the DEF semantics give {str(bad[3])[:200]}',
                    witness={'points': str(bad[1]), 'got': str(bad[2]), 'want': str(bad[3])})


def thorough(rep, repo):
    """Thorough tier: the quick rules plus checker self-validation on the C20 slice of the mutation corpus."""
    from kvstatic import thorough as thorough_mod
    thorough_mod.selftest_slice(rep, repo, 'C20')
