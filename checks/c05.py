"""C05 - 8-valued logic simulation conservatively predicts timing simulation."""
from __future__ import annotations

import ast

from kvstatic.core import Repo, Report, ModelError, AnchorError, norm
from kvstatic import oracle, simtab, simops
from kvstatic.mvlogic import Logic
from kvstatic.astutil import find_all, attr_chain, call_name
from checks import c01, c02

CH = '0X-1PRFN'
KNOWN6 = (0, 3, 5, 6, 4, 7)


def run(rep: Report, repo: Repo):
    rep.explanation = (
        'Table theorems relating two artefacts derived from source: the 8-valued table of each primitive as LogicSim composes it '
        '(engine A on the real operator bodies and dispatch branches) and the 16-bit LUT the timing kernel walks. For all 33 primitives '
        'and all 6^4 known operand tuples: result initial/final = LUT(initials)/LUT(finals); result without activity implies the LUT is '
        'constant on the cube spanned by the active operands, hence (parity invariant of C03) the kernel never emits an edge.')
    rep.exhaustive = True
    rep.trusted = ['numpy element-wise semantics', 'parity invariant of _wave_eval (decided by C03)']
    rep.assumptions = ['float32 sentinel absorption (TMIN + d == TMIN, TMAX + d >= TMAX) as in C03',
                       'NOT DECIDED here: option settings (C06/C07/C08)',
                       'lifting to circuits by induction over the op list; operands with plain 0/1 have constant waveforms by the induction hypothesis']
    lg = Logic(repo)
    rep.rule('C05.sameops', 'both simulators are SimOps subclasses, the kernel reads LUT from column 0 and operands from columns 2..5, LogicSim dispatches column 0 on the same names')
    lmod, wmod = repo.mod('logic_sim'), repo.mod('wave_sim')
    for mod, cname in ((lmod, 'LogicSim'), (wmod, 'WaveSim')):
        cls = mod.cls(cname)
        bases = [attr_chain(b) for b in cls.bases]
        ok = bases == ['sim.SimOps']
        rep.ob('C05.sameops', f'{cname} bases {bases}', ok)
        if not ok:
            rep.violate('C05.sameops', mod, cname, f'class {cname}({", ".join(map(str, bases))})', f'{cname} must derive its op list from sim.SimOps', node=cls)
        ini = mod.func(f'{cname}.__init__')
        sup = [c for c in find_all(ini, ast.Call) if norm(c.func) == 'super().__init__']
        ok = len(sup) == 1 and norm(sup[0].args[0]) == 'circuit' if sup and sup[0].args else False
        rep.ob('C05.sameops', f'{cname}.__init__ -> SimOps(circuit, ...)', ok)
        if not ok:
            rep.violate('C05.sameops', mod, ini, sup[0] if sup else 'super().__init__', f'{cname}.__init__ must pass its circuit to SimOps.__init__', node=ini)
    weights, lut_col, z_col, cols = simtab.wave_operand_bits(repo)
    ok = lut_col == 0 and z_col == 1 and weights == {2: 1, 3: 2, 4: 4, 5: 8}
    rep.ob('C05.sameops', f'kernel columns lut={lut_col} out={z_col} operand bits={weights}', ok)
    if not ok:
        rep.violate('C05.sameops', wmod, '_wave_eval', 'lut = op[0]; z_idx = op[1]; a..d = op[2..5]', f'timing kernel column use differs from the op tuple layout: lut={lut_col}, out={z_col}, bits={weights}')
    # raw LUT use
    f = wmod.func('_wave_eval')
    uses = [n for n in ast.walk(f) if isinstance(n, ast.Name) and n.id == 'lut' and isinstance(n.ctx, ast.Load)]
    texts = sorted(set(norm(getattr(n, '_parent', n)) for n in uses))
    ok = set(texts) <= {'lut & 1', 'lut >> inputs'}
    rep.ob('C05.sameops', f'LUT uses {texts}', ok)
    if not ok:
        rep.violate('C05.sameops', wmod, f, '; '.join(texts), 'the kernel must use the LUT raw: `lut & 1` (all operands 0) and `lut >> inputs`', node=f)

    rep.rule('C05.initfinal', '8-valued result initial/final bits equal LUT(operand initials)/LUT(operand finals), all 6^4 known operand tuples')
    rep.rule('C05.hazard', 'known result without activity => LUT constant on the cube of active operands (no edge can be emitted)')
    rep.rule('C05.noact', 'all operands without activity => result without activity (constant inputs give a constant output)')
    mod, cp, chains, tv, tables, infos, luts, reach, weights, rows, sites = c02.branch_tables(rep, repo, lg, rid_prefix='C05')
    w = {k - 2: v for k, v in weights.items()}
    n = 0
    for (m, const), res in sorted(tables.items()):
        if m != 8:
            continue
        n += 1
        lut = luts[const]
        fz = c02.forced_zero(reach.get(const, 0xFFFF) or 0xFFFF, weights)
        bad_if, bad_hz, bad_na = [], [], []
        cnt = 0
        for a in KNOWN6:
            for b in KNOWN6:
                for c in KNOWN6:
                    for d in KNOWN6:
                        vs = (a, b, c, d)
                        if any(vs[k] != 0 for k in fz):
                            continue
                        cnt += 1
                        r = a + 8 * b + 64 * c + 512 * d
                        v = res[r]
                        ri = sum(w[k] for k in range(4) if (vs[k] >> 1) & 1)
                        rf = sum(w[k] for k in range(4) if vs[k] & 1)
                        li, lf = (lut >> ri) & 1, (lut >> rf) & 1
                        if oracle._unk(v) or ((v >> 1) & 1) != li or (v & 1) != lf:
                            bad_if.append(r)
                            continue
                        act = [k for k in range(4) if vs[k] & 4]
                        if not (v & 4):
                            base = sum(w[k] for k in range(4) if not vs[k] & 4 and vs[k] & 1)
                            vals = set()
                            for sub in range(1 << len(act)):
                                row = base + sum(w[k] for j, k in enumerate(act) if (sub >> j) & 1)
                                vals.add((lut >> row) & 1)
                            if len(vals) > 1:
                                bad_hz.append(r)
                        if not act and (v & 4):
                            bad_na.append(r)
        info, body, test = infos[(8, const)]
        for rid, bad, msg in (('C05.initfinal', bad_if, 'initial/final of the 8-valued result differ from LUT(initials)/LUT(finals)'),
                              ('C05.hazard', bad_hz, 'logic simulation reports a hazard-free constant although the LUT is not constant over the active operands (timing simulation can glitch)'),
                              ('C05.noact', bad_na, 'result carries activity although no operand does')):
            ok = not bad
            rep.ob(rid, const, ok, evals=cnt,
                   sample={'rule': rid, 'const': const, 'tuples': cnt, 'ok': ok} if const in ('MUX21', 'XOR2') else None)
            if not ok:
                r = bad[0]
                rep.violate(rid, mod, cp, test, f'primitive {const}: {msg} ({len(bad)} of {cnt} operand tuples)',
                            witness={'operands i0..i3': ''.join(CH[(r // 8 ** k) % 8] for k in range(4)), '8-valued result': CH[res[r] & 7], 'LUT': f'{lut:016b}'}, node=test)
    rep.floor('8-valued primitives', n, 33)
    try:
        from checks import c03
        c03.stimulus_table(rep, repo, rid='C05.stimulus')
    except ImportError:
        rep.note('stimulus correspondence is checked by C03 (module not built yet)')


def depends(rep, repo):
    """Rules of the mechanisms this property's results rest on (schedule validity and memory map of SimOps): a change
    that breaks them breaks this property too, so they are part of this check (rule ids keep their C07./C08. prefix)."""
    from checks import c03, c07, c08
    from kvstatic.wavekernel import Kernel
    c03.kernel_rules(rep, repo)    # the hazard/initial-final theorems rest on the parity invariant of the timing kernel; an out-of-bounds
    #                                waveform access corrupts a neighbouring signal; the four operand arms of the merge loop must agree
    c07.schedule_rules(rep, repo)
    c08.map_rules(rep, repo)
    # the op list is built from Circuit.topological_order(): its traversal rules (C17) are part of this check
    from checks import c17
    c17.order_rules(rep, repo)
    # both simulators execute the op list SimOps builds: the node -> op translation rule of C01 is part of this check
    from checks import c01
    c01.wiring_rules(rep, repo)
    c01.plumbing_rules(rep, repo)   # assign / capture / transfer of LogicSim


def thorough(rep, repo):
    """Thorough tier: the quick rules plus checker self-validation on the C05 slice of the mutation corpus , a second evaluator for engine A and an alias sweep."""
    from kvstatic import thorough as thorough_mod
    from kvstatic.mvlogic import Logic
    lg = Logic(repo)
    tabs = {}
    for pre, nplanes in (('bp8v', 3), ('bp4v', 2)):
        for op in ('buf', 'not', 'and', 'or', 'xor'):
            for k in ((1,) if op in ('buf', 'not') else (1, 2, 3, 4)):
                try:
                    tabs[(f'{pre}_{op}', k)] = lg.bp_table(f'{pre}_{op}', k, nplanes)[0]
                except Exception:  # noqa: BLE001 - already reported by the quick rules
                    pass
    for op in ('not', 'and', 'or', 'xor'):
        for k in ((1,) if op == 'not' else (1, 2, 3, 4)):
            try:
                tabs[(f'_mv_{op}', k)] = lg.mv_table(f'_mv_{op}', k)[0]
            except Exception:  # noqa: BLE001
                pass
    if not rep.violations:
        thorough_mod.second_evaluator(rep, lg, tabs, seed=rep.seed)
        thorough_mod.alias_sweep(rep, lg)
    thorough_mod.selftest_slice(rep, repo, 'C05')
