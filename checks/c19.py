"""C19 - built-in library cells have consistent pins and datasheet Boolean functions."""
from __future__ import annotations

import ast
import re
from collections import Counter, defaultdict

from kvstatic.core import Repo, Report, ModelError, AnchorError, norm
from kvstatic import simtab, techdsl
from kvstatic.astutil import find_all, attr_chain, is_name, call_name, target_names

BASE_RE = re.compile(r'^(.*?)_?X\d+(?:_[RLH]VT)?$')


def base_name(name):
    m = BASE_RE.match(name)
    return m.group(1) if m else re.sub(r'_[RLH]VT$', '', name)


def table_of(fn, n):
    t = 0
    for r in range(1 << n):
        if fn([(r >> j) & 1 for j in range(n)]):
            t |= 1 << r
    return t


def pin_groups(ins, digits):
    """Partition of input positions into AO/OA groups. Letter-named pins group by leading letter(s);
    uniformly numbered pins (A1..A6, IN1..IN6) group positionally by the digits."""
    m = [re.match(r'^([A-Za-z]+?)(\d*)$', p) for p in ins]
    if not all(m):
        return None
    prefixes = [x.group(1) for x in m]
    if len(set(prefixes)) == 1 and all(x.group(2) for x in m):
        order = sorted(range(len(ins)), key=lambda j: int(m[j].group(2)))
        groups, pos = [], 0
        for d in digits:
            groups.append(order[pos:pos + d])
            pos += d
        if pos != len(ins):
            return None
        return groups
    by = defaultdict(list)
    for j, p in enumerate(prefixes):
        by[p].append(j)
    groups = list(by.values())
    if sorted(len(g) for g in groups) != sorted(digits):
        return None
    return groups


def family_oracle(name, ins, outs):
    """{output pin: expected truth table} for cells in the stated families, else None."""
    b = base_name(name)
    n = len(ins)
    m = re.match(r'^(AND|OR|NAND|NOR|XOR|XNOR)(\d)$', b)
    if m and len(outs) == 1:
        k = int(m.group(2))
        if k != n:
            return {'__arity__': (k, n)}
        f = {'AND': all, 'OR': any, 'XOR': lambda v: sum(v) & 1}[m.group(1).replace('N', '', 1) if m.group(1) in ('NAND', 'NOR', 'XNOR') else m.group(1)]
        inv = m.group(1) in ('NAND', 'NOR', 'XNOR')
        return {outs[0]: table_of(lambda v: (not f(v)) if inv else bool(f(v)), n)}
    if re.match(r'^(BUF|CLKBUF|NBUFF|AOBUF|DELLN\d)$', b) and n == 1 and len(outs) == 1:
        return {outs[0]: table_of(lambda v: v[0], 1)}
    if re.match(r'^(INV|AOINV|IBUFF)$', b) and n == 1 and len(outs) == 1:
        return {outs[0]: table_of(lambda v: not v[0], 1)}
    if re.match(r'^(TIEH|LOGIC1)$', b) and n == 0 and len(outs) == 1:
        return {outs[0]: 1}
    if re.match(r'^(TIEL|LOGIC0)$', b) and n == 0 and len(outs) == 1:
        return {outs[0]: 0}
    m = re.match(r'^(AO|OA)(I?)(\d{2,3})$', b)
    if m and len(outs) == 1:
        digits = [int(c) for c in m.group(3)]
        if sum(digits) != n:
            return {'__arity__': (sum(digits), n)}
        groups = pin_groups(ins, digits)
        if groups is None:
            return None
        if m.group(1) == 'AO':
            f = lambda v: any(all(v[j] for j in g) for g in groups)
        else:
            f = lambda v: all(any(v[j] for j in g) for g in groups)
        inv = bool(m.group(2))
        return {outs[0]: table_of(lambda v: (not f(v)) if inv else f(v), n)}
    if re.match(r'^(MUX2|MX2|MUX21)$', b) and n == 3 and len(outs) == 1:
        sel = [j for j, p in enumerate(ins) if p.upper().startswith('S')]
        data = [j for j in range(3) if j not in sel]
        if len(sel) != 1:
            return None
        return {outs[0]: table_of(lambda v: v[data[1]] if v[sel[0]] else v[data[0]], 3)}
    if b == 'MUX41' and n == 6 and len(outs) == 1:
        sel = sorted([j for j, p in enumerate(ins) if p.upper().startswith('S')], key=lambda j: ins[j])
        data = [j for j in range(6) if j not in sel]
        if len(sel) != 2:
            return None
        return {outs[0]: table_of(lambda v: v[data[v[sel[0]] + 2 * v[sel[1]]]], 6)}
    if re.match(r'^(HA|ADDH|HADD)$', b) and n == 2 and len(outs) == 2:
        s = [o for o in outs if o in ('S', 'SO')]
        c = [o for o in outs if o in ('CO', 'C1')]
        if len(s) == 1 and len(c) == 1:
            return {s[0]: table_of(lambda v: v[0] ^ v[1], 2), c[0]: table_of(lambda v: v[0] & v[1], 2)}
        return None
    if re.match(r'^(FA|ADDF|FADD)$', b) and n == 3 and len(outs) == 2:
        s = [o for o in outs if o in ('S', 'SO')]
        c = [o for o in outs if o in ('CO', 'C1')]
        if len(s) == 1 and len(c) == 1:
            return {s[0]: table_of(lambda v: (v[0] + v[1] + v[2]) & 1, 3), c[0]: table_of(lambda v: (v[0] + v[1] + v[2]) >= 2, 3)}
        return None
    return None


def run(rep: Report, repo: Repo):
    rep.explanation = (
        'The five library source strings are folded from techlib.py (string +, .replace) and split with the regular '
        'expressions found in TechLib.__init__ itself. Every definition is checked for pin discipline; every right-hand-side '
        'kind is resolved through sim.kind_prefixes exactly as SimOps does; every purely combinational definition is composed '
        'from the folded LUT constants into a truth table per output (<= 64 rows, exhaustive) and compared with a family oracle '
        'derived from the cell name (AND/OR/.., BUF/INV, AO/OA/AOI/OAI groupings, MUX, adders).')
    rep.exhaustive = True
    rep.trusted = ['family oracle in checks/c19.py stands in for the vendor datasheets', 'LUT constants as decided by C01']
    rep.assumptions = ['cells outside the stated families (tri-state, isolation, decoders, clock gates, ties, sequential, fillers) get the pin/resolution rules only']
    try:
        tmod, ctor, facts = techdsl.constructor_facts(repo)
    except ModelError:
        # the constructor is not written in the recognised idiom: the library texts are then read by the documented cell syntax
        # (the evaluated constructor rule below decides whether the constructor agrees with that syntax)
        tmod = repo.mod('techlib')
        ctor = tmod.func('TechLib.__init__')
        facts = None
    _, libs = techdsl.library_sources(repo)
    luts, _ = simtab.luts(repo)
    rows, _ = simtab.kind_prefixes(repo)
    weights, *_ = simtab.wave_operand_bits(repo)
    bmod = repo.mod('bench')
    g = [st for st in bmod.tree.body if isinstance(st, ast.Assign) and is_name(st.targets[0], 'GRAMMAR')]
    if not g or 'NAME: /[-_a-z0-9]+/i' not in g[0].value.value or 'assignment: NAME "=" NAME parameters' not in g[0].value.value:
        raise ModelError('bench.GRAMMAR changed: the static DSL reader mirrors `NAME: /[-_a-z0-9]+/i` and `assignment: NAME "=" NAME parameters`')

    rep.rule('C19.ctor', 'TechLib.__init__: splits cells, strips, separates name from body at the first blank, numbers inputs and outputs with separate counters in io_nodes order, expands {a,b} alternatives by product')
    evaluated = ctor_evaluated(rep, repo, tmod, ctor)
    lookups_evaluated(rep, repo, tmod)
    if facts is None:
        if not evaluated:
            raise ModelError('TechLib.__init__: neither the recognised idiom nor within the evaluator subset (library reader cannot mirror the constructor)')
        facts = {'split_cells': r';\s+', 'strip': (r'^\s+', ''), 'name_sep': ' ', 'split_braces': r'({[^}]+})'}
    elif not evaluated:
        check_ctor(rep, tmod, ctor, facts)

    rep.rule('C19.pins', 'each pin declared once; every output assigned exactly once; no input assigned; every operand is an input or an assigned signal; no cycle')
    rep.rule('C19.expand', 'brace expansion yields unique cell names within a library')
    rep.rule('C19.prim', 'every right-hand-side kind resolves through sim.kind_prefixes (by operand count) or is a state element')
    rep.rule('C19.func', 'truth table of every combinational cell in a known family equals the family function, per output pin')
    floors = {'GSC180': 30, 'NANGATE': 110, 'NANGATE_ZN': 110, 'SAED32': 150, 'SAED90': 450}
    ndefs = nclass = 0
    unclassified = []
    for lib, text, node in libs:
        cells = techdsl.read_library(lib, text, facts)
        names = Counter(n for cd in cells for n in cd.names)
        rep.note(f'{lib}: {len(cells)} definitions, {sum(names.values())} names')
        if lib in floors:
            rep.floor(f'{lib} cell names', sum(names.values()), floors[lib])
        dup = [n for n, c in names.items() if c > 1]
        rep.ob('C19.expand', f'{lib}: unique names', not dup)
        for n in dup:
            rep.violate('C19.expand', tmod, '<module>', f'{lib}:{n}', f'{lib}: cell name {n} is defined {names[n]} times (later definition silently wins)', node=node)
        for cd in cells:
            ndefs += 1
            key = f'{lib}:{cd.raw_name}'
            for e in cd.errors:
                rep.violate('C19.pins', tmod, '<module>', key, f'{key}: {e}', node=node)
            ins, outs = cd.inputs_declared, cd.outputs_declared
            problems = []
            c = Counter(ins + outs)
            problems += [f'pin {p} declared {k} times' for p, k in c.items() if k > 1]
            ac = Counter(t for t, _, _ in cd.assigns)
            problems += [f'output {o} is never assigned (would be numbered as an input)' for o in outs if ac[o] == 0]
            problems += [f'signal {t} assigned {k} times' for t, k in ac.items() if k > 1]
            problems += [f'input {i} is assigned (would be numbered as an output)' for i in ins if ac[i] > 0]
            defined = set(ins) | set(ac)
            for t, kind, args in cd.assigns:
                problems += [f'{t}={kind}(...): operand {a} is neither an input nor an assigned signal' for a in args if a not in defined]
            ok = not problems
            rep.ob('C19.pins', key, ok, sample={'rule': 'C19.pins', 'cell': key, 'inputs': ins, 'outputs': outs} if ndefs % 60 == 1 else None)
            for p in problems:
                rep.violate('C19.pins', tmod, '<module>', f'{key} {" ".join(cd.body.split())}', f'{key}: {p}', node=node)
            seq = any('dff' in k.lower() or 'latch' in k.lower() for _, k, _ in cd.assigns)
            for t, kind, args in cd.assigns:
                kl = kind.lower()
                if 'dff' in kl or 'latch' in kl:
                    okp = True
                else:
                    okp = techdsl.resolve_prim(kind, len(args), rows) in luts
                rep.ob('C19.prim', f'{key}:{t}={kind}/{len(args)}', okp)
                if not okp:
                    rep.violate('C19.prim', tmod, '<module>', f'{key} {t}={kind}({",".join(args)})', f'{key}: kind {kind} with {len(args)} operands does not resolve to a simulation primitive', node=node)
            if seq or problems or cd.errors or not outs:
                if not seq and outs:
                    pass
                continue
            try:
                got, n = techdsl.eval_cell(cd, luts, rows, weights)
            except ValueError as e:
                rep.violate('C19.pins', tmod, '<module>', key, f'{key}: {e}', node=node)
                continue
            for nm in cd.names[:1]:
                exp = family_oracle(nm, ins, outs)
                if exp is None:
                    unclassified.append(f'{lib}:{cd.raw_name}')
                    continue
                nclass += 1
                if '__arity__' in exp:
                    k, have = exp['__arity__']
                    rep.ob('C19.func', key, False)
                    rep.violate('C19.func', tmod, '<module>', f'{key} {" ".join(cd.body.split())}', f'{key}: name denotes {k} inputs, definition declares {have}', node=node)
                    continue
                for o in outs:
                    ok = got.get(o) == exp.get(o)
                    rep.ob('C19.func', f'{key}.{o}', ok, evals=1 << n,
                           sample={'rule': 'C19.func', 'cell': key, 'pin': o, 'table': f'{got.get(o, 0):0{1 << n}b}', 'ok': ok} if nclass % 25 == 1 else None)
                    if not ok:
                        bad = [r for r in range(1 << n) if ((got.get(o, 0) ^ exp.get(o, 0)) >> r) & 1]
                        r0 = bad[0]
                        rep.violate('C19.func', tmod, '<module>', f'{key}.{o} {" ".join(cd.body.split())}',
                                    f'{key}: output {o} is not the {base_name(nm)} family function on {len(bad)} of {1 << n} input rows',
                                    witness={'inputs': dict(zip(ins, [(r0 >> j) & 1 for j in range(n)])), 'definition gives': (got.get(o, 0) >> r0) & 1, 'family': (exp.get(o, 0) >> r0) & 1}, node=node)
            # all expanded names of one definition share the family (strength/threshold suffixes only)
            fams = set(base_name(nm) for nm in cd.names)
            if len(fams) > 1 and any(family_oracle(nm, ins, outs) is not None for nm in cd.names):
                fo = [family_oracle(nm, ins, outs) for nm in cd.names]
                if any(f != fo[0] for f in fo):
                    rep.violate('C19.func', tmod, '<module>', key, f'{key}: brace alternatives expand to different families {sorted(fams)}', node=node)
    rep.floor('library definitions', ndefs, 260)
    rep.floor('classified combinational definitions', nclass, 150)
    rep.extra['unclassified'] = sorted(set(unclassified))
    rep.note(f'{ndefs} definitions, {nclass} classified; unclassified: {len(set(unclassified))}')


def ctor_evaluated(rep, repo, tmod, f):
    """TechLib.__init__ evaluated (Engine M) on the five library texts (constants of the source), with bench.parse replaced by a
    stand-in built from an independent reading of the cell body: the resulting name -> (implementation, pin table) dictionary must be
    what the cell syntax says. Returns False if the constructor is outside the evaluator subset."""
    from kvstatic import minieval
    _, libs = techdsl.library_sources(repo)

    def read_body(body):
        cd = techdsl.CellDef('?', '', body, '')
        techdsl.parse_bench_body(cd)
        return cd

    def stand_in(body):
        cd = read_body(body)
        driven = {t for t, _k, _a in cd.assigns}
        reads = Counter(a for _t, _k, args in cd.assigns for a in args)
        nodes = []
        for d, nm in cd.decl:
            nodes.append(minieval.NS(name=nm, ins=([] if (d == 'input' or nm not in driven) else ['drv']), outs=['r'] * reads.get(nm, 0)))
        c = minieval.NS(io_nodes=nodes, name=None, body=body)
        c.eliminate_1to1_forks = minieval.stub(lambda: None)
        return c
    bad = None
    ntot = 0
    # class-level attributes are shared by all instances (the module builds five libraries one after the other)
    shared = {}
    for st in tmod.cls('TechLib').body:
        if isinstance(st, ast.Assign) and len(st.targets) == 1 and isinstance(st.targets[0], ast.Name):
            try:
                shared[st.targets[0].id] = minieval.ev(st.value, {})
            except ModelError:
                pass
    try:
        for lib, text, _node in libs:
            me = minieval.NS(**shared)
            env = {'bench': minieval.NS(parse=minieval.stub(stand_in))}
            minieval.call_function(f, [me, text], env)
            got = getattr(me, 'cells', None)
            if not isinstance(got, dict):
                raise ModelError('TechLib.__init__ does not build self.cells')
            want = {}
            for chunk in re.split(r';\s+', text):
                st = re.sub(r'^\s+', '', chunk)
                k = st.find(' ')
                if k <= 0:
                    continue
                raw, body = st[:k], st[k:]
                cd = read_body(body)
                pins, i_idx, o_idx = {}, 0, 0
                driven = {t for t, _k, _a in cd.assigns}
                for d, nm in cd.decl:
                    if d == 'input' or nm not in driven:
                        pins[nm] = (i_idx, False)
                        i_idx += 1
                    else:
                        pins[nm] = (o_idx, True)
                        o_idx += 1
                parts = [x[1:-1].split(',') if x[0] == '{' else [x] for x in re.split(r'({[^}]+})', raw) if len(x) > 0]
                import itertools
                for item in itertools.product(*parts):
                    want[''.join(item)] = (body.strip(), pins)
            ntot += len(want)
            gotn = {k: (getattr(v[0], 'body', '?').strip(), dict(v[1])) for k, v in got.items() if isinstance(v, tuple) and len(v) == 2}
            if gotn != want and bad is None:
                missing = sorted(set(want) - set(gotn))[:5]
                extra = sorted(set(gotn) - set(want))[:5]
                diff = [k for k in want if k in gotn and gotn[k] != want[k]][:3]
                bad = (lib, missing, extra, [(k, gotn[k][1], want[k][1]) for k in diff])
    except ModelError as e:
        rep.note(f'C19.ctor: TechLib.__init__ outside the evaluator subset ({e}); structural rules used')
        return False
    ok = bad is None
    rep.ob('C19.ctor', f'TechLib.__init__ evaluated on the library texts: {ntot} names with their pin tables', ok, evals=ntot)
    if not ok:
        rep.violate('C19.ctor', tmod, f, 'name -> (implementation, pin table)', f'TechLib.__init__: for library {bad[0]} the constructor does not produce the documented table: '
                    f'names missing {bad[1]}, names not in the library text {bad[2]}, pin tables differing (name, built, documented) {bad[3]}: every name of the text expands to one '
                    f'definition and every declared pin is listed exactly once, inputs and outputs numbered separately in declaration order', node=f)
    return True


def lookups_evaluated(rep, repo, tmod):
    """pin_index / pin_is_output evaluated (Engine M) on a stand-in table: position and direction of a known pin, AssertionError for an
    unknown cell or pin."""
    from kvstatic import minieval
    rep.rule('C19.lookup', 'pin_index returns the recorded position and pin_is_output the recorded direction of (kind, pin); unknown cells and pins are rejected (AssertionError)')
    table = {'K1': ('impl', {'A': (3, False), 'B': (0, False), 'Z': (1, True), 'ZN': (0, True)}), 'K2': ('impl', {'A': (0, False)})}
    for q, col in (('TechLib.pin_index', 0), ('TechLib.pin_is_output', 1)):
        f = tmod.func(q)
        bad = None
        try:
            for kind in ('K1', 'K2', 'K3'):
                for pin in ('A', 'B', 'Z', 'ZN', 'Q'):
                    me = minieval.NS(cells=table)
                    try:
                        got = minieval.call_function(f, [me, kind, pin])
                    except AssertionError:
                        got = 'AssertionError'
                    except (KeyError, IndexError, TypeError) as e:
                        got = type(e).__name__
                    want = table[kind][1][pin][col] if kind in table and pin in table[kind][1] else 'AssertionError'
                    if (got != want or type(got) is not type(want)) and bad is None:
                        bad = (kind, pin, got, want)
        except ModelError as e:
            raise ModelError(f'C19.lookup: {q} is outside the evaluator subset ({e}): no verdict on the pin lookup')      # undecided, never a silent pass
        ok = bad is None
        rep.ob('C19.lookup', f'{q} on the stand-in table', ok, evals=15)
        if not ok:
            rep.violate('C19.lookup', tmod, f, q, f'{q}: for cell {bad[0]!r}, pin {bad[1]!r} of the table {table} it gives {bad[2]!r} instead of {bad[3]!r}: '
                        f'netlist pins would be connected to the wrong positions / directions', node=f)


def check_ctor(rep, tmod, f, facts):
    def rx(p):
        return str(re._parser.parse(p))
    exp = {'split_cells': r';\s+', 'split_braces': r'({[^}]+})'}
    for k, want in exp.items():
        ok = rx(facts[k]) == rx(want)
        rep.ob('C19.ctor', f'{k} = {facts[k]!r}', ok)
        if not ok:
            rep.violate('C19.ctor', tmod, f, f're.split({facts[k]!r}, ...)', f'TechLib.__init__: {k} regex {facts[k]!r} differs from the documented DSL syntax {want!r}', node=f)
    if 'chunk_eval' in facts:
        # evaluated: for every chunk of every library text the constructor's own statements must yield the documented
        # (name = text up to the first blank after stripping leading white space, body = the rest; skipped iff there is no such blank)
        _, libs = techdsl.library_sources(rep.repo)
        nchunks = 0
        bad = None
        for lib, text, _node in libs:
            for chunk in re.split(facts['split_cells'], text):
                nchunks += 1
                st = re.sub(r'^\s+', '', chunk)
                k = st.find(' ')
                want = None if k <= 0 else (st[:k], st[k:])
                try:
                    got = techdsl.chunk_name_body(facts, chunk)
                except (IndexError, KeyError, TypeError, ValueError) as e:
                    got = f'{type(e).__name__}: {e}'
                if got is not None and want is not None and not isinstance(got, str):
                    same = got[0] == want[0] and got[1].strip() == want[1].strip()
                else:
                    same = got == want
                if not same and bad is None:
                    bad = (lib, chunk.strip()[:60], want, got)
        ok = bad is None
        rep.ob('C19.ctor', f'name/body separation evaluated on all {nchunks} chunks of the library texts', ok, evals=nchunks)
        if not ok:
            rep.violate('C19.ctor', tmod, f, 'name/body separation', f'TechLib.__init__: for the {bad[0]} entry {bad[1]!r} the constructor yields {bad[3] if bad[3] is None or isinstance(bad[3], str) else (bad[3][0], bad[3][1][:40])} '
                        f'but the cell syntax says {None if bad[2] is None else (bad[2][0], bad[2][1][:40])} (name up to the first blank, the rest is the body; entries without a body are cells too)',
                        witness={'library': bad[0], 'entry': bad[1]}, node=f)
        ok = facts.get('split_braces_arg') == 'c.name' and facts.get('elim')
    else:
        ok = rx(facts['strip'][0]) == rx(r'^\s+') and facts['strip'][1] == '' and facts['name_sep'] == ' '
        rep.ob('C19.ctor', 'leading blanks stripped, name ends at first blank', ok)
        if not ok:
            rep.violate('C19.ctor', tmod, f, 'name/body separation', 'TechLib.__init__: cell name must be the text up to the first blank after stripping leading white space', node=f)
        ok = facts['bench_arg'] == 'c_str[name_len:]' and facts.get('split_braces_arg') == 'c.name' and facts.get('elim')
    rep.ob('C19.ctor', 'body parsed as bench, 1:1 forks eliminated, names expanded from c.name', ok)
    if not ok:
        rep.violate('C19.ctor', tmod, f, 'bench.parse(c_str[name_len:])', 'TechLib.__init__: body after the name must be parsed as bench code and the name expanded', node=f)
    # counters
    loops = [l for l in find_all(f, ast.For) if norm(l.iter) == 'c.io_nodes']
    ok = False
    if len(loops) == 1 and len(loops[0].body) == 1 and isinstance(loops[0].body[0], ast.If):
        iff = loops[0].body[0]
        n = norm(loops[0].target)
        t = norm(iff.test).replace(' ', '')
        b = [norm(s).replace(' ', '') for s in iff.body]
        e = [norm(s).replace(' ', '') for s in iff.orelse]
        if t == f'len({n}.ins)==0':
            ok = b == [f'pin_dict[{n}.name]=(i_idx,False)', 'i_idx+=1'] and e == [f'pin_dict[{n}.name]=(o_idx,True)', 'o_idx+=1']
        elif t in (f'len({n}.ins)>0', f'len({n}.ins)!=0'):
            ok = e == [f'pin_dict[{n}.name]=(i_idx,False)', 'i_idx+=1'] and b == [f'pin_dict[{n}.name]=(o_idx,True)', 'o_idx+=1']
        init = [norm(s).replace(' ', '') for s in find_all(f, ast.Assign) if 'i_idx' in target_names(s.targets[0])]
        ok = ok and init == ['i_idx,o_idx=(0,0)']
        # counters are reset per cell: the init statement is inside the per-cell loop
    rep.ob('C19.ctor', 'separate input/output counters in io_nodes order', ok, sample={'rule': 'C19.ctor', 'loop': norm(loops[0])[:300] if loops else None})
    if not ok:
        rep.violate('C19.ctor', tmod, f, loops[0] if loops else 'for n in c.io_nodes', 'TechLib.__init__: inputs (no driver) and outputs must be numbered 0..n-1 by separate counters in io_nodes order: '
                    'pin_dict[name] = (i_idx, False) / (o_idx, True)', node=loops[0] if loops else f)
    # pin_index / pin_is_output read the same tuple positions
    for fn, pos in (('TechLib.pin_index', 0), ('TechLib.pin_is_output', 1)):
        g = tmod.func(fn)
        rets = [r for r in find_all(g, ast.Return)]
        ok = len(rets) == 1 and norm(rets[0].value).replace(' ', '') == f'self.cells[kind][1][pin][{pos}]'
        rep.ob('C19.ctor', fn, ok)
        if not ok:
            rep.violate('C19.ctor', tmod, g, rets[0] if rets else fn, f'{fn} must return self.cells[kind][1][pin][{pos}] (position of the {"index" if pos == 0 else "direction"} in the pin tuple)', node=g)
    st = [s for s in find_all(f, ast.Assign) if norm(s.targets[0]).replace(' ', '') == 'self.cells[name]']
    ok = len(st) == 1 and norm(st[0].value).replace(' ', '') == '(c,pin_dict)'
    rep.ob('C19.ctor', 'self.cells[name] = (c, pin_dict)', ok)
    if not ok:
        rep.violate('C19.ctor', tmod, f, st[0] if st else 'self.cells[name]', 'every expanded name must map to (implementation circuit, pin table)', node=f)


def depends(rep, repo):
    """"Primitive selection by kind prefix" (sim.py) is the mechanism that gives a library cell its function: the evaluated
    node -> op translation rule of C01 (C01.wiring, includes constants and tie cells) is part of this check."""
    from checks import c01
    c01.wiring_rules(rep, repo)
    # TechLib.__init__ post-processes every implementation circuit with eliminate_1to1_forks: its rules (C10.elim) and the removal
    # primitive it uses (C09.remove) are part of this check
    from checks import c09, c10
    cmod = repo.mod('circuit')
    if not c10.function_rules(rep, repo, cmod, what=('elim',)):
        c09.removal(rep, cmod)


def thorough(rep, repo):
    """Thorough tier: the quick rules plus checker self-validation on the C19 slice of the mutation corpus."""
    from kvstatic import thorough as thorough_mod
    thorough_mod.selftest_slice(rep, repo, 'C19')
