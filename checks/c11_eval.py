"""C11.netlist - the Verilog transformer evaluated (Engine M) on a family of small module descriptions.

A module description (ports, declarations, instances, assigns) is turned into the parse tree the grammar yields for its text (the agreement of
grammar and callbacks in arity and kind is rule C11.grammar); the transformer's own callbacks are applied bottom-up the way lark's Transformer
does, in Engine M, with Circuit / Node / Line replaced by stand-ins that implement the documented constructor semantics (kvstatic/netmodel.py) and
the technology library by a four-cell pin table; the resulting netlist is compared with the netlist the description means:

  * io_nodes are the port bits in header order, bus bits in declared range order;
  * every connected input pin of every instance is fed (through forks only) by the source the description names: an input port bit, an output pin
    of an instance, a constant of the right value, or nothing (undriven); unconnected pins stay unconnected;
  * every output port bit is fed by its source; assigns connect both ways round (whichever side is driven drives the other), constants expand
    MSB first, concatenations flatten in order, escaped identifiers lose the backslash and the terminating blank;
  * with branchforks every reader pin has its own fork `<signal>~<instance>/<pin>` behind the signal's fork, without it none.

Returns False when a callback is outside the evaluator subset (the structural rules of C11 decide then)."""
from __future__ import annotations

import ast
import collections

from kvstatic.core import ModelError
from kvstatic import minieval, netmodel
from kvstatic.minieval import NS, stub

PINS = {'AND2': (['A1', 'A2'], ['ZN']), 'INV': (['A'], ['ZN']), 'DFF': (['D', 'CK'], ['Q', 'QN']), 'HA': (['A', 'B'], ['S', 'CO'])}


class Tok(NS):
    pass


def T(rule, *children):
    return NS(data=rule, children=list(children), _tree=True)


def name_t(s):
    return T('name', Tok(value=s))


def range_t(r):
    if isinstance(r, int):
        return T('range', Tok(value=str(r)))
    return T('range', Tok(value=str(r[0])), Tok(value=str(r[1])))


def sig_t(sig):
    """sig: 'name' | ('name', idx) | ('name', (l, r)) | ('const', text) | ('concat', [sig, ...])"""
    if isinstance(sig, str):
        return T('sigsel', name_t(sig))
    if sig[0] == 'const':
        return T('sigsel', name_t(sig[1]))
    if sig[0] == 'concat':
        return T('sigsel', T('concat', *[sig_t(x) for x in sig[1]]))
    return T('sigsel', name_t(sig[0]), range_t(sig[1]))


def module_t(d):
    st = []
    for s in d['stmts']:
        if s[0] == 'decl':
            _, kind, rng, names = s
            st.append(T(kind, *([range_t(rng)] if rng is not None else []), *[name_t(n) for n in names]))
        elif s[0] == 'inst':
            _, typ, nm, pins = s
            pl = []
            for p, sig in pins:
                if isinstance(p, int):
                    pl.append(T('pin', sig_t(sig)))         # positional: the k-th pin in the list
                else:
                    pl.append(T('pin', T('namedpin', name_t(p), *([sig_t(sig)] if sig is not None else []))))
            st.append(T('instantiation', name_t(typ), name_t(nm), *pl))
        elif s[0] == 'assign':
            st.append(T('assign', sig_t(s[1]), sig_t(s[2])))
    return T('module', name_t(d['name']), T('parameters', *[name_t(p) for p in d['ports']]), *st)


# ------------------------------------------------------------------------------------------------ what the description means

def _plain(n):
    """escaped identifier -> name"""
    return n[1:-1] if n.startswith('\\') else n


def _pname(typ, p):
    """positional pins: position 0 is the (first) output, position k >= 1 the k-th input"""
    if isinstance(p, int):
        return PINS[typ][1][0] if p == 0 else PINS[typ][0][p - 1]
    return p


def meaning(d):
    d = dict(d, stmts=[(s[0], s[1], s[2], [(_pname(s[1], p), sig) for p, sig in s[3]]) if s[0] == 'inst' else s for s in d['stmts']])
    decl = {}
    for s in d['stmts']:
        if s[0] == 'decl':
            _, kind, rng, names = s
            for n in names:
                n = _plain(n)
                if n not in decl or decl[n][0] == 'wire':
                    decl[n] = ('input' if kind == 'inout' else kind, rng)

    def rbits(rng):
        if isinstance(rng, int):
            return [rng]
        l, r = rng
        return list(range(l, r + 1)) if l <= r else list(range(l, r - 1, -1))

    def bits_of_name(n):
        n = _plain(n)
        if n in decl and decl[n][1] is not None:
            return [f'{n}[{i}]' for i in rbits(decl[n][1])]
        return [n]

    def bits(sig):
        if isinstance(sig, str):
            return bits_of_name(sig)
        if sig[0] == 'const':
            w, rest = sig[1].split("'")
            val = int(rest[1:], {'b': 2, 'd': 10, 'h': 16}[rest[0].lower()])
            return [f"1'b{(val >> k) & 1}" for k in reversed(range(int(w)))]
        if sig[0] == 'concat':
            out = []
            for x in sig[1]:
                out += bits(x)
            return out
        return [f'{_plain(sig[0])}[{i}]' for i in rbits(sig[1])]
    ports = []
    for p in d['ports']:
        p = _plain(p)
        for b in bits_of_name(p):
            ports.append((decl[p][0], b))
    driver = {}
    for n, (kind, rng) in decl.items():
        if kind == 'input':
            for b in bits_of_name(n):
                driver[b] = ('input', b, 0)
    for s in d['stmts']:
        if s[0] == 'inst':
            _, typ, nm, pins = s
            for p, sig in pins:
                if sig is not None and p in PINS[typ][1]:
                    b = bits(sig)
                    assert len(b) == 1
                    driver[b[0]] = (typ, _plain(nm), PINS[typ][1].index(p))
    alias = []
    for s in d['stmts']:
        if s[0] == 'assign':
            for t, src in zip(bits(s[1]), bits(s[2])):
                if src.startswith("1'b") and t not in driver:
                    driver[t] = (f'__const{src[3]}__', None, 0)
                elif t in driver and src not in driver:
                    driver[src] = driver[t]
                    alias.append((t, src))
                elif src in driver and t not in driver:
                    driver[t] = driver[src]
                    alias.append((src, t))
    reads = {}
    for s in d['stmts']:
        if s[0] == 'inst':
            _, typ, nm, pins = s
            for p, sig in pins:
                if p in PINS[typ][0]:
                    if sig is None:
                        reads[(_plain(nm), p)] = None
                        continue
                    b = bits(sig)
                    assert len(b) == 1
                    b = b[0]
                    if b.startswith("1'b"):
                        reads[(_plain(nm), p)] = ((f'__const{b[3]}__', None, 0), b)
                    else:
                        if b not in driver and f'{b}[0]' in driver:
                            b = f'{b}[0]'
                        reads[(_plain(nm), p)] = (driver.get(b, ('undriven', b, 0)), b)
    outs = {}
    for kind, b in ports:
        if kind == 'output':
            outs[b] = driver.get(b)
    for n, (kind, rng) in decl.items():
        if kind == 'output':
            for b in bits_of_name(n):
                if b not in outs:
                    outs[b] = driver.get(b)
    return ports, reads, outs


# ------------------------------------------------------------------------------------------------ the family of descriptions

def descriptions():
    base = [
        ('decl', 'input', None, ['a', 'ck']), ('decl', 'input', (1, 0), ['b']), ('decl', 'output', None, ['y']), ('decl', 'output', (1, 0), ['z']),
        ('decl', 'wire', None, ['w1', 'w2']),
        ('inst', 'AND2', 'u1', [('A1', 'a'), ('A2', ('b', 1)), ('ZN', 'w1')]),
        ('inst', 'INV', 'u2', [('A', 'w1'), ('ZN', 'y')]),
        ('inst', 'DFF', 'f1', [('D', 'w1'), ('CK', 'ck'), ('Q', ('z', 1)), ('QN', 'w2')]),
        ('assign', ('z', 0), ('b', 0)),
    ]
    yield dict(name='m', ports=['a', 'ck', 'b', 'y', 'z'], stmts=base)
    # header order differs from declaration order; ascending bus; single-index range
    yield dict(name='m', ports=['z', 'a', 'y', 'b', 'ck'], stmts=base)
    yield dict(name='m', ports=['a', 'b', 'y'], stmts=[
        ('decl', 'input', None, ['a']), ('decl', 'input', (0, 2), ['b']), ('decl', 'output', None, ['y']), ('decl', 'wire', (3, 3), ['w']),
        ('inst', 'AND2', 'g', [('A1', ('b', 0)), ('A2', ('b', 2)), ('ZN', ('w', 3))]), ('inst', 'AND2', 'h', [('A1', ('w', 3)), ('A2', 'a'), ('ZN', 'y')])])
    # instances before declarations; readers before drivers; an output also declared as wire (both orders)
    yield dict(name='m', ports=['a', 'y'], stmts=[
        ('inst', 'INV', 'i2', [('A', 'n'), ('ZN', 'y')]), ('inst', 'INV', 'i1', [('A', 'a'), ('ZN', 'n')]),
        ('decl', 'wire', None, ['y']), ('decl', 'output', None, ['y']), ('decl', 'input', None, ['a']), ('decl', 'wire', None, ['n'])])
    yield dict(name='m', ports=['a', 'y'], stmts=[
        ('decl', 'output', None, ['y']), ('decl', 'wire', None, ['y', 'n']), ('decl', 'input', None, ['a']),
        ('inst', 'INV', 'i1', [('A', 'a'), ('ZN', 'n')]), ('inst', 'INV', 'i2', [('A', 'n'), ('ZN', 'y')])])
    # constants at pins (0 and 1), unconnected pins, fan-out, two-output cell, undriven signal
    yield dict(name='m', ports=['a', 'y', 'q'], stmts=[
        ('decl', 'input', None, ['a']), ('decl', 'output', None, ['y', 'q']), ('decl', 'wire', None, ['s', 'c', 'u']),
        ('inst', 'AND2', 'g0', [('A1', ('const', "1'b0")), ('A2', 'a'), ('ZN', 's')]),
        ('inst', 'AND2', 'g1', [('A1', 's'), ('A2', ('const', "1'b1")), ('ZN', 'c')]),
        ('inst', 'HA', 'h', [('A', 's'), ('B', 'c'), ('S', 'y'), ('CO', 'q')]),
        ('inst', 'AND2', 'g2', [('A1', 's'), ('A2', None), ('ZN', None)]),
        ('inst', 'INV', 'g3', [('A', 'u'), ('ZN', None)]),
        ('inst', 'AND2', 'g4', [('ZN', None), ('A2', 's'), ('A1', 'a')]),            # pins named in another order than their positions
        ('inst', 'AND2', 'g5', [('A1', None), ('A2', 'c'), ('ZN', None)])])          # an unconnected pin in front of a connected one
    # assigns: constant to a wire, multi-bit constant to a bus (MSB first), hex / decimal, concatenation, alias in both directions
    yield dict(name='m', ports=['a', 'o'], stmts=[
        ('decl', 'input', (1, 0), ['a']), ('decl', 'output', (3, 0), ['o']), ('decl', 'wire', None, ['k', 't']), ('decl', 'wire', (2, 0), ['v']),
        ('assign', 'v', ('const', "3'b110")), ('assign', 'k', ('const', "1'h1")),
        ('inst', 'AND2', 'g', [('A1', ('v', 2)), ('A2', ('v', 0)), ('ZN', 't')]),
        ('inst', 'AND2', 'h', [('A1', 'k'), ('A2', ('v', 1)), ('ZN', ('o', 3))]),
        ('assign', ('concat', [('o', 2), ('o', 1)]), ('concat', [('a', 0), 't'])),
        ('assign', ('o', 0), ('const', "1'd0"))])
    yield dict(name='m', ports=['a', 'o'], stmts=[
        ('decl', 'input', None, ['a']), ('decl', 'output', (1, 0), ['o']), ('decl', 'wire', (1, 0), ['x']),
        ('inst', 'INV', 'i', [('A', 'a'), ('ZN', ('x', 1))]), ('inst', 'INV', 'j', [('A', ('x', 1)), ('ZN', ('x', 0))]),
        ('assign', ('o', (1, 0)), ('x', (1, 0)))])
    yield dict(name='m', ports=['a', 'o'], stmts=[
        ('decl', 'input', None, ['a']), ('decl', 'output', None, ['o']), ('decl', 'wire', None, ['x']),
        ('inst', 'INV', 'i', [('A', 'a'), ('ZN', 'x')]), ('assign', 'x', 'o')])         # the driven side on the left
    # escaped identifiers; a one-bit bus named without its index at a pin; 4-bit decimal constant; inout
    yield dict(name='m', ports=['\\a.b ', 'y'], stmts=[
        ('decl', 'input', None, ['\\a.b ']), ('decl', 'output', None, ['y']), ('decl', 'wire', (0, 0), ['n']),
        ('inst', 'INV', '\\u[1] ', [('A', '\\a.b '), ('ZN', ('n', 0))]), ('inst', 'INV', 'v', [('A', 'n'), ('ZN', 'y')])])
    # a one-bit bus driven under its bare name and read with its index (and the other way round); an escaped identifier that ends with a tab
    yield dict(name='m', ports=['a', 'y'], stmts=[
        ('decl', 'input', (0, 0), ['a']), ('decl', 'output', None, ['y']), ('decl', 'wire', (5, 5), ['w']), ('decl', 'wire', (2, 2), ['v']),
        ('inst', 'INV', '\\g.1\t', [('A', 'a'), ('ZN', 'w')]), ('inst', 'INV', 'h', [('A', ('w', 5)), ('ZN', ('v', 2))]), ('inst', 'INV', 'k', [('A', 'v'), ('ZN', 'y')])])
    yield dict(name='m', ports=['p', 'o'], stmts=[
        ('decl', 'inout', None, ['p']), ('decl', 'output', (3, 0), ['o']), ('assign', 'o', ('const', "4'd10")),
        ('inst', 'INV', 'i', [('A', 'p'), ('ZN', None)])])
    # ordinary signals that happen to carry the names of supply nets
    yield dict(name='m', ports=['a', 'y'], stmts=[
        ('decl', 'input', None, ['a']), ('decl', 'output', None, ['y']), ('decl', 'wire', None, ['vdd', 'GND', 'vss']),
        ('inst', 'INV', 'i0', [('A', 'a'), ('ZN', 'vdd')]), ('inst', 'INV', 'i1', [('A', 'vdd'), ('ZN', 'GND')]),
        ('inst', 'AND2', 'i2', [('A1', 'GND'), ('A2', 'vss'), ('ZN', 'y')]), ('assign', 'vss', 'a')])
    yield dict(name='m', ports=['p', 'o', 'r'], stmts=[
        ('decl', 'input', None, ['p']), ('decl', 'output', (4, 0), ['o']), ('decl', 'output', (1, 0), ['r']), ('assign', 'o', ('const', "5'h1A")),
        ('assign', 'r', ('const', "2'B10")), ('inst', 'INV', 'i', [('A', 'p'), ('ZN', None)])])
    # positional pins (output first) - without branch forks only: the branch-fork name needs a pin name
    yield dict(name='m', ports=['a', 'b', 'y'], positional=True, stmts=[
        ('decl', 'input', None, ['a', 'b']), ('decl', 'output', None, ['y']), ('decl', 'wire', None, ['n']),
        ('inst', 'AND2', 'g', [(0, 'n'), (1, 'a'), (2, 'b')]), ('inst', 'INV', 'i', [(0, 'y'), (1, 'n')])])
    yield dict(name='m', ports=['p', 'o'], stmts=[
        ('decl', 'input', (2, 1), ['p']), ('decl', 'output', (0, 1), ['o']), ('decl', 'wire', None, ['e']),
        ('inst', 'AND2', 'g', [('A1', ('p', 2)), ('A2', ('p', 1)), ('ZN', ('o', 1))]), ('inst', 'INV', 'i', [('A', ('o', 1)), ('ZN', ('o', 0))]),
        ('inst', 'DFF', 'f', [('D', ('o', 0)), ('CK', ('p', 1)), ('Q', None), ('QN', 'e')])])


# ------------------------------------------------------------------------------------------------ evaluation

def evaluate(rep, repo, vmod):
    from kvstatic.core import cached_rules
    return cached_rules(rep, repo, 'c11.netlist', ['verilog'], lambda r: _evaluate(r, repo, vmod))


def _evaluate(rep, repo, vmod):
    cls = vmod.cls('VerilogTransformer')
    tree = vmod.tree
    rep.rule('C11.netlist', 'the Verilog transformer evaluated on a family of module descriptions (buses both ways, header order, declaration order, constants, '
                            'concatenations, assigns both ways, escaped names, unconnected pins, two-output cells, undriven signals; with and without branch forks): '
                            'ports, every pin connection, every output and the fork structure equal what the description means')
    funcs = {st.name: st for st in cls.body if isinstance(st, ast.FunctionDef)}
    log = NS(warn=stub(lambda *a: None), info=stub(lambda *a: None), debug=stub(lambda *a: None))

    def pin_index(kind, pin):
        i, o = PINS[kind]
        if isinstance(pin, int) and not isinstance(pin, bool):
            return max(0, pin - 1)
        if pin in i:
            return i.index(pin)
        if pin in o:
            return o.index(pin)
        raise AssertionError(f'unknown pin {pin}')

    def pin_is_output(kind, pin):
        i, o = PINS[kind]
        if isinstance(pin, int) and not isinstance(pin, bool):
            return pin == 0
        if pin not in i and pin not in o:
            raise AssertionError(f'unknown pin {pin}')
        return pin in o
    tlib = NS(pin_index=stub(pin_index), pin_is_output=stub(pin_is_output))
    genv = dict(netmodel.env())
    genv['log'] = log
    for st in tree.body:
        if isinstance(st, ast.ClassDef) and st.name != cls.name:
            genv[st.name] = minieval.make_class(st, genv)
        elif isinstance(st, ast.Assign) and len(st.targets) == 1 and isinstance(st.targets[0], ast.Name) and isinstance(st.value, ast.Call) \
                and getattr(st.value.func, 'id', None) == 'namedtuple' and len(st.value.args) == 2:
            try:
                fields = ast.literal_eval(st.value.args[1])
            except ValueError:
                raise ModelError('namedtuple with non-constant fields')
            nt = collections.namedtuple(st.targets[0].id, fields)
            nt._kv_class = True
            genv[st.targets[0].id] = nt
    for st in tree.body:          # module-level constant tables
        if isinstance(st, ast.Assign) and len(st.targets) == 1 and isinstance(st.targets[0], ast.Name) and st.targets[0].id not in genv:
            try:
                genv[st.targets[0].id] = ast.literal_eval(st.value)
            except (ValueError, SyntaxError):
                pass
    minieval.module_functions(tree, genv)
    bad = None
    ncase = 0

    def transform(me, t):
        if not getattr(t, '_tree', False):
            return t
        ch = [transform(me, c) for c in t.children]
        fd = funcs.get(t.data)
        if fd is None:
            return NS(data=t.data, children=ch)
        decos = {d.id if isinstance(d, ast.Name) else getattr(d, 'attr', None) for d in fd.decorator_list}
        if decos - {'staticmethod'}:
            raise ModelError(f'callback {t.data} has an unmodelled decorator')
        return minieval.call_function(fd, ([] if 'staticmethod' in decos else [me]) + [ch], genv)

    for d in descriptions():
        ports, reads, outs = meaning(d)
        for bf in ((False,) if d.get('positional') else (False, True)):
            ncase += 1
            me = NS(branchforks=bf, tlib=tlib)
            minieval.bind_class(me, cls, genv, skip=('__init__',))
            try:
                c = transform(me, module_t(d))
            except ModelError:
                raise
            except (IndexError, KeyError, TypeError, AttributeError, ValueError, RuntimeError, AssertionError) as e:
                why = f'raises {type(e).__name__}: {e}'
                c = None
            if c is not None:
                why = compare(c, d, ports, reads, outs, bf)
            if why and bad is None:
                bad = (why, d, bf)
    ok = bad is None
    rep.ob('C11.netlist', f'netlist of {ncase} module descriptions', ok, evals=ncase)
    if not ok:
        why, d, bf = bad
        text = '; '.join(_show(s) for s in d['stmts'])
        rep.violate('C11.netlist', vmod, cls.name + '.module', 'module', f'VerilogTransformer (branchforks={bf}): {why} - for `module {d["name"]}({", ".join(d["ports"])}); {text[:700]}`',
                    node=funcs.get('module'))
    rep.floor('module descriptions the Verilog transformer was evaluated on', ncase, 20)
    return True


def _show(s):
    def sg(x):
        if x is None:
            return ''
        if isinstance(x, str):
            return x
        if x[0] == 'const':
            return x[1]
        if x[0] == 'concat':
            return '{' + ', '.join(sg(y) for y in x[1]) + '}'
        return f'{x[0]}[{x[1]}]' if isinstance(x[1], int) else f'{x[0]}[{x[1][0]}:{x[1][1]}]'
    if s[0] == 'decl':
        return f'{s[1]} {"[%s:%s] " % s[2] if isinstance(s[2], tuple) else ""}{", ".join(s[3])}'
    if s[0] == 'inst':
        return f'{s[1]} {s[2]}({", ".join(".%s(%s)" % (p, sg(x)) for p, x in s[3])})'
    return f'assign {sg(s[1])} = {sg(s[2])}'


def compare(c, d, ports, reads, outs, bf):
    if not isinstance(c, netmodel.CircuitNS):
        return f'module() returns {type(c).__name__}, not the circuit'
    got_ports = [(getattr(n, 'kind', None), getattr(n, 'name', None)) if n is not None else None for n in c.io_nodes]
    if got_ports != ports:
        return f'io_nodes are {got_ports}; the header means {ports}'
    for (inst, pin), want in reads.items():
        cell = c.cells.get(inst)
        if cell is None:
            return f'instance {inst} is missing'
        typ = cell.kind
        if typ not in PINS:
            return f'instance {inst} has kind {typ}'
        k = PINS[typ][0].index(pin)
        line = cell.ins[k] if k < len(cell.ins) else None
        if want is None:
            if line is not None:
                return f'pin {inst}/{pin} is left unconnected in the text but is connected in the netlist'
            continue
        if line is None:
            return f'pin {inst}/{pin} is not connected; it reads {want[1]}'
        src, hops = netmodel.source_of(line)
        wsrc, sig = want
        if wsrc[0].startswith('__const'):
            okc = src[0] == wsrc[0]
        elif wsrc[0] == 'undriven':
            okc = src[0] == 'undriven'
        else:
            okc = src == wsrc
        if not okc:
            return f'pin {inst}/{pin} is fed by {src}; the text connects it to {sig}, which is driven by {wsrc}'
        if bf:
            if len(hops) < 2 or hops[0] != f'{hops[1]}~{inst}/{pin}':
                return f'pin {inst}/{pin}: with branchforks the reader must sit behind its own fork `<signal>~{inst}/{pin}`; forks on the way: {hops}'
        else:
            if any('~' in h for h in hops):
                return f'pin {inst}/{pin}: a branch fork {hops} although branchforks is off'
    for b, wsrc in outs.items():
        cell = c.cells.get(b)
        if cell is None or cell.kind != 'output':
            return f'output port bit {b} has no port node'
        line = cell.ins[0] if len(cell.ins) > 0 else None
        if wsrc is None:
            if line is not None:
                src, _ = netmodel.source_of(line)
                if src[0] != 'undriven':
                    return f'output {b} is not driven in the text but fed by {src} in the netlist'
            continue
        if line is None:
            return f'output {b} is not connected; the text drives it from {wsrc}'
        src, _ = netmodel.source_of(line)
        okc = (src[0] == wsrc[0]) if wsrc[0].startswith('__const') else (src == wsrc)
        if not okc:
            return f'output {b} is fed by {src}; the text drives it from {wsrc}'
    for s in d['stmts']:
        if s[0] == 'inst':
            nm = _plain(s[2])
            cell = c.cells.get(nm)
            if cell is None or cell.kind != s[1]:
                return f'instance {nm} of type {s[1]} is missing or has kind {getattr(cell, "kind", None)}'
    return None
