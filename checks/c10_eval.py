"""C10.function - substitute / resolve_tlib_cells / eliminate_1to1_forks evaluated (Engine M) on small circuits, with kyupy's own Node / Line /
Circuit classes evaluated as well (kvstatic/graphmodel.py), and compared by *function*: a small netlist evaluator written for this rule computes,
for every assignment of the inputs and state variables, the value of every output port and of every state-element input before the edit (library
cells evaluated through their implementation circuit) and after it (the flattened netlist). They must agree, the graph must be consistent (indices,
name tables, back-references), state elements must carry the instance name, and after fork elimination no inner fork with exactly one reader remains.

Returns False when the methods are outside the evaluator subset (the structural rules of C10 decide then)."""
from __future__ import annotations

import itertools

from kvstatic.core import ModelError
from kvstatic import graphmodel as G
from kvstatic.minieval import NS

ERR = (IndexError, KeyError, TypeError, AttributeError, ValueError, AssertionError, RuntimeError)


# ------------------------------------------------------------------------------------------------ construction helpers

def bench_like(env, name, inputs, outputs, gates):
    """a circuit in the shape the bench parser / TechLib produce: ports are forks, every gate is a cell with a same-named fork behind it,
    then 1:1 forks are eliminated (with the evaluated method)"""
    C, N, L = env['Circuit'], env['Node'], env['Line']
    c = C(name)
    forks = {}
    for i in inputs:
        forks[i] = N(c, i)
        c.io_nodes.append(forks[i])
    for o, kind, ins in gates:
        cell = N(c, o, kind)
        if o not in forks:
            forks[o] = N(c, o)
        L(c, cell, forks[o])
    for o, kind, ins in gates:
        for k, i in enumerate(ins):
            if i is not None:
                L(c, forks[i], (c.cells[o], k))
    for o in outputs:
        c.io_nodes.append(forks[o])
    c.eliminate_1to1_forks()
    return c


def cell_style(env, name, inputs, outputs, gates, outputs_first=False):
    """an implementation whose ports are cells (input / output kinds) and whose signals are forks - the shape a parsed Verilog module has:
    an output port may be fed by a branch (index > 0) of an inner fork"""
    C, N, L = env['Circuit'], env['Node'], env['Line']
    c = C(name)
    forks = {}
    for i in inputs:
        p = N(c, i, 'input')
        forks[i] = N(c, i)
        L(c, p, forks[i])
        c.io_nodes.append(p)
    for o, kind, ins in gates:
        cell = N(c, o + '_g', kind)
        forks[o] = N(c, o)
        L(c, cell, forks[o])
    def readers():
        for o, kind, ins in gates:
            for k, i in enumerate(ins):
                if i is not None:
                    L(c, forks[i], (c.cells[o + '_g'], k))
    if not outputs_first:
        readers()
    for o in outputs:
        p = N(c, o + '_po', 'output')
        L(c, forks[o], p)
        c.io_nodes.append(p)
    if outputs_first:
        readers()          # the output port hangs on branch 0 of its fork, the inner readers on later branches
    return c


def host(env, kind, n_in, n_out, in_conn, out_conn, style, second=False):
    """PIs p0.. (input cells behind forks), one (or two) instance(s) of `kind`, POs o0.. ; in_conn / out_conn: which pins are connected"""
    C, N, L = env['Circuit'], env['Node'], env['Line']
    c = C('host')
    pis = []
    for k in range(max(n_in, 1)):
        p = N(c, f'p{k}', 'input')
        f = N(c, f'p{k}')
        L(c, p, f)
        c.io_nodes.append(p)
        pis.append(f)
    insts = ['u1', 'u2'] if second else ['u1']
    npo = 0
    for inst in insts:
        u = N(c, inst, kind)
        for k in range(n_in):
            if in_conn[k]:
                if style == 'branch':
                    b = N(c, f'p{k}~{inst}/{k}')
                    L(c, pis[k], b)
                    L(c, b, (u, k))
                else:
                    L(c, pis[k], (u, k))
        for k in range(n_out):
            if out_conn[k]:
                f = N(c, f'{inst}_o{k}')
                L(c, (u, k), f)
                o = N(c, f'o{npo}', 'output')
                npo += 1
                L(c, f, o)
                c.io_nodes.append(o)
                if k == 0 and style == 'gate':
                    g = N(c, f'{inst}_g', 'INV')
                    L(c, f, g)
                    og = N(c, f'o{npo}', 'output')
                    npo += 1
                    L(c, g, og)
                    c.io_nodes.append(og)
    return c


# ------------------------------------------------------------------------------------------------ consistency and function

def consistent(c):
    for k, n in enumerate(c.nodes):
        if n.index != k:
            return f'node {n.name} at position {k} has index {n.index}'
        tab = c.forks if n.kind == '__fork__' else c.cells
        if tab.get(n.name) is not n:
            return f'node {n.name} ({n.kind}) is not found under its name'
        for pins, mine, pin in ((n.ins, 'reader', 'reader_pin'), (n.outs, 'driver', 'driver_pin')):
            for p, l in enumerate(pins):
                if l is None:
                    continue
                if not any(l is x for x in c.lines):
                    return f'pin {p} of {n.name} references a line that is not in circuit.lines'
                if getattr(l, mine) is not n or getattr(l, pin) != p:
                    return f'pin {p} of {n.name} holds a line that records {getattr(getattr(l, mine), "name", None)}.{getattr(l, pin)} as its {mine} end'
    if len(c.forks) + len(c.cells) != len(c.nodes):
        return 'name tables and circuit.nodes differ in size'
    for k, l in enumerate(c.lines):
        if l.index != k:
            return f'line at position {k} has index {l.index}'
        if l.driver is None or l.reader is None:
            return f'line {k} has lost an end'
        if not (l.driver_pin < len(l.driver.outs) and l.driver.outs[l.driver_pin] is l):
            return f'line {k} is not referenced from {l.driver.name}.outs[{l.driver_pin}]'
        if not (l.reader_pin < len(l.reader.ins) and l.reader.ins[l.reader_pin] is l):
            return f'line {k} is not referenced from {l.reader.name}.ins[{l.reader_pin}]'
        if not any(l.driver is x for x in c.nodes) or not any(l.reader is x for x in c.nodes):
            return f'line {k} connects a node that is not in the circuit'
    for n in c.forks.values():
        if any(l is None for l in n.outs):
            return f'fork {n.name} has a gap in its outputs'
    return None


_TABLES = {}


def _fn(kind, v):
    k = kind.lower()
    g = lambda i: v[i] if i < len(v) else 0      # noqa: E731
    if k in GENERIC:
        # function preservation does not depend on which function a primitive computes, only on the same function being used before and after:
        # an arbitrary but fixed, input-asymmetric truth table per kind (so that exchanged, dropped or duplicated pins show)
        import random
        if k not in _TABLES:
            _TABLES[k] = random.Random('kv' + k).getrandbits(16) | 0x8001 ^ 0x0001
        row = g(0) + 2 * g(1) + 4 * g(2) + 8 * g(3)
        return (_TABLES[k] >> row) & 1
    if k.startswith('and'):
        return g(0) & g(1)
    if k.startswith('or'):
        return g(0) | g(1)
    if k.startswith('xor'):
        return g(0) ^ g(1)
    if k.startswith('inv'):
        return 1 - g(0)
    if k.startswith('buf'):
        return g(0)
    if k.startswith('mux'):
        return g(1) if g(2) else g(0)
    if k == '__const1__':
        return 1
    if k == '__const0__':
        return 0
    raise ModelError(f'evaluator: unknown primitive {kind}')


def observe(c, tlib, assign, prefix=''):
    """{port / state-input name: value}. Library cells are evaluated through their implementation."""
    ios = list(c.io_nodes)
    memo = {}

    def state(n):
        return 'dff' in n.kind.lower() or 'latch' in n.kind.lower()

    def out(n, pin, depth=0):
        key = (id(n), pin)
        if key in memo:
            return memo[key]
        if depth > 60:
            raise ModelError('evaluator: combinational loop')
        if n.kind == '__fork__':
            if any(n is x for x in ios) and len(n.ins) == 0:
                r = assign[prefix + n.name]
            else:
                r = val(n.ins[0] if len(n.ins) else None, depth)
        elif n.kind == 'input':
            r = assign[prefix + n.name]
        elif state(n) and n.kind not in tlib:
            q = assign['S:' + prefix + n.name]
            r = q if pin == 0 else 1 - q
        elif n.kind in tlib:
            impl, designated = tlib[n.kind]
            sub = {}
            ins_ = [x for x in impl.io_nodes if len(x.ins) == 0]
            for k, x in enumerate(ins_):
                sub[x.name] = val(n.ins[k] if k < len(n.ins) else None, depth)
            for x in impl.nodes:
                if state(x):
                    nm = (prefix + n.name) if x.name == designated else f'{prefix}{n.name}~{x.name}'
                    sub['S:' + x.name] = assign['S:' + nm]
            obs = observe(impl, {}, sub)
            outs_ = [x for x in impl.io_nodes if len(x.ins) > 0]
            r = obs[outs_[pin].name]
        else:
            r = _fn(n.kind, [val(l, depth) for l in n.ins])
        memo[key] = r
        return r

    def val(l, depth=0):
        if l is None:
            return 0
        return out(l.driver, l.driver_pin, depth + 1)
    res = {}
    for n in ios:
        if len(n.ins) > 0:
            res[prefix + n.name] = val(n.ins[0])
    for n in c.nodes:
        if state(n) and n.kind not in tlib:
            res['D:' + prefix + n.name] = val(n.ins[0] if len(n.ins) else None)
        elif n.kind in tlib:
            impl, designated = tlib[n.kind]
            for x in impl.nodes:
                if state(x):
                    nm = (prefix + n.name) if x.name == designated else f'{prefix}{n.name}~{x.name}'
                    sub = {}
                    ins_ = [y for y in impl.io_nodes if len(y.ins) == 0]
                    for k, y in enumerate(ins_):
                        sub[y.name] = val(n.ins[k] if k < len(n.ins) else None)
                    for y in impl.nodes:
                        if state(y):
                            nm2 = (prefix + n.name) if y.name == designated else f'{prefix}{n.name}~{y.name}'
                            sub['S:' + y.name] = assign['S:' + nm2]
                    res['D:' + nm] = observe(impl, {}, sub)['D:' + x.name]
    return res


def variables(c, tlib):
    vs = []
    for n in c.nodes:
        if n.kind == 'input' or (n.kind == '__fork__' and any(n is x for x in c.io_nodes) and len(n.ins) == 0):
            vs.append(n.name)
        elif ('dff' in n.kind.lower() or 'latch' in n.kind.lower()) and n.kind not in tlib:
            vs.append('S:' + n.name)
        elif n.kind in tlib:
            impl, designated = tlib[n.kind]
            for x in impl.nodes:
                if 'dff' in x.kind.lower() or 'latch' in x.kind.lower():
                    vs.append('S:' + (n.name if x.name == designated else f'{n.name}~{x.name}'))
    return vs


def table(c, tlib, vs):
    rows = []
    for bits in itertools.product((0, 1), repeat=len(vs)):
        a = dict(zip(vs, bits))
        rows.append(tuple(sorted(observe(c, tlib, a).items())))
    return rows


# ------------------------------------------------------------------------------------------------ the rule

GENERIC = set()


LIB = {
    'AO21X': (['A', 'B', 'C'], ['Y'], [('n1', 'AND2', ['A', 'B']), ('Y', 'OR2', ['n1', 'C'])], None),
    'HAX': (['A', 'B'], ['S', 'CO'], [('S', 'XOR2', ['A', 'B']), ('CO', 'AND2', ['A', 'B'])], None),
    'BUFT': (['A', 'B'], ['Y'], [('Y', 'BUF', ['A'])], None),
    'FBX': (['A', 'B'], ['Y', 'Z'], [('Y', 'AND2', ['A', 'B']), ('Z', 'INV', ['Y'])], None),
    'SDFFX': (['D', 'SI', 'SE'], ['Q', 'QN'], [('m', 'MUX21', ['D', 'SI', 'SE']), ('Q', 'DFF', ['m']), ('QN', 'INV', ['Q'])], 'Q'),
    'DFFNX': (['D'], ['QN', 'Q'], [('Q', 'DFF', ['D']), ('QN', 'INV', ['Q'])], None),          # first output is not the state element
    'TIE1X': ([], ['Y'], [('Y', '__const1__', [])], None),
    'OAIX': (['A', 'B', 'C'], ['Y'], [('n1', 'OR2', ['A', 'B']), ('n2', 'AND2', ['n1', 'C']), ('Y', 'INV', ['n2'])], None),
    'UNRDX': (['A', 'B', 'C'], ['Y'], [('Y', 'AND2', ['B', 'C'])], None),           # pin 0 is not read; the cell that takes over the instance has a pin 0 of its own
    'UNRD2X': (['A', 'B', 'C'], ['Y'], [('Y', 'MUX21', ['B', 'B', 'A'])], None),      # pin 2 is not read, and the cell that takes over the instance reads A on its own pin 2
    'FILLX': ([], [], [], None),                                                     # no pins, no logic
    'VSTYLE': (['A', 'B'], ['Y', 'Z'], [('Z', 'INV', ['Y']), ('Y', 'AND2', ['A', 'B'])], 'cells'),   # ports are cells; output Y hangs on a later branch of the fork Y
    'VSTYLE2': (['A', 'B'], ['Y', 'Z'], [('Z', 'INV', ['Y']), ('Y', 'AND2', ['A', 'B'])], 'cells-outputs-first'),   # ... or on branch 0, the inner reader on branch 1
}


def evaluate(rep, repo, cmod):
    from kvstatic.core import cached_rules
    return cached_rules(rep, repo, 'c10.function', ['circuit', 'techlib'], lambda r: _evaluate(r, repo, cmod))


def _evaluate(rep, repo, cmod):
    env = G.classes(cmod)
    rep.rule('C10.function', 'substitute / resolve_tlib_cells / eliminate_1to1_forks evaluated on small circuits (8 library cells incl. unread inputs, outputs read internally, '
                             'two-output and state-holding cells, a constant; every pattern of connected pins; plain, branch-fork and fan-out hosts; two instances; and every distinct implementation '
                             'shape of the five built-in libraries with all pins / all but one pin connected): all port values and '
                             'state-element inputs are the same function before and after for every assignment; the graph stays consistent; a state element keeps the instance name when '
                             'it drives the first output; no inner 1:1 fork is left by the elimination')
    impls = {}
    bad = None
    ncase = 0
    try:
        for kind, (ins, outs, gates, _d) in LIB.items():
            impls[kind] = cell_style(env, kind, ins, outs, gates, outputs_first=_d.endswith('first')) if str(_d).startswith('cells') else bench_like(env, kind, ins, outs, gates)
            why = consistent(impls[kind])
            if why:
                raise AssertionError(why)
            if len(impls[kind].io_nodes) != len(ins) + len(outs) or any(not any(x is y for y in impls[kind].nodes) for x in impls[kind].io_nodes):
                raise AssertionError('a port of the implementation circuit was removed')
    except ModelError:
        raise
    except ERR as e:
        rep.ob('C10.function', 'implementation circuits in library shape (ports are forks, 1:1 forks eliminated)', False)
        rep.violate('C10.function', cmod, 'Circuit.eliminate_1to1_forks', 'eliminate_1to1_forks', f'Circuit.eliminate_1to1_forks on an implementation circuit built the way TechLib builds them '
                    f'(ports are forks in io_nodes, every gate has a same-named fork): {type(e).__name__}: {e}', node=cmod.func('Circuit.eliminate_1to1_forks'))
        return True

    def designated_of(kind):
        # documented: the cell that drives the first output (through inner forks) takes over the instance's name
        ins, outs, gates, d_ = LIB[kind]
        if str(d_).startswith('cells'):
            return outs[0] + '_g' if outs else None
        return outs[0] if outs else None
    tlib_fn = {k: (impls[k], designated_of(k)) for k in LIB}
    for kind, (ins, outs, gates, _d) in LIB.items():
        ni, no = len(ins), len(outs)
        in_pats = [p for p in itertools.product((True, False), repeat=ni)] if ni <= 3 else [(True,) * ni]
        out_pats = [p for p in itertools.product((True, False), repeat=no) if any(p)] or [()]
        for ic in in_pats:
            for oc in out_pats:
                for style, second in (('plain', False), ('branch', False), ('gate', True)):
                    if style != 'plain' and not all(ic):
                        continue
                    ncase += 1
                    why = None
                    try:
                        c = host(env, kind, ni, no, ic, oc, style, second)
                        vs = variables(c, tlib_fn)
                        before = table(c, tlib_fn, vs)
                        for inst in (['u1', 'u2'] if second else ['u1']):
                            # a fresh copy of the implementation per use, as resolve_tlib_cells passes the library's circuit every time
                            c.substitute(c.cells[inst], impls[kind])
                        why = consistent(c)
                        if why is None:
                            left = [n.name for n in c.nodes if n.kind in LIB]
                            if left:
                                why = f'library cells {left} are still in the circuit'
                        if why is None:
                            vs2 = variables(c, {})
                            if sorted(vs2) != sorted(vs):
                                why = f'inputs and state elements are {sorted(vs2)} after the substitution; {sorted(vs)} are expected (a state element that drives the first output keeps the instance name, others are named <instance>~<name>)'
                            else:
                                after = table(c, {}, vs)
                                if after != before:
                                    k = next(i for i, (a, b) in enumerate(zip(before, after)) if a != b)
                                    a = dict(zip(vs, list(itertools.product((0, 1), repeat=len(vs)))[k]))
                                    why = f'for the assignment {a} the circuit computes {dict(after[k])} after the substitution and {dict(before[k])} before'
                    except ModelError:
                        raise
                    except ERR as e:
                        why = f'raises {type(e).__name__}: {e}'
                    if why and bad is None:
                        bad = ('Circuit.substitute', f'instance(s) of {kind} (inputs connected {[int(x) for x in ic]}, outputs connected {[int(x) for x in oc]}, host style {style}): {why}')
    # the implementation shapes of the five built-in libraries (read statically from techlib.py), one per distinct shape
    nshape = 0
    try:
        from kvstatic import techdsl
        tmod, ctor, facts = techdsl.constructor_facts(repo)
        _, libs = techdsl.library_sources(repo)
        seen = set()
        for lib, text, _node in libs:
            for cd in techdsl.read_library(lib, text, facts):
                if cd.errors or not cd.names:
                    continue
                ins_, outs_ = cd.inputs_declared, cd.outputs_declared
                ren = {}
                for x in ins_ + outs_ + [t for t, _k, _a in cd.assigns]:
                    ren.setdefault(x, f's{len(ren)}')
                sig = (len(ins_), tuple(ren[o] for o in outs_), tuple((ren[t], k_.upper(), tuple(ren.get(a) for a in args)) for t, k_, args in cd.assigns))
                if sig in seen or len(ins_) > 5:
                    continue
                seen.add(sig)
                nshape += 1
                kind = f'LIB{nshape}'
                gates = []
                for t, k_, args in cd.assigns:
                    kk = k_.upper()
                    if 'DFF' not in kk and 'LATCH' not in kk and not kk.startswith('__CONST'):
                        GENERIC.add(kk.lower())
                    gates.append((t, kk, list(args)))
                defined = set(ins_) | {t for t, _k, _a in cd.assigns}
                if any(o not in defined for o in outs_) or any(a not in defined for _t, _k, args in cd.assigns for a in args):
                    continue        # a malformed library definition (an output or operand nobody defines): reported by the C19 rules, no implementation to substitute
                impl = bench_like(env, kind, ins_, outs_, gates)
                tl = {kind: (impl, outs_[0] if outs_ else None)}
                ni, no = len(ins_), len(outs_)
                pats = [((True,) * ni, (True,) * no)]
                pats += [(tuple(j != k for j in range(ni)), (True,) * no) for k in range(ni)]
                pats += [((True,) * ni, tuple(j != k for j in range(no))) for k in range(no) if no > 1]
                if no == 0:
                    pats = [((True,) * ni, ())]
                for ic, oc in pats:
                    ncase += 1
                    why = None
                    try:
                        c = host(env, kind, ni, no, ic, oc, 'plain')
                        vs = variables(c, tl)
                        before = table(c, tl, vs)
                        c.substitute(c.cells['u1'], impl)
                        why = consistent(c)
                        if why is None and sorted(variables(c, {})) != sorted(vs):
                            why = f'inputs and state elements are {sorted(variables(c, {}))} after the substitution; {sorted(vs)} are expected'
                        if why is None and table(c, {}, vs) != before:
                            why = 'the circuit computes another function after the substitution'
                    except ModelError:
                        raise
                    except ERR as e:
                        why = f'raises {type(e).__name__}: {e}'
                    if why and bad is None:
                        bad = ('Circuit.substitute', f'library cell {lib}.{cd.names[0]} (inputs connected {[int(x) for x in ic]}, outputs connected {[int(x) for x in oc]}): {why}')
    except ModelError:
        raise
    rep.floor('distinct implementation shapes of the built-in libraries', nshape, 15)
    # resolve_tlib_cells: every library cell of a circuit, through the table of the library object
    try:
        ncase += 1
        C, N, L = env['Circuit'], env['Node'], env['Line']
        c = C('host')
        N(c, 'f0', 'FILLX')          # removed by the resolution: the last node moves into its place and must still be visited
        c2 = host(env, 'AO21X', 3, 1, (True, True, True), (True,), 'plain')
        for n_ in c2.nodes:
            N(c, n_.name, n_.kind)
        for l_ in c2.lines:
            L(c, ((c.forks if l_.driver.kind == '__fork__' else c.cells)[l_.driver.name], l_.driver_pin), ((c.forks if l_.reader.kind == '__fork__' else c.cells)[l_.reader.name], l_.reader_pin))
        for n_ in c2.io_nodes:
            c.io_nodes.append(c.cells[n_.name])
        N(c, 'f1', 'FILLX')
        u = N(c, 'v1', 'HAX')
        L(c, c.forks['u1_o0'], (u, 0))
        L(c, c.forks['p0'], (u, 1))
        for k in (0, 1):
            f = N(c, f'v1_o{k}')
            L(c, (u, k), f)
            o = N(c, f'q{k}', 'output')
            L(c, f, o)
            c.io_nodes.append(o)
        N(c, 'zlast', 'FILLX')       # the last node is a library cell: it moves into the place of f0 when that is removed
        vs = variables(c, tlib_fn)
        before = table(c, tlib_fn, vs)
        c.resolve_tlib_cells(NS(cells={k: (impls[k], {}) for k in LIB}))
        why = consistent(c) or (None if not [n for n in c.nodes if n.kind in LIB] else 'library cells are left after resolve_tlib_cells')
        if why is None and table(c, {}, vs) != before:
            why = 'the resolved circuit computes another function than the cells it was built from'
        if why and bad is None:
            bad = ('Circuit.resolve_tlib_cells', why)
    except ModelError:
        raise
    except ERR as e:
        bad = bad or ('Circuit.resolve_tlib_cells', f'raises {type(e).__name__}: {e}')
    # eliminate_1to1_forks on hosts with named signal forks and branch forks
    for kind in ('AO21X', 'HAX'):
        for style, two in (('plain', False), ('branch', False), ('gate', True), ('branch', True)):
            ncase += 1
            try:
                ni, no = len(LIB[kind][0]), len(LIB[kind][1])
                c = host(env, kind, ni, no, (True,) * ni, (True,) * no, style, two)
                for inst in (['u1', 'u2'] if two else ['u1']):
                    c.substitute(c.cells[inst], impls[kind])
                vs = variables(c, {})
                before = table(c, {}, vs)
                c.eliminate_1to1_forks()
                why = consistent(c)
                if why is None:
                    ios = list(c.io_nodes)
                    left = [n.name for n in c.forks.values() if len(n.outs) == 1 and not any(n is x for x in ios)]
                    if left:
                        why = f'inner forks with exactly one reader are left: {left}'
                if why is None and table(c, {}, vs) != before:
                    why = 'the circuit computes another function after the elimination'
            except ModelError:
                raise
            except ERR as e:
                why = f'raises {type(e).__name__}: {e}'
            if why and bad is None:
                bad = ('Circuit.eliminate_1to1_forks', f'on the resolved {kind} host (style {style}): {why}')
    ok = bad is None
    rep.ob('C10.function', f'function and consistency on {ncase} edited circuits', ok, evals=ncase)
    if not ok:
        q, why = bad
        rep.violate('C10.function', cmod, q, q.split('.')[-1], f'{q}: {why}', node=cmod.func(q))
    rep.floor('edited circuits evaluated', ncase, 100)
    return True
