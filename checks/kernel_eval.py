"""The waveform kernel evaluated (Engine M with array stand-ins): `_wave_eval` - its own statements - is run on a family of single-gate
situations and the output waveform it leaves in memory is judged against the clauses of the properties directly:

  settle    (C03, C05) the output starts with TMIN exactly when LUT(initial input values) = 1, the number of transition entries before the
            terminator has the parity LUT(initial) xor LUT(final), and the terminator (an entry >= TMAX) lies inside the line's capacity -
            also when the capacity is so small that transitions are discarded;
  bounds    (C03)      nothing outside the output line's own `capacity` entries of its own lane is written;
  cause     (C04)      every transition time in the output equals the time of an input transition plus that input line's delay entry
            [input polarity, output polarity]: with delays >= 0 this keeps every transition inside the static-timing window; decided with
            delay tables whose entries are pairwise distinguishable, so a delay read from another line, polarity or operand is seen;
  shift     (C04)      moving all input transitions by a dyadic amount moves all output transitions by exactly that amount;
  monotone  (C04)      with polarity-independent delays and strictly increasing inputs the output timestamps are strictly increasing;
  activity  (C13)      the returned (rises, falls) are the numbers of rising / falling transitions of the output waveform;
  overflow  (C13)      the terminator is the overflow marker when a transition was discarded or an operand carries the marker, and whenever it
            is not the marker the waveform equals the one obtained with a capacity that cannot overflow.

The family: every distinct LUT of sim.py, 0..4 transitions per operand on a dyadic grid (also simultaneous events on different operands,
operands tied to the constant-0 line, and some non-monotonic operand waveforms for the value clauses), five delay tables (generic,
polarity-independent, zero, long - pulses get filtered -, mixed), capacities 4 / 8 / 64, stale content behind and inside the output line,
a second lane holding another situation. This is a bounded evaluation of the kernel's code, not a proof over all waveforms: the checks use
it next to the path rules (engine B), and as the deciding rule when a restructured kernel is outside the shapes engine B recognises."""
from __future__ import annotations

import ast
import random

from kvstatic.core import ModelError
from kvstatic import minieval, ndarr, simtab
from kvstatic.minieval import NS, stub
from kvstatic.ndarr import NDArr

RAISES = (IndexError, KeyError, TypeError, ValueError, AttributeError, ZeroDivisionError, RuntimeError, UnboundLocalError, OverflowError)
CLAUSES = ('settle', 'bounds', 'cause', 'shift', 'monotone', 'activity', 'overflow', 'dataset')
TEXT = {
    'settle': 'the output waveform starts at LUT(initial operand values) and ends, by transition parity, at LUT(final operand values); its terminator lies inside the capacity',
    'bounds': 'only the output line\'s own entries of its own lane are written',
    'cause': 'every output transition time is an operand transition time plus that operand line\'s delay [input polarity, output polarity]',
    'shift': 'shifting all operand transitions shifts all output transitions by the same amount',
    'monotone': 'polarity-independent delays and strictly increasing operands give strictly increasing output timestamps',
    'activity': 'the returned (rises, falls) count the rising / falling transitions of the output waveform',
    'dataset': 'with several delay datasets the result equals the one obtained with the selected dataset alone: mode 0 -> dataset `seed`, mode 1 -> dataset simctl_int[0], otherwise one of the datasets',
    'overflow': 'the terminator is the overflow marker iff a transition was discarded (or an operand was marked); an unmarked waveform equals the unlimited-capacity one',
}

N_LINES = 6          # operand lines 0..3, constant-0 line 4, output line 5
ZERO, OUT = 4, 5
IN_CAP = 8
STALE = 3.0e9


def constants(mod):
    from checks import c03_eval
    return c03_eval.constants(mod)


def waveform(initial, times, K, cap=IN_CAP, ovl=False):
    w = ([K['TMIN']] if initial else []) + list(times)
    w.append(K.get('TMAX_OVL', K['TMAX']) if ovl else K['TMAX'])
    if len(w) > cap:
        raise ValueError('operand waveform too long')
    return w + [K['TMAX']] * (cap - len(w))


def delay_table(kind):
    """d[line][input polarity][output polarity]"""
    d = []
    for i in range(N_LINES):
        rows = []
        for p in range(2):
            row = []
            for q in range(2):
                k = i * 4 + p * 2 + q + 1
                if i >= 4:
                    v = 0.0                                     # constant-0 line and the output line have no delay
                elif kind == 'generic':
                    v = 1.0 + k / 64.0
                elif kind == 'independent':
                    v = 0.5 + (i + 1) / 64.0
                elif kind == 'zero':
                    v = 0.0
                elif kind == 'long':
                    v = 3.0 + k / 64.0
                else:       # mixed: one short, one long polarity
                    v = (0.25 if (p + q + i) % 2 else 2.5) + k / 64.0
                row.append(v)
            rows.append(row)
        d.append(rows)
    return d


def situations(luts, tier):
    rnd = random.Random(20261004)
    grid = [k * 0.25 for k in range(0, 64)]
    n_random = 5 if tier == 'quick' else 40
    out = []
    names = sorted(luts)
    seen = set()
    for name in names:
        lut = luts[name]
        if lut in seen and tier == 'quick':
            continue
        seen.add(lut)
        # how many operands matter for this table
        used = [i for i in range(4) if any(((lut >> x) & 1) != ((lut >> (x ^ (1 << i))) & 1) for x in range(16))]
        width = max(used) + 1 if used else 0
        for r in range(n_random):
            ops = []
            for i in range(4):
                if i >= width and rnd.random() < 0.8:
                    ops.append(None)                # tied to the constant-0 line
                    continue
                init = rnd.randint(0, 1)
                k = rnd.choice([0, 1, 1, 2, 2, 3, 4])
                ts = sorted(rnd.sample(grid, k))
                ops.append((init, ts))
            kind = ('generic', 'independent', 'zero', 'long', 'mixed')[(r + len(out)) % 5]
            cap = (4, 8, 64, 8, 4)[(r + len(name)) % 5]
            out.append(dict(name=name, lut=lut, ops=ops, delays=kind, cap=cap, monotone_in=True, ovl_in=None, stale=r % 2))
        # directed: no event at all on any operand (the output keeps LUT(0,0,0,0); whatever the line held before must not be read as transitions); constant 1 operands
        out.append(dict(name=name, lut=lut, ops=[(0, []) if i < max(width, 1) else None for i in range(4)], delays='generic', cap=8, monotone_in=True, ovl_in=None, stale=0))
        out.append(dict(name=name, lut=lut, ops=[None] * 4, delays='mixed', cap=4, monotone_in=True, ovl_in=None, stale=1))
        out.append(dict(name=name, lut=lut, ops=[(1, []) if i < max(width, 1) else None for i in range(4)], delays='long', cap=4, monotone_in=True, ovl_in=None, stale=1))
        # directed: all operands switch at the same instant; a burst on one operand; a non-monotonic operand; a marked operand
        out.append(dict(name=name, lut=lut, ops=[(i % 2, [4.0]) if i < max(width, 1) else None for i in range(4)], delays='generic', cap=8, monotone_in=True, ovl_in=None))
        out.append(dict(name=name, lut=lut, ops=[(1, [1.0, 1.25, 1.5, 1.75, 2.0, 2.25]) if i == 0 else ((0, [1.5]) if i < width else None) for i in range(4)], delays='mixed', cap=4, monotone_in=True, ovl_in=None))
        out.append(dict(name=name, lut=lut, ops=[(0, [5.0, 2.0, 6.0]) if i == 0 else ((1, [3.0]) if i < width else None) for i in range(4)], delays='generic', cap=8, monotone_in=False, ovl_in=None))
        out.append(dict(name=name, lut=lut, ops=[(0, [2.0, 3.0]) if i == 0 else ((1, [2.5]) if i < width else None) for i in range(4)], delays='independent', cap=8, monotone_in=True, ovl_in=0))
    return out


class Run:
    """one evaluation of the kernel"""

    def __init__(self, f, genv, K, sit, cap=None, shift=0.0, stale=True, multi=None):
        self.K, self.sit = K, sit
        cap = cap or sit['cap']
        self.cap = cap
        idx = []
        rows = []
        self.c_locs = []
        self.c_caps = []
        for i in range(4):
            self.c_locs.append(len(rows))
            self.c_caps.append(IN_CAP)
            o = sit['ops'][i]
            w = waveform(o[0], [t + shift for t in o[1]], K, ovl=(sit['ovl_in'] == i)) if o is not None else [K['TMAX']] * IN_CAP
            rows += [[v] for v in w]
            idx.append(i if o is not None else ZERO)
        self.c_locs.append(len(rows))
        self.c_caps.append(4)
        rows += [[K['TMAX']]] * 4                       # the constant-0 line
        rows += [[STALE]] * 2                           # guard rows
        self.z_mem = len(rows)
        self.c_locs.append(self.z_mem)
        self.c_caps.append(cap)
        st = ([K['TMIN'], 1.0, K['TMIN'], 2.0] if sit.get('stale', 0) else [0.5, K['TMIN'], 1.0, K['TMIN']]) if stale else [STALE] * 4
        rows += [[st[k % 4]] for k in range(cap)]
        rows += [[STALE]] * 3
        # lane 0 holds something else (garbage waveforms), lane 1 is the evaluated one
        self.before = [[7.0 + r, v[0]] for r, v in enumerate(rows)]
        self.cbuf = NDArr(self.before)
        self.idx = idx
        d = delay_table(sit['delays'])
        self.d = d
        self.op = [sit['lut'], OUT] + idx + [-1, 0, 0]
        self.error = None
        self.ret = None
        tables, simctl, seed = [d], [0, 2], 1
        if multi is not None:
            kinds, simctl, seed = multi
            tables = [delay_table(k) for k in kinds]
        try:
            self.ret = minieval.call_function(f, [self.op, self.cbuf, NDArr(self.c_locs), NDArr(self.c_caps), 1, NDArr(tables), NDArr(simctl), seed], genv)
        except RAISES as ex:
            self.error = f'raises {type(ex).__name__}: {ex}'
        self.after = self.cbuf.tolist()

    def out(self):
        return [self.after[self.z_mem + k][1] for k in range(self.cap)]


def decode(w, K):
    """(initial value, transition times, terminator or None)"""
    k = 0
    init = 0
    if w and w[0] <= K['TMIN']:
        init, k = 1, 1
    times = []
    while k < len(w) and w[k] < K['TMAX']:
        times.append(w[k])
        k += 1
    return init, times, (w[k] if k < len(w) else None)


def describe(sit):
    ops = ', '.join('0' if o is None else f'{"1" if o[0] else "0"}@{o[1]}' for o in sit['ops'])
    return f'{sit["name"]} (LUT {sit["lut"]:#06x}), operands [{ops}] (initial value @ transition times; 0 = constant-0 line), {sit["delays"]} delays, capacity {sit["cap"]}'


def judge(f, genv, K, sit, clauses):
    """{clause: message} for the first discrepancy per clause"""
    bad = {}
    r = Run(f, genv, K, sit)
    if r.error:
        return {c: r.error for c in clauses}
    lut = sit['lut']
    iv = sum((o[0] if o is not None else 0) << i for i, o in enumerate(sit['ops']))
    fv = sum(((o[0] ^ (len(o[1]) & 1)) if o is not None else 0) << i for i, o in enumerate(sit['ops']))
    w = r.out()
    init, times, term = decode(w, K)
    ovl_mark = K.get('TMAX_OVL')
    if 'settle' in clauses:
        if term is None:
            bad['settle'] = f'no terminator (entry >= TMAX) inside the {r.cap} entries of the output line: {w}'
        elif init != ((lut >> iv) & 1):
            bad['settle'] = f'the output starts at {init}, LUT(initial operand values) is {(lut >> iv) & 1}'
        elif (init ^ (len(times) & 1)) != ((lut >> fv) & 1):
            bad['settle'] = f'the output ends at {init ^ (len(times) & 1)} ({len(times)} transitions from {init}), LUT(final operand values) is {(lut >> fv) & 1}'
    if 'bounds' in clauses:
        for row, (b, a) in enumerate(zip(r.before, r.after)):
            inside = r.z_mem <= row < r.z_mem + r.cap
            if a[0] != b[0] or (a[1] != b[1] and not inside):
                bad['bounds'] = f'memory row {row} lane {0 if a[0] != b[0] else 1} was written (the output line owns rows {r.z_mem}..{r.z_mem + r.cap - 1} of lane 1)'
                break
    events = []
    for i, o in enumerate(sit['ops']):
        if o is not None:
            v = o[0]
            for t in o[1]:
                events.append((i, t, v))       # v = value before the transition: 0 -> rising (polarity 0), 1 -> falling (polarity 1)
                v ^= 1
    if 'cause' in clauses and term is not None and sit['delays'] in ('generic', 'long', 'mixed'):
        v = init
        for t in times:
            if not any(t == te + r.d[i][pol][v] for i, te, pol in events):
                bad['cause'] = (f'output transition {"rising" if v == 0 else "falling"} at {t} is not <operand transition time> + delays[<operand line>, <operand polarity>, '
                                f'{v}] for any operand transition (delay table entries of line i: 1 + (4i + 2p + q + 1)/64 style, pairwise distinguishable)')
                break
            v ^= 1
    if 'monotone' in clauses and term is not None and sit['delays'] in ('independent', 'zero') and sit['monotone_in'] and sit['ovl_in'] is None:
        if any(b <= a for a, b in zip(times, times[1:])):
            bad['monotone'] = f'output timestamps {times} are not strictly increasing although the delays do not depend on polarity'
    if 'activity' in clauses and term is not None:
        rises = sum(1 for k in range(len(times)) if (init ^ (k & 1)) == 0)
        falls = len(times) - rises
        ret = r.ret
        if not (isinstance(ret, tuple) and len(ret) == 2 and int(ret[0]) == rises and int(ret[1]) == falls):
            bad['activity'] = f'returns {ret} for an output waveform with {rises} rising and {falls} falling transitions'
    if 'overflow' in clauses and term is not None:
        big = Run(f, genv, K, sit, cap=64)
        if big.error:
            bad['overflow'] = f'with capacity 64: {big.error}'
        else:
            bi, bt, bterm = decode(big.out(), K)
            marked = ovl_mark is not None and term == ovl_mark
            if sit['ovl_in'] is not None and not marked:
                bad['overflow'] = 'an operand waveform ends with the overflow marker but the output terminator is not the marker'
            elif not marked and (init, times) != (bi, bt):
                bad['overflow'] = f'the overflow marker is clear but the waveform {init}@{times} differs from the one computed with capacity 64: {bi}@{bt}'
    if 'dataset' in clauses and term is not None and sit.get('stale', 0) == 1 and sit['delays'] == 'generic':
        kinds = ('generic', 'long', 'mixed')
        alone = []
        for k in kinds:
            ra = Run(f, genv, K, dict(sit, delays=k))
            alone.append((ra.error, decode(ra.out(), K) if not ra.error else None, ra.ret))
        for simctl, seed, want in (([1, 0], 2, [2]), ([1, 0], 0, [0]), ([1, 1], 2, [1]), ([2, 1], 0, [2]), ([0, 2], 1, [0, 1, 2]), ([5, 2], 7, [0, 1, 2]), ([1, 3], 0, [0, 1, 2])):
            rm = Run(f, genv, K, sit, multi=(kinds, simctl, seed))
            got = (rm.error, decode(rm.out(), K) if not rm.error else None, rm.ret)
            if not any(got == alone[k] for k in want):
                bad['dataset'] = (f'three delay datasets, simctl_int = [{simctl[0]}, {simctl[1]}] (value, mode), seed {seed}: the result '
                                  f'{rm.error or got[1][:2]} is not the result obtained with dataset {" / ".join(str(k) for k in want)} alone '
                                  f'({", ".join(str(alone[k][0] or alone[k][1][:2]) for k in want)})')
                break
    if 'shift' in clauses and term is not None:
        sh = Run(f, genv, K, sit, shift=8.0, stale=False)
        if sh.error:
            bad['shift'] = f'with all operand transitions shifted by 8: {sh.error}'
        else:
            si, st, sterm = decode(sh.out(), K)
            if (si, st) != (init, [t + 8.0 for t in times]) or sh.ret != r.ret:
                bad['shift'] = (f'operand transitions shifted by 8 (and a clean output line) give {si}@{st} and return {sh.ret}; '
                                f'unshifted: {init}@{times} and {r.ret} (expected {init}@{[t + 8.0 for t in times]} and the same counts)')
    return bad


def evaluate(rep, repo, prefix, clauses, tier='quick'):
    """registers rule <prefix>.kernel-eval; returns True (ModelError when the kernel is outside the evaluator subset)"""
    mod = repo.mod('wave_sim')
    f = mod.func('_wave_eval')
    K = constants(mod)
    luts, _ = simtab.luts(repo)
    genv = dict(K)
    genv['np'] = ndarr.numpy_ns()
    minieval.module_functions(mod.tree, genv)
    rid = f'{prefix}.kernel-eval'
    rep.rule(rid, '_wave_eval evaluated on single-gate situations (every LUT; 0..4 transitions per operand; five delay tables; capacities 4/8/64; stale memory; a second lane): '
                  + '; '.join(TEXT[c] for c in clauses))
    sits = situations(luts, tier)
    first = {}
    n = 0
    for sit in sits:
        n += 1
        bad = judge(f, genv, K, sit, [c for c in clauses if c not in first])
        for c, why in bad.items():
            first.setdefault(c, (sit, why))
        if len(first) == len(clauses):
            break
    for c in clauses:
        ok = c not in first
        rep.ob(rid, f'{c}: {TEXT[c]} ({len(sits)} situations)', ok, evals=n,
               sample={'rule': rid, 'clause': c, 'situations': len(sits), 'verdict': 'holds on every situation' if ok else first[c][1]})
        if not ok:
            sit, why = first[c]
            rep.violate(rid, mod, f, f'{c}: {sit["name"]}', f'_wave_eval, {describe(sit)}: {why}  [clause: {TEXT[c]}]', node=f)
    rep.floor('kernel situations evaluated', len(sits), 100)
    return True


def decide(rep, repo, prefix, clauses):
    """the evaluated kernel rule as part of a check: True when it was evaluated (verdicts recorded), False when the kernel is outside the subset"""
    from kvstatic.core import cached_rules
    tier = getattr(rep, 'tier', 'quick')
    try:
        return bool(cached_rules(rep, repo, f'kernel_eval.{prefix}', ['wave_sim', 'sim'], lambda r: evaluate(r, repo, prefix, clauses, tier=tier), extra=f'{tier}:{",".join(clauses)}'))
    except ModelError as e:
        rep.note(f'{prefix}.kernel-eval: _wave_eval is outside the evaluated subset ({e}); the path rules decide alone')
        return False


def with_fallback(rep, evaluated, prefix, structural):
    """run the path rules (engine B); a kernel whose shape they do not recognise is decided by the evaluated rule when that one ran"""
    try:
        structural()
    except ModelError as e:
        if not evaluated:
            raise
        rep.note(f'{prefix}: the path rules do not recognise the shape of the kernel ({e}); decided by the evaluated kernel rule {prefix}.kernel-eval (bounded family of situations)')


def operand_weights(repo):
    """{op column: bit weight of that operand in the LUT index}, determined by evaluating the kernel with the four projection tables; ModelError
    when the kernel is outside the evaluator subset or the result is not a bijection onto {1, 2, 4, 8}"""
    mod = repo.mod('wave_sim')
    f = mod.func('_wave_eval')
    K = constants(mod)
    genv = dict(K)
    genv['np'] = ndarr.numpy_ns()
    minieval.module_functions(mod.tree, genv)
    proj = [sum(1 << x for x in range(16) if (x >> j) & 1) for j in range(4)]
    out = {}
    for k in range(4):
        hits = []
        for j in range(4):
            sit = dict(name=f'x{j}', lut=proj[j], ops=[(1, []) if i == k else None for i in range(4)], delays='generic', cap=8, monotone_in=True, ovl_in=None, stale=j % 2)
            r = Run(f, genv, K, sit)
            if r.error:
                raise ModelError(f'_wave_eval: {r.error}')
            init, times, term = decode(r.out(), K)
            if init == 1 and not times:
                hits.append(1 << j)
        if len(hits) != 1:
            raise ModelError(f'_wave_eval: operand column {k + 2} does not select exactly one bit of the LUT index')
        out[k + 2] = hits[0]
    if sorted(out.values()) != [1, 2, 4, 8]:
        raise ModelError('_wave_eval: the operand columns do not map one-to-one onto the four LUT index bits')
    return out
