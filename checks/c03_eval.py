"""Stimulus construction evaluated (Engine M with array stand-ins, kvstatic/ndarr.py).

WaveSim.s_to_c (vector code) and WaveSimCuda.s_to_c (kernel launch) + wave_assign_gpu (one thread) are evaluated - their own statements -
on small stand-in simulators: every combination of initial and final value at a connected input, several lanes, positions in a permuted
memory order, an unconnected port (GPU: c_loc < 0), a grid that over-covers the arrays. The waveform memory afterwards is compared with the
documented encoding:   initial 0, final 0: [TMAX]      0 -> 1: [t, TMAX]      1 -> 0: [TMIN, t, TMAX]      1 -> 1: [TMIN, TMAX]
(entries after the first TMAX are free, at most three entries are written, nothing outside the three entries of a connected input changes).

What this decides: the code fragment, for the (finite) family of stand-ins. The adequacy argument is that the fragment's behaviour per
(position, lane) depends only on (initial != 0, final != 0) and the location - the evaluation covers all of these - unless the fragment
contains size thresholds (integer constants beyond the row numbers 0, 1, 2 and the encoding weights), which `adequate` refuses."""
from __future__ import annotations

import ast
import itertools

from kvstatic.core import ModelError
from kvstatic import minieval, ndarr
from kvstatic.minieval import NS, stub
from kvstatic.ndarr import NDArr

UNTOUCHED = 555.0
RAISES = (IndexError, KeyError, TypeError, ValueError, AttributeError, ZeroDivisionError, RuntimeError, UnboundLocalError)


def constants(mod):
    """TMAX / TMIN / TMAX_OVL as the module defines them (evaluated)"""
    env = {'np': ndarr.numpy_ns()}
    out = {}
    for st in mod.tree.body:
        if isinstance(st, ast.Assign) and len(st.targets) == 1 and isinstance(st.targets[0], ast.Name) and st.targets[0].id in ('TMAX', 'TMIN', 'TMAX_OVL'):
            out[st.targets[0].id] = float(minieval.ev(st.value, env))
    for k in ('TMAX', 'TMIN'):
        if k not in out:
            raise ModelError(f'wave_sim: constant {k} not found')
    if not (out['TMIN'] < 0 < out['TMAX']):
        raise ModelError('wave_sim: TMIN / TMAX are not a negative / positive sentinel pair')
    return out


def adequate(fns):
    for f in fns:
        for n in ast.walk(f):
            if isinstance(n, ast.Constant) and isinstance(n.value, (int, float)) and not isinstance(n.value, bool) and n.value not in (0, 1, 2, 3, -1, 0.5):
                raise ModelError(f'{f.name}: constant {n.value!r} (a threshold would make the small stand-ins inadequate)')


def expected(init, fin, t, K):
    if init and fin:
        return [K['TMIN'], K['TMAX']]
    if init and not fin:
        return [K['TMIN'], t, K['TMAX']]
    if fin:
        return [t, K['TMAX']]
    return [K['TMAX']]


def cases():
    """(s_len, sims, connected c_loc per position or -1, values[y][x] = (init, fin, t))"""
    combos = [(0, 0), (0, 1), (1, 0), (1, 1)]
    out = []
    # all four combinations at every position, lanes rotate through them
    for rot in range(4):
        for locs in ([8, -1, 0, 4], [0, 4, 8, 12], [12, 4, -1, -1], [4]):
            s_len = len(locs)
            sims = 3
            vals = [[combos[(y + x + rot) % 4] + (10.0 * y + x + (0.25 if (x + rot) % 2 else 0.0) - (13.5 if (y + rot) % 3 == 2 else 0.0),) for x in range(sims)] for y in range(s_len)]
            out.append((s_len, sims, locs, vals))
    out.append((1, 1, [0], [[(1, 0, 0.0)]]))
    out.append((2, 1, [4, 0], [[(0, 1, 0.0)], [(1, 0, 7.5)]]))
    return out


def build(s_len, sims, locs, vals, K):
    s = [[[0.0] * sims for _ in range(s_len)] for _ in range(11)]
    for y in range(s_len):
        for x in range(sims):
            i, f, t = vals[y][x]
            s[0][y][x] = float(i)
            s[1][y][x] = t
            s[2][y][x] = float(f)
            for r in range(3, 11):
                s[r][y][x] = 100.0 + r      # capture rows: must not matter
    c_len = 16
    c = [[UNTOUCHED] * sims for _ in range(c_len)]
    return NDArr(s), NDArr(c)


def judge(c, s_len, sims, locs, vals, K, side):
    """first discrepancy of the waveform memory against the encoding, or None"""
    rows = c.tolist()
    owned = set()
    for y, loc in enumerate(locs):
        if loc < 0:
            continue
        for k in range(3):
            owned.add(loc + k)
        for x in range(sims):
            i, f, t = vals[y][x]
            exp = expected(i, f, t, K)
            got = [rows[loc + k][x] for k in range(3)]
            eff = got[:got.index(K['TMAX']) + 1] if K['TMAX'] in got else got
            if eff != exp:
                def show(w):
                    return [('TMAX' if v == K['TMAX'] else 'TMIN' if v == K['TMIN'] else 'untouched' if v == UNTOUCHED else 't' if v == t else v) for v in w]
                return (f'input position {y} (memory location {loc}), lane {x}, initial={i}, final={f}, transition time t={t}: waveform entries {show(got)}, '
                        f'expected {show(exp)} (start with TMIN iff the initial value is 1, one transition time iff initial != final, terminated by TMAX within three entries)')
    for r in range(len(rows)):
        if r not in owned:
            for x in range(sims):
                if rows[r][x] != UNTOUCHED:
                    return f'memory row {r}, lane {x} was written although it is not one of the three stimulus entries of a connected input (locations {locs})'
    return None


def evaluate(rep, repo, rid):
    mod = repo.mod('wave_sim')
    K = constants(mod)
    cpu = mod.func('WaveSim.s_to_c')
    kern = mod.func('wave_assign_gpu')
    launch = mod.func('WaveSimCuda.s_to_c')
    cls_cpu, cls_gpu = mod.cls('WaveSim'), mod.cls('WaveSimCuda')
    helpers = [st for c_ in (cls_cpu, cls_gpu) for st in c_.body if isinstance(st, ast.FunctionDef) and st.name.startswith('_') and not st.name.startswith('__')]
    adequate([cpu, kern, launch] + helpers)
    bd = (32, 16)
    for st in ast.walk(cls_gpu):
        if isinstance(st, ast.Assign) and len(st.targets) == 1 and ast.unparse(st.targets[0]) == 'self._block_dim':
            try:
                v = ast.literal_eval(st.value)
            except ValueError:
                raise ModelError('WaveSimCuda._block_dim is not a constant')
            if not (isinstance(v, tuple) and len(v) == 2 and all(isinstance(n, int) and 0 < n <= 64 for n in v)):
                raise ModelError('WaveSimCuda._block_dim is not a pair of small positive integers')
            bd = v
    rep.rule(rid, 'stimulus: s_to_c (cpu, vector code) and WaveSimCuda.s_to_c + wave_assign_gpu (gpu, per thread) evaluated on stand-in simulators write, '
                  'for every initial/final value, lane and position, exactly the documented waveform [TMIN]? [t]? TMAX into the three entries of each connected input')
    n = 0
    bad = {}
    for s_len, sims, locs, vals in cases():
        # ---- CPU: the location vectors hold the connected positions (SimOps: pi_s_locs = connected ports, ppio_s_locs = all state elements)
        conn = [y for y, l in enumerate(locs) if l >= 0]
        for order in (conn, list(reversed(conn))):
            s, c = build(s_len, sims, locs, vals, K)
            genv = dict(K)
            genv['np'] = ndarr.numpy_ns()
            minieval.module_functions(mod.tree, genv)
            me = NS(s=s, c=c, sims=sims, s_len=s_len, pippi_s_locs=NDArr(order) if order else NDArr([]), pippi_c_locs=NDArr([locs[y] for y in order]) if order else NDArr([]))
            minieval.bind_class(me, cls_cpu, genv)
            n += 1
            try:
                minieval.call_function(cpu, [me], genv)
            except RAISES as ex:
                bad.setdefault('cpu', f'with input locations {[locs[y] for y in order]} s_to_c raises {type(ex).__name__}: {ex}')
                continue
            why = judge(me.c, s_len, sims, locs, vals, K, 'cpu')
            if why and 'cpu' not in bad:
                bad['cpu'] = why
            if me.s.tolist() != build(s_len, sims, locs, vals, K)[0].tolist():
                bad.setdefault('cpu', 's_to_c changes the stimulus / capture array s')
        # ---- GPU
        s, c = build(s_len, sims, locs, vals, K)
        ppi_off = 5
        c_locs = NDArr([-1] * ppi_off + list(locs) + [-1] * s_len)
        thread = [0, 0]
        genv = dict(K)
        genv['np'] = ndarr.numpy_ns()
        genv['math'] = NS()
        for st in repo.mod('__init__').tree.body:
            if isinstance(st, ast.FunctionDef) and st.name == 'cdiv':
                genv['cdiv'] = minieval.LocalFn(st, genv)
        genv['cuda'] = NS(grid=stub(lambda nd: (thread[0], thread[1]) if nd == 2 else (_ for _ in ()).throw(ModelError('cuda.grid of another rank'))),
                          synchronize=stub(lambda: None))
        minieval.module_functions(mod.tree, genv)
        launches = []

        class Kernel:
            _kv_array = True
            _kv_attrs = ()
            _kv_methods = ()

            def __getitem__(self, cfg):
                if not (isinstance(cfg, tuple) and len(cfg) == 2):
                    raise ModelError('kernel launch configuration')
                grid, block = cfg
                if not all(isinstance(d, tuple) and len(d) == 2 and all(isinstance(v, int) and not isinstance(v, bool) for v in d) for d in (grid, block)):
                    raise ModelError('kernel launch configuration is not (grid, block) of two integers each')

                def go(*args):
                    launches.append((grid, block))
                    if grid[0] * block[0] * grid[1] * block[1] > 40000:
                        raise ModelError('kernel launch far larger than the arrays')
                    for ty in range(grid[1] * block[1]):
                        for tx in range(grid[0] * block[0]):
                            thread[0], thread[1] = tx, ty
                            minieval.call_function(kern, list(args), genv)
                return stub(go)
        genv['wave_assign_gpu'] = Kernel()
        me = NS(s=s, c=c, sims=sims, s_len=s_len, c_locs=c_locs, ppi_offset=ppi_off, ppo_offset=ppi_off + s_len, _block_dim=bd)
        minieval.bind_class(me, cls_gpu, genv)
        minieval.bind_class(me, cls_cpu, genv)
        n += 1
        try:
            minieval.call_function(launch, [me], genv)
        except RAISES as ex:
            bad.setdefault('gpu', f'with input locations {locs} (thread {tuple(thread)}) the launch raises {type(ex).__name__}: {ex}')
            continue
        if len(launches) != 1:
            bad.setdefault('gpu', f'WaveSimCuda.s_to_c launches wave_assign_gpu {len(launches)} times')
        else:
            (gx, gy), (bx, by) = launches[0]
            if gx * bx < sims or gy * by < s_len:
                bad.setdefault('gpu', f'WaveSimCuda.s_to_c: the launch grid {launches[0][0]} x block {launches[0][1]} does not cover {sims} lanes x {s_len} positions')
        why = judge(me.c, s_len, sims, locs, vals, K, 'gpu')
        if why and 'gpu' not in bad:
            bad['gpu'] = why
        if me.s.tolist() != build(s_len, sims, locs, vals, K)[0].tolist():
            bad.setdefault('gpu', 'wave_assign_gpu changes the stimulus / capture array s')
    for side, fn in (('cpu', cpu), ('gpu', kern)):
        ok = side not in bad
        rep.ob(rid, f'{side}: waveform memory after s_to_c equals the documented encoding on every stand-in ({n} evaluations)', ok, evals=n,
               sample={'rule': rid, 'side': side, 'stand_ins': len(cases()), 'verdict': 'as documented' if ok else bad[side]})
        if not ok:
            rep.violate(rid, mod, fn, f'{side} stimulus', f'{"WaveSim.s_to_c" if side == "cpu" else "WaveSimCuda.s_to_c / wave_assign_gpu"}: {bad[side]}', node=fn)
    rep.floor('stimulus cases', 8, 8)
    return True
