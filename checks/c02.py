"""C02 - 4-/8-valued simulation follows the documented algebra and is X-sound."""
from __future__ import annotations

import ast
from itertools import product

from kvstatic.core import Repo, Report, ModelError, AnchorError, norm
from kvstatic import oracle, simtab, simops
from kvstatic.mvlogic import Logic, run_branch
from kvstatic.tt import LaneViolation
from kvstatic.astutil import (find_all, attr_chain, is_name, call_name, find_dispatch_loops, check_rebinding, resolve_locs,
                              body_no_doc, target_names)
from checks import c01, c12

CH = '0X-1PRFN'


def forced_zero(reach_mask, weights):
    """Operand positions that read the zero line on every reachable row of a constant."""
    w = {k - 2: v for k, v in weights.items()}
    out = []
    for k in range(4):
        if all(not (row & w[k]) for row in range(16) if (reach_mask >> row) & 1):
            out.append(k)
    return out


def mv_chains(repo):
    mod = repo.mod('logic_sim')
    cp = mod.func('LogicSim.c_prop')
    out = {}
    for m in (4, 8):
        arm = c01.logic_arm(cp, m)
        ds = []
        for st in arm:
            ds += find_dispatch_loops(c01._Holder([st]))
        if len(ds) != 1:
            raise AnchorError(f'LogicSim.c_prop: expected one dispatch loop in the m == {m} arm, found {len(ds)}')
        out[m] = ds[0]
    # scratch locations
    tv = {}
    for st in body_no_doc(cp):
        if isinstance(st, ast.Assign) and len(st.targets) == 1 and isinstance(st.targets[0], ast.Name):
            t = norm(st.value).replace(' ', '')
            if t.startswith('self.c_locs[self.') and t.endswith('_idx]'):
                tv[st.targets[0].id] = (t[len('self.c_locs[self.'):-1], st)
    return mod, cp, out, tv


def branch_tables(rep, repo, lg, rid_prefix='C02'):
    """Interpret all branches of the 4- and 8-valued chains. Returns {(m, const): per-row values}."""
    luts, _ = simtab.luts(repo)
    rows, _ = simtab.kind_prefixes(repo)
    weights, *_ = simtab.wave_operand_bits(repo)
    _, init = simops.simops_init(repo)
    sites = simops.op_sites(init, tolerant=True)
    reach = c01.reachable_rows(repo, weights, rows, sites)
    mod, cp, chains, tv = mv_chains(repo)
    tables = {}
    infos = {}
    for m, d in chains.items():
        if not isinstance(getattr(d, 'ops_iter', d.loop.iter), ast.Subscript):
            rep.rule(f'{rid_prefix}.columns', 'the dispatch loop visits every op once, in op-list order, with its first six columns (iterable evaluated)')
            c01.iter_rule(rep, f'{rid_prefix}.columns', mod, cp, d, f'm=={m}')
        ok = resolve_locs(d)
        rep.ob(f'{rid_prefix}.rebind', f'm={m}', ok)
        if not ok:
            rep.violate(f'{rid_prefix}.rebind', mod, cp, d.rebinding, f'm=={m}: index variables are not mapped 1:1 through c_locs', node=d.rebinding)
        for const, test, body in d.arms:
            if (m, const) in tables:
                rep.violate(f'{rid_prefix}.exhaust', mod, cp, test, f'm=={m}: second branch for {const} is shadowed by the first', node=test)
                continue
            if const not in luts:
                rep.violate(f'{rid_prefix}.exhaust', mod, cp, test, f'm=={m}: branch key sim.{const} is not a LUT constant', node=test)
                continue
            try:
                res, info = run_branch(lg, body, m, d.loc_out, d.loc_ins, list(tv), arr='self.c')
            except LaneViolation as e:
                rep.violate(f'{rid_prefix}.comp', mod, cp, body[0], f'm=={m} branch {const}: {e}', node=body[0])
                continue
            tables[(m, const)] = res
            infos[(m, const)] = (info, body, test)
    return mod, cp, chains, tv, tables, infos, luts, reach, weights, rows, sites


def run(rep: Report, repo: Repo):
    rep.explanation = (
        'The bit-parallel operators are interpreted over all 4^k/8^k operand tuples (engine A) and compared with the algebra '
        'oracle; every branch of the 4-valued and 8-valued dispatch chains is interpreted as a straight-line program over an '
        'abstract store {o0,t0,t1,i0..i3} (real operator bodies inlined, aliasing modelled) and its 4^4/8^4-row table is compared '
        'with the canonical gate-by-gate composition of the oracle operators. X-soundness and initial/final consistency are then '
        'table theorems on the code-derived tables; they lift to circuits by induction over the op list.')
    rep.exhaustive = True
    rep.trusted = ['numpy element-wise semantics of & | ^ ~ and slice assignment', 'algebra oracle in kvstatic/oracle.py']
    rep.assumptions = ['circuit-level statement is the per-op statement lifted by induction over the topologically sorted op list '
                       '(order: C17/C07; operand wiring: C01) - the lifting itself is argued in DESIGN.md, not mechanised']
    lg = Logic(repo)
    rep.rule('C02.op', 'bit-parallel operator equals the algebra oracle on all operand tuples, k = 1..4')
    tabs, nops = c12.op_tables(rep, lg, rid='C02.op')
    rep.floor('operator tables', nops, 26)
    rep.rule('C02.comp', 'dispatch branch (4-/8-valued) equals the canonical composition of the documented operators on all reachable rows of 4^4 / 8^4')
    rep.rule('C02.bool', 'Boolean projection of every multi-valued branch equals its LUT constant')
    rep.rule('C02.exhaust', 'every emit-able constant has exactly one branch in both multi-valued chains')
    rep.rule('C02.rebind', 'index variables are mapped through c_locs before the chain')
    rep.rule('C02.scratch', 'temporaries are the two reserved scratch slots, written before read inside each branch')
    rep.rule('C02.alias', 'a call whose output location is also an operand gives the same table as without aliasing')
    mod, cp, chains, tv, tables, infos, luts, reach, weights, rows, sites = branch_tables(rep, repo, lg)

    # scratch slots
    slots = sorted(v[0] for v in tv.values())
    ok = slots == ['tmp2_idx', 'tmp_idx'] and len(tv) == 2
    rep.ob('C02.scratch', f'temporaries {sorted(tv)} -> {slots}', ok)
    if not ok:
        rep.violate('C02.scratch', mod, cp, 't0/t1', f'scratch variables {sorted(tv)} must map to the two distinct reserved slots tmp_idx and tmp2_idx, found {slots}', node=cp)

    emit = set(n for _, names, _ in rows for n in names) | {s.lut.id for s in sites if isinstance(s.lut, ast.Name) and s.lut.id in luts}
    w = {k - 2: v for k, v in weights.items()}
    nb = 0
    for m, d in chains.items():
        radix = {4: 4, 8: 8}[m]
        for const in sorted(emit):
            ok = (m, const) in tables
            rep.ob('C02.exhaust', f'm={m}:{const}', ok)
            if not ok and not any(v.rule.endswith('.comp') and const in v.message for v in rep.violations):
                rep.violate('C02.exhaust', mod, cp, f'm=={m}: no branch for {const}', f'm=={m}: constant {const} can be emitted but has no dispatch branch', node=d.chain_if)
        for (mm, const), res in sorted(tables.items()):
            if mm != m:
                continue
            nb += 1
            info, body, test = infos[(m, const)]
            fz = forced_zero(reach.get(const, 0xFFFF) or 0xFFFF, weights)
            canon = oracle.canon_table(const, radix)
            n = radix ** 4
            rowsel = [r for r in range(n) if all((r // radix ** k) % radix == 0 for k in fz)]
            bad = [r for r in rowsel if res[r] != canon[r]]
            ok = not bad
            rep.ob('C02.comp', f'm={m}:{const}', ok, evals=len(rowsel),
                   sample={'rule': 'C02.comp', 'm': m, 'const': const, 'calls': [str(c) for c in info['calls']], 'rows': len(rowsel), 'ok': ok} if const in ('AO21', 'MUX21', 'NAND3') else None)
            if not ok:
                wit = [{'i0..i3': ''.join(CH[(r // radix ** k) % radix] for k in range(4)), 'code': CH[res[r] & 7], 'oracle': CH[canon[r]]} for r in bad[:6]]
                rep.violate('C02.comp', mod, cp, test, f'm=={m}: branch {const} differs from the gate-by-gate composition of the documented operators on {len(bad)} of {len(rowsel)} rows',
                            witness=wit, node=test)
            # Boolean projection vs LUT
            B = {0: 0, 1: radix - 1 if radix == 4 else 3}
            B = {0: 0, 1: 3}
            okb = True
            for row in range(16):
                if not (reach.get(const, 0xFFFF) >> row) & 1:
                    continue
                bits = [1 if row & w[k] else 0 for k in range(4)]
                r = sum(B[b] * radix ** k for k, b in enumerate(bits))
                exp = B[(luts[const] >> row) & 1]
                if res[r] != exp:
                    okb = False
            rep.ob('C02.bool', f'm={m}:{const}', okb, evals=16)
            if not okb:
                rep.violate('C02.bool', mod, cp, test, f'm=={m}: branch {const} restricted to 0/1 is not the Boolean function of LUT {const}', node=test)
            # scratch discipline
            oks = not info['read_before_write']
            rep.ob('C02.scratch', f'm={m}:{const}', oks)
            if not oks:
                rep.violate('C02.scratch', mod, cp, test, f'm=={m}: branch {const} reads scratch {info["read_before_write"]} before writing it (value left by a previous op)', node=test)
            # aliasing call sites
            for fn, out, args in info['calls']:
                if fn != 'copy' and out in args:
                    j = args.index(out)
                    nplanes = 2 if m == 4 else 3
                    try:
                        plain = lg.bp_table(fn, len(args), nplanes)[0]
                        ali = lg.bp_table(fn, len(args), nplanes, alias=j)[0]
                        oka = plain == ali
                    except LaneViolation:
                        oka = False
                    rep.ob('C02.alias', f'm={m}:{const}:{fn}(out=in{j})', oka, evals=radix ** len(args))
                    if not oka:
                        rep.violate('C02.alias', mod, cp, f'logic.{fn}(self.c[{out}], ...)', f'm=={m}: branch {const} passes its output location as operand {j} of {fn}, '
                                    f'which overwrites the operand before it is read', node=test)
    rep.floor('multi-valued branches', nb, 66)

    xsound(rep, mod, cp, tables, infos)
    misc(rep, repo, mod)


def xsound(rep, mod, cp, tables, infos):
    rep.rule('C02.xsound', 'a plain 0/1 result is preserved by every 0/1 completion of the unknown/unassigned operands (per primitive, code-derived tables)')
    rep.rule('C02.components', '8-valued: initial and final components of every known result equal the primitive on the operands\' initial/final components')
    for (m, const), res in sorted(tables.items()):
        radix = m
        unk = (1, 2)
        bad = []
        nchk = 0
        for r in range(radix ** 4):
            v = res[r]
            if v not in (0, 3):
                continue
            vs = [(r // radix ** k) % radix for k in range(4)]
            ui = [k for k in range(4) if vs[k] in unk]
            if not ui:
                continue
            for comp in product((0, 3), repeat=len(ui)):
                vv = list(vs)
                for k, c in zip(ui, comp):
                    vv[k] = c
                r2 = sum(x * radix ** k for k, x in enumerate(vv))
                nchk += 1
                v2 = res[r2]
                if (v2 & 3) != v or (oracle._unk(v2)):
                    bad.append((r, r2))
        ok = not bad
        rep.ob('C02.xsound', f'm={m}:{const}', ok, evals=max(1, nchk))
        if not ok:
            info, body, test = infos[(m, const)]
            r, r2 = bad[0]
            rep.violate('C02.xsound', mod, cp, test, f'm=={m}: branch {const} reports a definite value that a 0/1 completion of its unknown operands contradicts',
                        witness={'operands': ''.join(CH[(r // radix ** k) % radix] for k in range(4)), 'result': CH[res[r]],
                                 'completion': ''.join(CH[(r2 // radix ** k) % radix] for k in range(4)), 'completed result': CH[res[r2] & 7]}, node=test)
        if m == 8:
            bad = []
            for r in range(8 ** 4):
                vs = [(r // 8 ** k) % 8 for k in range(4)]
                if any(oracle._unk(x) for x in vs):
                    continue
                ri = sum((3 if (x >> 1) & 1 else 0) * 8 ** k for k, x in enumerate(vs))
                rf = sum((3 if x & 1 else 0) * 8 ** k for k, x in enumerate(vs))
                v = res[r]
                if oracle._unk(v) or ((v >> 1) & 1) != (res[ri] & 1) or (v & 1) != (res[rf] & 1) or res[ri] not in (0, 3) or res[rf] not in (0, 3):
                    bad.append(r)
            ok = not bad
            rep.ob('C02.components', f'{const}', ok, evals=6 ** 4)
            if not ok:
                info, body, test = infos[(m, const)]
                r = bad[0]
                rep.violate('C02.components', mod, cp, test, f'm==8: branch {const}: initial/final components are not the 2-valued function of the operands\' components on {len(bad)} rows',
                            witness={'operands': ''.join(CH[(r // 8 ** k) % 8] for k in range(4)), 'result': CH[res[r] & 7]}, node=test)


def misc(rep, repo, mod):
    rep.rule('C02.init', 'assignment array starts UNASSIGNED (plane 1 = 0xff, plane 0 = 0); s_to_c copies mdim planes')
    li = mod.func('LogicSim.__init__')
    sts = [norm(st).replace(' ', '') for st in body_no_doc(li)]
    ok = 'self.s[:,:,1,:]=255' in sts and any(s.startswith('self.s=np.zeros((2,self.s_len,3,nbytes)') for s in sts)
    rep.ob('C02.init', 'self.s initial content', ok)
    if not ok:
        rep.violate('C02.init', mod, li, 'self.s[:, :, 1, :] = 255', 'LogicSim.s must start as zeros with plane 1 set to 255 (= UNASSIGNED 0b010 in every lane)', node=li)
    md = [st for st in find_all(li, ast.Assign, nested=False) if attr_chain(st.targets[0]) == 'self.mdim']
    ok = len(md) == 1 and norm(md[0].value).replace(' ', '') in ('math.ceil(math.log2(m))',)
    rep.ob('C02.init', 'mdim = ceil(log2(m))', ok)
    if not ok:
        rep.violate('C02.init', mod, li, md[0] if md else 'self.mdim', 'mdim must be ceil(log2(m)): 1, 2, 3 planes for 2-, 4-, 8-valued logic', node=md[0] if md else li)


def depends(rep, repo):
    """Rules of the mechanisms this property's results rest on (schedule validity and memory map of SimOps): a change
    that breaks them breaks this property too, so they are part of this check (rule ids keep their C07./C08. prefix)."""
    from checks import c07, c08
    c07.schedule_rules(rep, repo)
    c08.map_rules(rep, repo)
    # the op list is built from Circuit.topological_order(): its traversal rules (C17) are part of this check
    from checks import c17
    c17.order_rules(rep, repo)
    # both simulators execute the op list SimOps builds: the node -> op translation rule of C01 is part of this check
    from checks import c01
    c01.wiring_rules(rep, repo)
    c01.plumbing_rules(rep, repo)   # assign / capture / transfer of LogicSim


def thorough(rep, repo):
    """Thorough tier: the quick rules plus checker self-validation on the C02 slice of the mutation corpus , a second evaluator for engine A and an alias sweep."""
    from kvstatic import thorough as thorough_mod
    from kvstatic.mvlogic import Logic
    lg = Logic(repo)
    tabs = {}
    for pre, nplanes in (('bp8v', 3), ('bp4v', 2)):
        for op in ('buf', 'not', 'and', 'or', 'xor'):
            for k in ((1,) if op in ('buf', 'not') else (1, 2, 3, 4)):
                try:
                    tabs[(f'{pre}_{op}', k)] = lg.bp_table(f'{pre}_{op}', k, nplanes)[0]
                except Exception:  # noqa: BLE001 - already reported by the quick rules
                    pass
    for op in ('not', 'and', 'or', 'xor'):
        for k in ((1,) if op == 'not' else (1, 2, 3, 4)):
            try:
                tabs[(f'_mv_{op}', k)] = lg.mv_table(f'_mv_{op}', k)[0]
            except Exception:  # noqa: BLE001
                pass
    if not rep.violations:
        thorough_mod.second_evaluator(rep, lg, tabs, seed=rep.seed)
        thorough_mod.alias_sweep(rep, lg)
    thorough_mod.selftest_slice(rep, repo, 'C02')
