"""C13 - capture results and switching-activity counts faithfully summarise waveforms."""
from __future__ import annotations

import ast

from kvstatic.core import Repo, Report, ModelError, AnchorError, norm
from kvstatic import simops
from kvstatic.wavekernel import Kernel
from kvstatic.paths import cz, guard_texts, guards_of
from kvstatic.astutil import find_all, attr_chain, is_name, call_name, body_no_doc, target_names, walk_no_nested_funcs, parents, enclosing
from checks import c03, c04


def run(rep: Report, repo: Repo):
    rep.explanation = (
        'Guard-set analysis of both capture loops (which conditions dominate each update of final/val/eat/lst/ovl), tuple-position '
        'agreement between the CPU result tuple, the GPU stores and the documented s[3..10] rows, the overflow pairing in _wave_eval '
        '(an edge is discarded for lack of space only in the else of the capacity guard, which counts it; the terminator is TMAX_OVL iff the '
        'count is positive, else the largest operand terminator), a finite evaluation of the rise/fall count formulas against the '
        'alternation oracle, and the provenance of the accumulation columns 6..8 from the a_ctrl row of the output line.')
    rep.trusted = ['waveform entries alternate rise/fall starting with rise; a leading TMIN entry is not a transition (encoding of C03)']
    rep.assumptions = ['NOT DECIDED: "overflow indicator clear => waveform identical to the unlimited-capacity run" beyond the pairing rule; sd > 0 sampling; weighted sums on concrete data']
    mod = repo.mod('wave_sim')
    c03.capture_final(rep, repo)
    c04.capture_times(rep, repo)
    capture_rest(rep, repo, mod)
    from checks import kernel_eval
    ke = kernel_eval.decide(rep, repo, 'C13', ('activity', 'overflow'))
    kernel_eval.with_fallback(rep, ke, 'C13', lambda: overflow(rep, repo))
    act = False
    try:
        act = activity_evaluated(rep, repo, mod)
    except ModelError as e:
        rep.note(f'C13.count: the activity computation is outside the evaluated subset ({e}); the structural rules C13.count / C13.accumulate decide')
    if not act:
        kernel_eval.with_fallback(rep, ke, 'C13', lambda: counts(rep, repo))
    kernel_eval.with_fallback(rep, ke, 'C13', lambda: accumulation(rep, repo, mod, kernel_side=not act))


def capture_rest(rep, repo, mod):
    rep.rule('C13.capture', 'capture: val toggles for entries with t < time (strict); overflow flag set iff the terminator is TMAX_OVL; with sd = 0 the capture value is val; result positions match s[3..10]')
    from checks import capture_eval
    if capture_eval.decide(rep, repo, 'C13.capture', (3, 4, 5, 6, 7, 8, 9, 10)):
        return          # decided by evaluating both c_to_s implementations on a family of waveforms
    _, loops = c03.capture_loops(repo)
    for side, f, loop, lb in loops:
        vs = [s for s in ast.walk(loop) if isinstance(s, ast.AugAssign) and is_name(s.target, 'val')]
        ok = len(vs) == 1 and cz(vs[0]) == 'val^=1' and guard_texts(vs[0], lb) == [('t>=TMAX', False), ('t<time', True)]
        rep.ob('C13.capture', f'{side}: val ^= 1 under t < time', ok, sample={'rule': 'C13.capture', 'side': side, 'guards': guard_texts(vs[0], lb) if vs else None})
        if not ok:
            rep.violate('C13.capture', mod, f, vs[0] if vs else 'val ^= 1', f'wave_capture_{side}: `val ^= 1` must run exactly for entries with t < TMAX and t < time (strict: the value just before T); '
                        f'guards found: {guard_texts(vs[0], lb) if vs else None}', node=vs[0] if vs else f)
        os_ = [s for s in ast.walk(loop) if isinstance(s, ast.Assign) and is_name(s.targets[0], 'ovl')]
        ok = len(os_) == 1 and cz(os_[0]) == 'ovl=1' and guard_texts(os_[0], lb) == [('t>=TMAX', True), ('t==TMAX_OVL', True)]
        rep.ob('C13.capture', f'{side}: ovl = 1 iff terminator == TMAX_OVL', ok)
        if not ok:
            rep.violate('C13.capture', mod, f, os_[0] if os_ else 'ovl = 1', f'wave_capture_{side}: the overflow flag must be set exactly when the first entry >= TMAX equals TMAX_OVL', node=os_[0] if os_ else f)
        init = {cz(s) for s in body_no_doc(f)}
        for w in ('ovl=0', 'val=int(0)'):
            ok = w in init or w.replace('int(0)', '0') in init
            rep.ob('C13.capture', f'{side}: {w}', ok)
            if not ok:
                rep.violate('C13.capture', mod, f, w, f'wave_capture_{side}: `{w}` required before the loop', node=f)
        post = [s for s in body_no_doc(f) if isinstance(s, ast.If) and cz(s.test) == 's_sqrt2>0' and s.orelse]
        ok = len(post) == 1 and [cz(s) for s in post[0].orelse] == ['acc=val']
        rep.ob('C13.capture', f'{side}: sd = 0 -> acc = val', ok)
        if not ok:
            rep.violate('C13.capture', mod, f, post[0] if post else 'else: acc = val', f'wave_capture_{side}: without sampling uncertainty (s_sqrt2 == 0) the capture probability must equal the captured value (acc = val) and val must stay untouched', node=f)
        if post:
            touched = [s for s in ast.walk(ast.Module(body=post[0].orelse, type_ignores=[])) if isinstance(s, (ast.Assign, ast.AugAssign)) and 'val' in target_names(s.targets[0] if isinstance(s, ast.Assign) else s.target)]
            if touched:
                rep.violate('C13.capture', mod, f, touched[0], f'wave_capture_{side}: val is modified on the sd = 0 path', node=touched[0])
    # positions
    f = loops[0][1]
    ret = find_all(f, ast.Return)
    want = ['w[0]<=TMIN', 'eat', 'lst', 'final', 'acc', 'val', '0', 'ovl']
    got = [cz(e) for e in ret[0].value.elts] if len(ret) == 1 and isinstance(ret[0].value, ast.Tuple) else None
    ok = got == want
    rep.ob('C13.capture', f'cpu result tuple {got}', ok)
    if not ok:
        rep.violate('C13.capture', mod, f, ret[0] if ret else 'return', f'wave_capture_cpu must return (initial, eat, lst, final, acc, val, 0, ovl) = rows s[3..10]; found {got}', node=f)
    g = loops[1][1]
    st = {}
    for s in body_no_doc(g):
        if isinstance(s, ast.Assign) and isinstance(s.targets[0], ast.Subscript) and is_name(s.targets[0].value, 's') and isinstance(s.targets[0].slice, ast.Tuple):
            e = s.targets[0].slice.elts
            if isinstance(e[0], ast.Constant) and cz(e[1]) == 'y' and cz(e[2]) == 'vector':
                st[e[0].value] = cz(s.value)
    wantg = {3: 'c[line,vector]<=TMIN', 4: 'eat', 5: 'lst', 6: 'final', 7: 'acc', 8: 'val', 9: '0', 10: 'ovl'}
    ok = st == wantg
    rep.ob('C13.capture', f'gpu stores s[3..10]', ok, sample={'rule': 'C13.capture', 'gpu stores': st})
    if not ok:
        d = [k for k in wantg if st.get(k) != wantg[k]]
        rep.violate('C13.capture', mod, g, f's[{d[0]}] = {st.get(d[0])}' if d else 's[...]', f'wave_capture_gpu must store rows 3..10 = (initial, eat, lst, final, acc, val, 0, ovl); row(s) {d} differ', node=g)
    # defaults: capture at TMAX = settled value
    for q in ('WaveSim.c_to_s', 'WaveSimCuda.c_to_s', 'wave_capture_cpu'):
        h = mod.func(q)
        dm = {a.arg: cz(d) for a, d in zip(h.args.args[len(h.args.args) - len(h.args.defaults):], h.args.defaults)}
        ok = dm.get('time') == 'TMAX' and dm.get('sd') == '0.0'
        rep.ob('C13.capture', f'{q}: defaults time=TMAX, sd=0.0', ok)
        if not ok:
            rep.violate('C13.capture', mod, h, f'{q} defaults {dm}', f'{q}: default capture must be of the settled value (time=TMAX, sd=0.0)', node=h)
    cu = mod.func('WaveSimCuda.c_to_s')
    calls = [c for c in find_all(cu, ast.Call) if isinstance(c.func, ast.Subscript) and cz(c.func.value) == 'wave_capture_gpu']
    ok = len(calls) == 1 and [cz(a) for a in calls[0].args] == ['self.c', 'self.s', 'self.c_locs', 'self.c_caps', 'self.ppo_offset', 'time', 'sd*math.sqrt(2)', 'seed']
    gp = [a.arg for a in g.args.args]
    ok = ok and gp == ['c', 's', 'c_locs', 'c_caps', 'ppo_offset', 'time', 's_sqrt2', 'seed']
    rep.ob('C13.capture', 'gpu capture call passes (c, s, c_locs, c_caps, ppo_offset, time, sd*sqrt(2), seed)', ok)
    if not ok:
        rep.violate('C13.capture', mod, cu, calls[0] if calls else 'wave_capture_gpu[...]', 'WaveSimCuda.c_to_s must pass (self.c, self.s, self.c_locs, self.c_caps, self.ppo_offset, time, sd*sqrt(2), seed) matching the kernel parameters', node=cu)
    gt = [cz(s) for s in body_no_doc(g)]
    for w in ('line=c_locs[ppo_offset+y]', 'tdim=c_caps[ppo_offset+y]', 'ifline<0:return', 'vector=x', 'ifppo_offset+y>=len(c_locs):return', 'ifx>=c.shape[-1]:return'):
        ok = w in gt
        rep.ob('C13.capture', f'gpu: {w}', ok)
        if not ok:
            rep.violate('C13.capture', mod, g, w, f'wave_capture_gpu: `{w}` required (output slot -> waveform location and capacity; threads without an output return)', node=g)
    gl = loops[1][2]
    ok = cz(gl.iter) == 'range(tdim)' and cz(gl.body[0]) == f't=c[line+{gl.target.id},vector]'
    rep.ob('C13.capture', 'gpu: loop reads c[line + tidx, vector] for tidx < capacity', ok)
    if not ok:
        rep.violate('C13.capture', mod, g, gl, 'wave_capture_gpu must read t = c[line + tidx, vector] for tidx in range(tdim)', node=gl)


def overflow(rep, repo):
    rep.rule('C13.overflow', 'an edge is dropped for lack of space only in the else of the capacity guard, which increments `overflows`; terminator = TMAX_OVL iff overflows > 0 else max(a,b,c,d)')
    K = Kernel(repo)
    mod, f = K.mod, K.f
    inc = [s for s in walk_no_nested_funcs(f) if isinstance(s, (ast.AugAssign, ast.Assign)) and 'overflows' in target_names(s.target if isinstance(s, ast.AugAssign) else s.targets[0])]
    ok = len(inc) == 2 and cz(inc[0]) in ('overflows=int(0)', 'overflows=0') and cz(inc[1]) == 'overflows+=1'
    rep.ob('C13.overflow', 'overflows: initialised 0, incremented at one site', ok)
    if not ok:
        rep.violate('C13.overflow', mod, f, inc[-1] if inc else 'overflows', '`overflows` must start at 0 and be incremented (+= 1) at exactly one site', node=f)
    if len(inc) >= 2:
        g = guard_texts(inc[1], K.loop.body)
        capg = [t for t, pol in g if 'z_cap' in t]
        ok = len(capg) == 1 and g[-1][1] is False and 'z_cap' in g[-1][0]
        rep.ob('C13.overflow', f'increment guarded by NOT({capg[0] if capg else "?"})', ok, sample={'rule': 'C13.overflow', 'guards': g})
        if not ok:
            rep.violate('C13.overflow', mod, f, inc[1], f'`overflows += 1` must sit in the else of the capacity guard (the only place an edge is discarded for lack of space); guards: {g}', node=inc[1])
    # every z_cur decrement not in the filter arm must be paired with an overflow increment
    for st in ast.walk(K.toggle_if):
        if isinstance(st, ast.AugAssign) and is_name(st.target, 'z_cur') and isinstance(st.op, ast.Sub):
            g = guard_texts(st, K.loop.body)
            in_cap_else = any('z_cap' in t and pol is False for t, pol in g)
            blk = getattr(st, '_parent')
            sibs = [cz(s) for s in (blk.orelse if st in getattr(blk, 'orelse', []) else blk.body)]
            if in_cap_else:
                ok = 'overflows+=1' in sibs
                rep.ob('C13.overflow', 'dropped edge is counted', ok)
                if not ok:
                    rep.violate('C13.overflow', mod, f, st, 'an edge dropped for lack of space (z_cur -= 1 in the else of the capacity guard) must be counted in `overflows`', node=st)
    term = [s for s in K.epilogue if isinstance(s, ast.Assign) and isinstance(s.targets[0], ast.Subscript) and cz(s.targets[0].value) == 'cbuf']
    ok = len(term) == 1 and cz(term[0].value) == 'TMAX_OVLifoverflows>0elsemax(a,b,c,d)'
    rep.ob('C13.overflow', 'terminator', ok)
    if not ok:
        rep.violate('C13.overflow', mod, f, term[0] if term else 'terminator', 'terminator must be TMAX_OVL if overflows > 0 else max(a, b, c, d) (own overflow, else the largest operand terminator: propagation through the cone)', node=f)
    # sentinels
    wm = repo.mod('wave_sim')
    from kvstatic.fold import fold_module
    env, _ = fold_module(wm)
    vals = {k: getattr(env.get(k), 'value', None) for k in ('TMAX', 'TMAX_OVL', 'TMIN')}
    ok = None not in vals.values() and vals['TMIN'] < 0 < vals['TMAX'] < vals['TMAX_OVL'] and vals['TMAX_OVL'] < 3.4028235e38 and vals['TMIN'] == -vals['TMAX']
    rep.ob('C13.overflow', f'sentinels TMIN < 0 < TMAX < TMAX_OVL < float32 max: {vals}', ok)
    if not ok:
        rep.violate('C13.overflow', wm, '<module>', f'TMIN/TMAX/TMAX_OVL = {vals}', 'sentinels must satisfy TMIN = -TMAX < 0 < TMAX < TMAX_OVL <= float32 max (t >= TMAX recognises both terminators; TMAX_OVL distinguishes overflow)')


def int_eval(e, env):
    if isinstance(e, ast.Constant):
        return int(e.value)
    if isinstance(e, ast.Name):
        return env[e.id]
    if isinstance(e, ast.BinOp):
        a, b = int_eval(e.left, env), int_eval(e.right, env)
        if isinstance(e.op, ast.Add):
            return a + b
        if isinstance(e.op, ast.Sub):
            return a - b
        if isinstance(e.op, ast.FloorDiv):
            return a // b
        if isinstance(e.op, ast.Mult):
            return a * b
        if isinstance(e.op, ast.RShift):
            return a >> b
        if isinstance(e.op, ast.BitAnd):
            return a & b
    if isinstance(e, ast.Call) and call_name(e) in ('max', 'min', 'int'):
        vs = [int_eval(a, env) for a in e.args]
        return {'max': max, 'min': min, 'int': lambda x: x}[call_name(e)](*vs)
    if isinstance(e, ast.Compare) and cz(e) == 'cbuf[z_mem,sim]==TMIN':
        return env['first_is_tmin']
    raise ModelError(f'count formula outside the modelled integer subset: {norm(e)[:80]}')


def counts(rep, repo):
    rep.rule('C13.count', 'nrise/nfall formulas equal the alternation oracle for z_cur in 0..64 x first-entry-is-TMIN in {0,1}')
    K = Kernel(repo)
    mod, f = K.mod, K.f
    defs = {}
    for s in K.epilogue:
        if isinstance(s, ast.Assign) and isinstance(s.targets[0], ast.Name) and s.targets[0].id in ('nrise', 'nfall'):
            defs[s.targets[0].id] = s
    if sorted(defs) != ['nfall', 'nrise']:
        raise AnchorError('_wave_eval: nrise / nfall definitions not found after the loop')
    bad = {}
    n = 0
    for z in range(0, 65):
        for tm in (0, 1):
            if tm and z == 0:
                continue        # position 0 holds the terminator when there is no entry
            n += 1
            env = {'z_cur': z, 'first_is_tmin': tm}
            rises = (z + 1) // 2 - tm      # even positions are rises; a TMIN entry is not a transition
            falls = z // 2
            for nm, exp in (('nrise', rises), ('nfall', falls)):
                got = int_eval(defs[nm].value, env)
                if got != exp:
                    bad.setdefault(nm, []).append((z, tm, got, exp))
    for nm in ('nrise', 'nfall'):
        ok = nm not in bad
        rep.ob('C13.count', f'{nm} = {cz(defs[nm].value)}', ok, evals=n, sample={'rule': 'C13.count', 'formula': norm(defs[nm]), 'cases': n, 'ok': ok})
        if not ok:
            z, tm, got, exp = bad[nm][0]
            rep.violate('C13.count', mod, f, defs[nm], f'{nm} formula miscounts: waveform with {z} entries{" starting with TMIN" if tm else ""} has {exp} {"rising" if nm == "nrise" else "falling"} transitions, formula gives {got}',
                        witness={'z_cur': z, 'first entry is TMIN': bool(tm), 'formula': got, 'oracle': exp}, node=defs[nm])
    ret = find_all(f, ast.Return)
    ok = len(ret) == 1 and cz(ret[0].value) == '(nrise,nfall)'
    rep.ob('C13.count', 'return (nrise, nfall)', ok)
    if not ok:
        rep.violate('C13.count', mod, f, ret[0] if ret else 'return', '_wave_eval must return (nrise, nfall) in that order', node=f)
    zm = [s for s in K.epilogue if isinstance(s, (ast.Assign, ast.AugAssign)) and isinstance(s, ast.Assign) and isinstance(s.targets[0], ast.Subscript) and cz(s.targets[0].value) == 'cbuf']
    if zm and defs['nrise'] in K.epilogue:
        ok = K.epilogue.index(zm[0]) < K.epilogue.index(defs['nrise'])
        rep.ob('C13.count', 'terminator stored before cbuf[z_mem] is inspected', ok)
        if not ok:
            rep.violate('C13.count', mod, f, defs['nrise'], 'the terminator must be stored before nrise reads cbuf[z_mem, sim] (for an empty waveform position 0 holds the terminator, not a stale TMIN)', node=defs['nrise'])


def activity_evaluated(rep, repo, mod):
    from kvstatic.core import cached_rules
    return cached_rules(rep, repo, 'c13.activity', ['wave_sim'], lambda r: _activity_evaluated(r, repo, mod))


def _activity_evaluated(rep, repo, mod):
    """C13.count / C13.accumulate decided together by evaluation (Engine M; integers only): the statements of _wave_eval behind its event loop are evaluated for every
    waveform length 0..64 with and without a leading TMIN entry (and with stale entries - also TMIN - left behind the waveform by an earlier propagation), the value they return is handed to the accumulation statements of level_eval_cpu and wave_eval_gpu, and
    what reaches abuf must be rises x (column 7) + falls x (column 8) of the op, at row column 6, exactly when that row is >= 0. Returns False when the code is outside the subset."""
    from kvstatic import minieval
    NS, Rec, stub = minieval.NS, minieval.Rec, minieval.stub
    K = Kernel(repo)
    # the sentinels are only compared here, never computed with: any three ordered numbers stand for them (their order is rule C13.overflow)
    TMIN, TMAX, TMAX_OVL = -1.0e30, 1.0e30, 1.1e30
    cpu, gpu = mod.func('level_eval_cpu'), mod.func('wave_eval_gpu')
    rep.rule('C13.count', 'switching activity, evaluated: for waveforms of 0..64 entries with / without a leading TMIN the epilogue of _wave_eval and the accumulation statements of level_eval_cpu / wave_eval_gpu '
                          'add (number of rises) x column 7 + (number of falls) x column 8 to abuf[column 6, sim], exactly when column 6 >= 0')
    WR, WF = 1000, 1
    bad = None
    n = 0
    # names the epilogue may read from the loop: assigned neutral values (all inputs at their terminator, no overflow)
    base = {'TMIN': TMIN, 'TMAX': TMAX, 'TMAX_OVL': TMAX_OVL if TMAX_OVL is not None else TMAX, 'a': TMAX, 'b': TMAX, 'c': TMAX, 'd': TMAX, 'current_t': TMAX, 'overflows': 0,
            'z_mem': 0, 'sim': 0, 'z_cap': 100, 'z_val': 0, 'previous_t': TMIN}
    for z in range(0, 65):
        for tm in (0, 1):
            if tm and z == 0:
                continue
            for a_loc, stale in ((3, None), (0, TMIN), (-1, None), (3, TMIN), (0, 7.0)):
                n += 1
                rises, falls = (z + 1) // 2 - tm, z // 2
                cb = Rec()
                for k in range(z):
                    cb.put((k, 0), TMIN if (k == 0 and tm) else 5.0 + k)
                if stale is not None:
                    for k in range(z, z + 3):
                        cb.put((k, 0), stale)        # what an earlier propagation (or a cancelled initial marker) left behind the waveform
                op = [0, 0, 0, 0, 0, 0, a_loc, WR, WF]
                env = dict(base)
                env.update({'z_cur': z, 'cbuf': cb, 'op': op})
                try:
                    try:
                        minieval.run(K.epilogue, env)
                        ret = None
                    except minieval.Returned as r:
                        ret = r.value
                    res = {}
                    for fn, kern in ((cpu, 'wave_eval_cpu'), (gpu, '_wave_eval_gpu')):
                        ab = Rec()
                        added = []
                        cuda = NS(grid=stub(lambda k_: (0, 0)), atomic=NS(add=stub(lambda arr, idx, v: added.append((minieval.freeze(idx), v)))))
                        e2 = {kern: stub(lambda *a_: ret), 'cuda': cuda}
                        minieval.module_functions(mod.tree, e2)       # helpers of the module (and their compiled aliases) the accumulation sites call
                        args = {'ops': [op], 'op_start': 0, 'op_stop': 1, 'c': Rec(), 'cbuf': Rec(), 'c_locs': Rec(), 'c_caps': Rec(), 'abuf': ab, 'sim_start': 0, 'sim_stop': 1,
                                'delays': Rec(), 'simctl_int': Rec(), 'seed': 0}
                        minieval.call_function(fn, [args[a.arg] for a in fn.args.args], e2)
                        got = dict(ab)
                        for idx, v in added:
                            got[idx] = got.get(idx, 0) + v
                        res[fn.name] = got
                except ModelError:
                    raise
                except (IndexError, KeyError, TypeError, AttributeError, ValueError, RuntimeError, ZeroDivisionError) as e:
                    bad = bad or (f'raises {type(e).__name__}: {e}', z, tm, a_loc)
                    continue
                want = {(a_loc, 0): rises * WR + falls * WF} if a_loc >= 0 else {}
                for name, got in res.items():
                    g = {k: v for k, v in got.items() if v != 0}
                    w = {k: v for k, v in want.items() if v != 0}
                    if g != w and bad is None:
                        bad = (f'{name} adds {g} to abuf; a waveform with {rises} rises and {falls} falls, weights ({WR}, {WF}) and accumulator row {a_loc} must add {w}', z, tm, a_loc)
    ok = bad is None
    rep.ob('C13.count', f'activity of {n} waveform shapes through _wave_eval and both accumulation sites', ok, evals=n)
    if not ok:
        why, z, tm, a_loc = bad
        rep.violate('C13.count', mod, K.f, 'switching activity', f'a waveform with {z} entries{" starting with TMIN" if tm else ""}: {why}', node=K.f)
    return True


def accumulation(rep, repo, mod, kernel_side=True):
    rep.rule('C13.accumulate', 'abuf[a_loc, sim] += nrise*a_wr + nfall*a_wf under a_loc >= 0 with (a_loc, a_wr, a_wf) = op columns (6, 7, 8); same on the GPU via atomic add')
    for q in (('level_eval_cpu', 'wave_eval_gpu') if kernel_side else ()):
        f = mod.func(q)
        cols = {}
        for s in walk_no_nested_funcs(f):
            if isinstance(s, ast.Assign) and isinstance(s.targets[0], ast.Name) and isinstance(s.value, ast.Subscript) and is_name(s.value.value, 'op') and isinstance(s.value.slice, ast.Constant):
                cols[s.targets[0].id] = s.value.slice.value
        ok = cols.get('a_loc') == 6 and cols.get('a_wr') == 7 and cols.get('a_wf') == 8
        rep.ob('C13.accumulate', f'{q}: columns {cols}', ok, sample={'rule': 'C13.accumulate', 'function': q, 'columns': cols})
        if not ok:
            rep.violate('C13.accumulate', mod, f, f'a_loc, a_wr, a_wf = op[{cols.get("a_loc")}], op[{cols.get("a_wr")}], op[{cols.get("a_wf")}]', f'{q}: accumulator index, rise weight and fall weight are op columns 6, 7, 8', node=f)
        up = [s for s in walk_no_nested_funcs(f) if isinstance(s, ast.Tuple) and cz(s) == '(nrise,nfall)']
        calls = [s for s in walk_no_nested_funcs(f) if isinstance(s, ast.Assign) and cz(s.targets[0]) == '(nrise,nfall)']
        ok = len(calls) == 1
        rep.ob('C13.accumulate', f'{q}: nrise, nfall = kernel(...)', ok)
        if not ok:
            rep.violate('C13.accumulate', mod, f, 'nrise, nfall = ...', f'{q}: the kernel result must be unpacked as (nrise, nfall)', node=f)
        if q == 'level_eval_cpu':
            acc = [s for s in walk_no_nested_funcs(f) if isinstance(s, ast.AugAssign) and cz(s.target) == 'abuf[a_loc,sim]']
            ok = len(acc) == 1 and isinstance(acc[0].op, ast.Add) and cz(acc[0].value) in ('nrise*a_wr+nfall*a_wf', 'nfall*a_wf+nrise*a_wr')
            g = guard_texts(acc[0], body_no_doc(f)) if acc else []
            ok = ok and [x for x in g if not x[0].startswith('loop:')] == [('a_loc>=0', True)]
        else:
            acc = [c for c in find_all(f, ast.Call) if call_name(c) == 'cuda.atomic.add']
            ok = len(acc) == 1 and len(acc[0].args) == 3 and cz(acc[0].args[2]) in ('nrise*a_wr+nfall*a_wf', 'nfall*a_wf+nrise*a_wr') and cz(acc[0].args[1]) == '(a_loc,sim)'
            g = guard_texts(acc[0], body_no_doc(f)) if acc else []
            ok = ok and ('a_loc>=0', True) in g
        rep.ob('C13.accumulate', f'{q}: weighted sum under a_loc >= 0', ok)
        if not ok:
            rep.violate('C13.accumulate', mod, f, acc[0] if acc else 'abuf update', f'{q}: must add nrise*a_wr + nfall*a_wf to abuf[a_loc, sim], exactly when a_loc >= 0', node=acc[0] if acc else f)
    # SimOps side: row of the output line
    smod, init = simops.simops_init(repo)
    sites = simops.op_sites(init, tolerant=True)
    n = 0
    opaque = [s for s in sites if s.opaque]
    for s in sites:
        if s.opaque:
            continue      # columns not separable statically: decided by the evaluated translation (C01.wiring, included in this check), which compares all three accumulation columns
        star = s.rest[0] if len(s.rest) == 1 and isinstance(s.rest[0], ast.Starred) else None
        o = s.out
        line = cz(o.value) if isinstance(o, ast.Attribute) and o.attr == 'index' else cz(o)
        if star is None:
            # explicit columns: each must resolve to a_ctrl[<line>][k] (directly or through a preceding `x, y, z = a_ctrl[<line>]`)
            cols = []
            blk = getattr(enclosing(s.call, ast.Expr) or s.call, '_parent', None)
            stmt = enclosing(s.call, ast.Expr)
            sibs = []
            if blk is not None and stmt is not None:
                sibs = blk.body if stmt in getattr(blk, 'body', []) else getattr(blk, 'orelse', [])
            names = {}
            for prev in sibs[:sibs.index(stmt)] if stmt in sibs else []:
                if isinstance(prev, ast.Assign) and len(prev.targets) == 1 and isinstance(prev.targets[0], ast.Tuple) and isinstance(prev.value, ast.Subscript) \
                        and is_name(prev.value.value, 'a_ctrl') and all(isinstance(t, ast.Name) for t in prev.targets[0].elts):
                    for k, t in enumerate(prev.targets[0].elts):
                        names[t.id] = (cz(prev.value.slice), k)
            for e in s.rest:
                if isinstance(e, ast.Name) and e.id in names:
                    cols.append(names[e.id])
                elif isinstance(e, ast.Subscript) and isinstance(e.value, ast.Subscript) and is_name(e.value.value, 'a_ctrl') and isinstance(e.slice, ast.Constant):
                    cols.append((cz(e.value.slice), e.slice.value))
                else:
                    cols.append(None)
            if len(cols) != 3 or None in cols:
                raise ModelError(f'ops.append tuple tail is neither `*a_ctrl[...]` nor three resolvable a_ctrl columns: {norm(s.tup)[:100]}')
            n += 1
            ok = cols == [(line, 0), (line, 1), (line, 2)] or cols == [(cz(o), 0), (cz(o), 1), (cz(o), 2)]
            rep.ob('C13.accumulate', f'op tuple columns 6..8 for output {cz(o)}: {cols}', ok)
            if not ok:
                rep.violate('C13.accumulate', smod, init, s.tup, f'op columns 6, 7, 8 must be a_ctrl[{line}][0], [1], [2] (accumulator row, rise weight, fall weight) of the op\'s own '
                            f'output line; found {cols}: the kernels multiply column 7 with the rises and column 8 with the falls of that output', node=s.call)
            continue
        n += 1
        ok = cz(star.value) in (f'a_ctrl[{line}]', f'a_ctrl[{cz(o)}]') and len(s.elts) == 7
        rep.ob('C13.accumulate', f'op tuple tail {cz(star)} for output {cz(o)}', ok)
        if not ok:
            rep.violate('C13.accumulate', smod, init, s.tup, f'op columns 6..8 must be the a_ctrl row of the op\'s output line ({line}); found {norm(star.value)}', node=s.call)
    rep.floor('op tuple sites', n, 5 if not opaque and len(sites) >= 5 else 0)
    flat = [cz(s) for s in body_no_doc(init)]
    ok = 'ifa_ctrlisNone:a_ctrl=np.zeros((len(circuit.lines)+3,3),dtype=np.int32)a_ctrl[:,0]=-1' in flat
    rep.ob('C13.accumulate', 'default a_ctrl rows have index -1 (ignored)', ok)
    if not ok:
        rep.violate('C13.accumulate', smod, init, 'a_ctrl default', 'without a_ctrl every line (and the 3 special slots) must get the row (-1, 0, 0): accumulation disabled', node=init)
    from checks import wavesim_init_eval
    if wavesim_init_eval.decide(rep, repo, 'C13.accumulate', ('abuf',)):
        return          # WaveSim.__init__ evaluated for several accumulation tables
    wi = mod.func('WaveSim.__init__')
    t = [cz(s) for s in body_no_doc(wi)]
    ok = 'self.abuf_len=self.ops[:,6].max()+1' in t and 'self.abuf=np.zeros((self.abuf_len,sims),dtype=np.int32)ifself.abuf_len>0elsenp.zeros((1,1),dtype=np.int32)' in t
    rep.ob('C13.accumulate', 'abuf has max(column 6) + 1 rows x sims lanes, zero-initialised', ok)
    if not ok:
        rep.violate('C13.accumulate', mod, wi, 'self.abuf_len / self.abuf', 'abuf must have self.ops[:, 6].max() + 1 rows and `sims` lanes, zero-initialised int32', node=wi)


def depends(rep, repo):
    """The waveform that is summarised is the one _wave_eval writes (kernel rules of C03: initial value, toggle parity incl. the overflow
    path, bounds, arm agreement) and the accumulation columns 6..8 reach the kernel through the node -> op translation of SimOps
    (C01.wiring, evaluated): both are part of this check. Rule ids keep their prefix."""
    from checks import c01, c03
    from kvstatic.wavekernel import Kernel
    c03.kernel_rules(rep, repo)
    c01.wiring_rules(rep, repo)
    # the capture routines read `c_caps[...]` entries of the waveform at `c_locs[...]`: location and capacity tables of the memory map (C08)
    from checks import c08
    c08.map_rules(rep, repo)


def thorough(rep, repo):
    """Thorough tier: the quick rules plus checker self-validation on the C13 slice of the mutation corpus."""
    from kvstatic import thorough as thorough_mod
    thorough_mod.selftest_slice(rep, repo, 'C13')
