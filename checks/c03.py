"""C03 - timing simulation settles to the Boolean function for any delays/capacity (parity invariant)."""
from __future__ import annotations

import ast

from kvstatic.core import Repo, Report, ModelError, AnchorError, norm
from kvstatic.wavekernel import Kernel
from kvstatic.paths import cz, enum_paths, guards_of, guard_texts
from kvstatic.astutil import (find_all, attr_chain, is_name, call_name, body_no_doc, target_names, flatten_if_chain, renamed,
                              walk_no_nested_funcs)


def run(rep: Report, repo: Repo):
    rep.explanation = (
        'Correctness of initial/final values is a parity invariant of _wave_eval, independent of delays, event order and capacity: '
        'R = (z_cur & 1) == LUT(inputs). Engine B enumerates all paths through the loop body and checks that exactly one operand bit of '
        '`inputs` toggles, that z_cur is untouched when the guard is false and changes by exactly +-1 on every path (emit, overflow, filter) '
        'when it is true; a symbolic interval domain proves 0 <= z_cur <= z_cap-1 at every waveform access; the four operand arms are '
        'compared under renaming; the stimulus tables of s_to_c / wave_assign_gpu and the capture loops are evaluated symbolically over {TMIN, t, TMAX}.')
    rep.trusted = ['LUT constants and operand columns (C01)', 'z_cap >= 4 (WaveSim passes c_caps_min=4, checked in C08.alloc)']
    rep.assumptions = ['NOT DECIDED: float32 sentinel absorption (TMAX + d >= TMAX, TMIN + d == TMIN for realistic d), on which "the waveform starts at the '
                       'Boolean function of the initial values" additionally rests (edges generated while the TMIN entries are consumed collapse)',
                       'NOT DECIDED: loop termination; well-formedness of input waveforms beyond what s_to_c writes']
    kernel_rules(rep, repo)
    stimulus_table(rep, repo, rid='C03.stimulus')
    capture_final(rep, repo)


def kernel_rules(rep, repo):
    """the rules about _wave_eval this property (and C04, C05, which include them) rests on: the evaluated kernel rule (settle, bounds) and the
    path rules. When the evaluated rule ran, the statement templates of the prologue (C03.init) are not applied - the evaluation starts every
    situation from the prologue - and a kernel the path engine cannot parse is decided by the evaluation."""
    from checks import kernel_eval
    ke = kernel_eval.decide(rep, repo, 'C03', ('settle', 'bounds'))

    def structural():
        K = Kernel(repo)
        if not ke:
            initial_value(rep, K)
        parity(rep, K)
        bounds(rep, K)
        siblings(rep, K)
    kernel_eval.with_fallback(rep, ke, 'C03', structural)


# --------------------------------------------------------------------------- 1. initial value

def initial_value(rep, K):
    rep.rule('C03.init', 'z_cur starts as LUT(all operands 0) = lut & 1; a TMIN entry is stored at position 0 exactly when it is 1; inputs start at 0')
    # every evaluation ends by writing the terminator behind the last stored edge: no exit from _wave_eval before its last statement
    rets = [n for n in ast.walk(K.f) if isinstance(n, ast.Return)]
    okr = len(rets) == 1 and K.f.body[-1] is rets[0]
    rep.ob('C03.init', '_wave_eval leaves only through its final return (after the terminator store)', okr)
    if not okr:
        early = next((r for r in rets if r is not K.f.body[-1]), rets[0] if rets else K.f)
        rep.violate('C03.init', K.mod, K.f, early, '_wave_eval returns before its last statement: the terminator (TMAX / overflow marker) of the output waveform is not written on '
                    'that path, so whatever the memory held before (a previous stimulus, another signal) is read as transitions', node=early)
    pro = [cz(s) for s in K.prologue]
    need = ['z_cur=lut&1', 'ifz_cur==1:cbuf[z_mem,sim]=TMIN', 'inputs=int(0)', 'lut=op[0]', 'z_mem=c_locs[z_idx]', 'z_cap=c_caps[z_idx]']
    alt = {'inputs=int(0)': 'inputs=0'}
    for w in need:
        ok = w in pro or alt.get(w) in pro
        rep.ob('C03.init', w, ok)
        if not ok:
            rep.violate('C03.init', K.mod, K.f, w, f'_wave_eval prologue: `{w}` required (the output starts at LUT(0,0,0,0); a leading TMIN entry encodes initial value 1)', node=K.f)
    # z_cur / inputs not modified between their initialisation and the loop
    for var in ('z_cur', 'inputs', 'lut'):
        writes = [s for s in K.prologue if isinstance(s, (ast.Assign, ast.AugAssign)) and var in target_names(s.targets[0] if isinstance(s, ast.Assign) else s.target)]
        ok = len(writes) == 1
        rep.ob('C03.init', f'{var} assigned once before the loop', ok)
        if not ok:
            rep.violate('C03.init', K.mod, K.f, writes[-1] if writes else var, f'{var} must be assigned exactly once before the loop', node=writes[-1] if writes else K.f)
    for l in K.letters:
        ok = f'{l}_cur=int(0)' in pro or f'{l}_cur=0' in pro
        rep.ob('C03.init', f'{l}_cur starts at 0', ok)
        if not ok:
            rep.violate('C03.init', K.mod, K.f, f'{l}_cur', f'operand cursor {l}_cur must start at 0 (first entry of the operand waveform)', node=K.f)
        ok = f'{l}_mem=c_locs[{l}_idx]' in pro
        rep.ob('C03.init', f'{l}_mem=c_locs[{l}_idx]', ok)
        if not ok:
            rep.violate('C03.init', K.mod, K.f, f'{l}_mem', f'operand base {l}_mem must be c_locs[{l}_idx]', node=K.f)


# --------------------------------------------------------------------------- 2. parity invariant

def parity(rep, K):
    rep.rule('C03.parity', 'on every path through the loop body exactly one operand cursor advances and exactly its bit of `inputs` toggles; '
                           'guard false => z_cur unchanged; guard true => z_cur changes by exactly +-1 (emit, overflow and filter arms alike)')
    g = K.toggle_if.test
    gt = cz(g)
    ok = gt in ('z_cur&1!=lut>>inputs&1', 'lut>>inputs&1!=z_cur&1') and not K.toggle_if.orelse
    rep.ob('C03.parity', f'guard {gt}', ok)
    if not ok:
        rep.violate('C03.parity', K.mod, K.f, g, 'the toggle guard must be `(z_cur & 1) != ((lut >> inputs) & 1)`: the output toggles exactly when the LUT value under the current operand parities differs from the output parity', node=K.toggle_if)
    wt = cz(K.loop.test)
    ok = wt == 'current_t<TMAX'
    rep.ob('C03.parity', f'loop while {wt}', ok)
    if not ok:
        rep.violate('C03.parity', K.mod, K.f, K.loop.test, 'the merge loop must run while current_t < TMAX (all operand edges consumed)', node=K.loop)
    npaths = 0
    for path, done in enum_paths(list(K.loop.body)):
        npaths += 1
        toggles, curs, dz, guard = [], [], 0, None
        other = []
        for item in path:
            if item[0] == 'cond' and item[1] is g:
                guard = item[2]
            if item[0] != 'stmt':
                if item[0] in ('ret', 'break', 'continue'):
                    other.append(cz(item[1]))
                continue
            st = item[1]
            if isinstance(st, ast.AugAssign) and isinstance(st.target, ast.Name):
                n = st.target.id
                if n == 'inputs':
                    if isinstance(st.op, ast.BitXor) and isinstance(st.value, ast.Constant):
                        toggles.append(st.value.value)
                    else:
                        other.append(cz(st))
                elif n == 'z_cur':
                    if isinstance(st.value, ast.Constant) and isinstance(st.op, (ast.Add, ast.Sub)):
                        dz += st.value.value if isinstance(st.op, ast.Add) else -st.value.value
                        curs.append(('z', cz(st)))
                    else:
                        other.append(cz(st))
                elif n.endswith('_cur'):
                    curs.append((n[:-4], cz(st)))
                elif n == 'lut':
                    other.append(cz(st))
            elif isinstance(st, ast.Assign) and any(t in ('inputs', 'z_cur', 'lut') for t in target_names(st.targets[0])):
                other.append(cz(st))
        ops = [c for c in curs if c[0] != 'z']
        w = {K.col[f'{l}_idx']: None for l in K.letters}
        ok_in = len(toggles) == 1 and len(ops) == 1 and ops[0][1] == f'{ops[0][0]}_cur+=1' and toggles[0] == 1 << (K.col[f'{ops[0][0]}_idx'] - 2)
        zsteps = [c for c in curs if c[0] == 'z']
        if guard:
            ok_z = dz in (1, -1) and len(zsteps) == 1
        else:
            ok_z = dz == 0 and not zsteps
        ok = ok_in and ok_z and not other
        desc = f'arm {ops[0][0] if ops else "?"}, guard {guard}: inputs^={toggles}, z_cur{dz:+d}'
        rep.ob('C03.parity', desc, ok, sample={'rule': 'C03.parity', 'path': desc} if npaths <= 6 else None)
        if not ok:
            if not ok_in:
                msg = f'loop path ({desc}): each iteration must advance exactly one operand cursor by 1 and toggle exactly the matching bit 2^(column-2) of `inputs`'
            elif other:
                msg = f'loop path ({desc}): unexpected write {other}'
            elif guard:
                msg = f'loop path ({desc}): with the guard true z_cur must change by exactly +-1 (parity must follow the LUT) - found {dz:+d} in {len(zsteps)} step(s)'
            else:
                msg = f'loop path ({desc}): with the guard false z_cur must not change'
            rep.violate('C03.parity', K.mod, K.f, desc, msg, witness={'path': [cz(i[1])[:70] + ('' if i[0] != 'cond' else f' -> {i[2]}') for i in path if i[0] in ('cond', 'stmt') and i[0] == 'cond' or (i[0] == 'stmt' and isinstance(i[1], ast.AugAssign))]}, node=K.toggle_if)
    rep.floor('loop-body paths', npaths, 16)
    # after the loop: terminator at z_cur, so the waveform has exactly z_cur entries
    term = [s for s in K.epilogue if isinstance(s, ast.Assign) and isinstance(s.targets[0], ast.Subscript) and cz(s.targets[0].value) == 'cbuf']
    ok = len(term) == 1 and cz(term[0].targets[0]) == 'cbuf[z_mem+z_cur,sim]'
    rep.ob('C03.parity', 'terminator stored at position z_cur', ok)
    if not ok:
        rep.violate('C03.parity', K.mod, K.f, term[0] if term else 'terminator', 'the terminator must be stored at cbuf[z_mem + z_cur, sim] so that the waveform has exactly z_cur entries (parity = final value)', node=K.f)
    zmod = [s for s in K.epilogue if isinstance(s, (ast.Assign, ast.AugAssign)) and 'z_cur' in target_names(s.targets[0] if isinstance(s, ast.Assign) else s.target)]
    rep.ob('C03.parity', 'z_cur not modified after the loop', not zmod)
    for s in zmod:
        rep.violate('C03.parity', K.mod, K.f, s, 'z_cur must not be modified after the loop', node=s)
    # the operand arm chain: arm k is selected when operand k is the earliest
    for (t, b), l in zip(K.arms, K.letters):
        got = K.arm_letter(b)
        ok = got == l and (t is None or cz(t) in (f'{l}==current_t', f'current_t=={l}'))
        rep.ob('C03.parity', f'arm {l}: test {cz(t) if t is not None else "else"}', ok)
        if not ok:
            rep.violate('C03.parity', K.mod, K.f, t if t is not None else f'else arm -> {got}', f'operand arm {l}: selected by `{l} == current_t` and must advance {l}_cur (found arm advancing {got})', node=K.arm_if)
    ok = cz(K.next_stmt) == 'current_t=min(a,b,c,d)' and any(cz(s) == 'current_t=min(a,b,c,d)' for s in K.prologue)
    rep.ob('C03.parity', 'current_t = min(a, b, c, d) before and at the end of each iteration', ok)
    if not ok:
        rep.violate('C03.parity', K.mod, K.f, K.next_stmt, 'current_t must be min(a, b, c, d): the else arm assumes the fourth operand is the earliest when no other matches', node=K.next_stmt)


# --------------------------------------------------------------------------- 3. bounds

class Bound:
    """z_cur in [lo, hi]; each bound is (k, c) meaning k*z_cap + c with k in {0, 1}."""
    def __init__(self, lo=(0, 0), hi=(1, -1)):
        self.lo, self.hi = lo, hi

    def copy(self):
        return Bound(self.lo, self.hi)

    @staticmethod
    def val_min(b, capmin=4):
        return b[0] * capmin + b[1]

    def ge(self, d, other):
        """is lo + d >= other for all z_cap >= 4"""
        k = self.lo[0] - other[0]
        c = self.lo[1] + d - other[1]
        return (k == 0 and c >= 0) or (k == 1 and 4 + c >= 0) if k >= 0 else False

    def le(self, d, other):
        k = self.hi[0] - other[0]
        c = self.hi[1] + d - other[1]
        return (k == 0 and c <= 0) or (k == -1 and -4 + c <= 0)


def bounds(rep, K):
    rep.rule('C03.bounds', 'interval invariant 0 <= z_cur <= z_cap-1 is inductive; every access cbuf[z_mem + z_cur + k] stays inside the waveform (z_cap >= 4)')
    accesses = 0

    def parse_cap(e):
        """expression -> (k, c) for forms: int, z_cap, z_cap - n, z_cap + n"""
        if isinstance(e, ast.Constant) and isinstance(e.value, int):
            return (0, e.value)
        if is_name(e, 'z_cap'):
            return (1, 0)
        if isinstance(e, ast.BinOp) and is_name(e.left, 'z_cap') and isinstance(e.right, ast.Constant):
            return (1, -e.right.value if isinstance(e.op, ast.Sub) else e.right.value)
        return None

    def refine(b, test, pol):
        """refine z_cur bounds with a condition known to be `pol`."""
        if isinstance(test, ast.BoolOp):
            if isinstance(test.op, ast.Or) and not pol:
                for v in test.values:
                    b = refine(b, v, False)
                return b
            if isinstance(test.op, ast.And) and pol:
                for v in test.values:
                    b = refine(b, v, True)
                return b
            return b
        if isinstance(test, ast.Compare) and len(test.ops) == 1:
            # any comparison that is linear in z_cur and z_cap:  L op R  <=>  z_cur op' (k*z_cap + c)
            def lin(e):
                if isinstance(e, ast.Constant) and type(e.value) is int:
                    return (0, 0, e.value)
                if is_name(e, 'z_cur'):
                    return (1, 0, 0)
                if is_name(e, 'z_cap'):
                    return (0, 1, 0)
                if isinstance(e, ast.BinOp) and isinstance(e.op, (ast.Add, ast.Sub)):
                    l, r = lin(e.left), lin(e.right)
                    if l is None or r is None:
                        return None
                    sg = 1 if isinstance(e.op, ast.Add) else -1
                    return (l[0] + sg * r[0], l[1] + sg * r[1], l[2] + sg * r[2])
                return None
            L, R = lin(test.left), lin(test.comparators[0])
            if L is None or R is None:
                return b
            a = L[0] - R[0]
            if a not in (1, -1):
                return b
            rhs = (R[1] - L[1], R[2] - L[2]) if a == 1 else (L[1] - R[1], L[2] - R[2])
            if rhs[0] not in (0, 1):
                return b
            op = test.ops[0]
            if a == -1:
                op = {ast.Lt: ast.Gt, ast.Gt: ast.Lt, ast.LtE: ast.GtE, ast.GtE: ast.LtE}.get(type(op), type(op))()
            nb = b.copy()
            def tighten_hi(v):
                # keep the smaller
                if nb.hi[0] == v[0]:
                    nb.hi = (v[0], min(nb.hi[1], v[1]))
                elif v[0] == 0 and nb.hi[0] == 1:
                    if v[1] <= 4 + nb.hi[1]:
                        nb.hi = v
                else:
                    pass
            def tighten_lo(v):
                if nb.lo[0] == v[0]:
                    nb.lo = (v[0], max(nb.lo[1], v[1]))
                elif v[0] == 1 and nb.lo[0] == 0:
                    if 4 + v[1] >= nb.lo[1]:
                        nb.lo = v
            if isinstance(op, ast.Lt):
                tighten_hi((rhs[0], rhs[1] - 1)) if pol else tighten_lo(rhs)
            elif isinstance(op, ast.LtE):
                tighten_hi(rhs) if pol else tighten_lo((rhs[0], rhs[1] + 1))
            elif isinstance(op, ast.Gt):
                tighten_lo((rhs[0], rhs[1] + 1)) if pol else tighten_hi(rhs)
            elif isinstance(op, ast.GtE):
                tighten_lo(rhs) if pol else tighten_hi((rhs[0], rhs[1] - 1))
            elif isinstance(op, ast.Eq):
                if pol:
                    tighten_lo(rhs)
                    tighten_hi(rhs)
                elif rhs == nb.lo:
                    nb.lo = (rhs[0], rhs[1] + 1)
            elif isinstance(op, ast.NotEq):
                if not pol:
                    tighten_lo(rhs)
                    tighten_hi(rhs)
                elif rhs == nb.lo:
                    nb.lo = (rhs[0], rhs[1] + 1)
            return nb
        return b

    def offsets(expr, b):
        """all cbuf[z_mem + ..] accesses in expr with their offset relative to z_cur, honouring `X if z_cur > 0 else Y`."""
        out = []
        def visit(e, bb):
            if isinstance(e, ast.IfExp):
                visit(e.test, bb)
                visit(e.body, refine(bb, e.test, True))
                visit(e.orelse, refine(bb, e.test, False))
                return
            if isinstance(e, ast.Subscript) and cz(e.value) == 'cbuf' and isinstance(e.slice, ast.Tuple):
                idx = e.slice.elts[0]
                t = cz(idx)
                if t.startswith('z_mem'):
                    rest = t[len('z_mem'):]
                    if rest == '':
                        out.append((e, None, bb))     # absolute position 0
                    elif rest.startswith('+z_cur'):
                        r2 = rest[len('+z_cur'):]
                        try:
                            d = int(r2) if r2 else 0
                        except ValueError:
                            raise ModelError(f'_wave_eval: output index {t} not of the form z_mem + z_cur +- const')
                        out.append((e, d, bb))
                    else:
                        raise ModelError(f'_wave_eval: output index {t} not of the form z_mem + z_cur +- const')
            for c in ast.iter_child_nodes(e):
                visit(c, bb)
        visit(expr, b)
        return out

    def check_access(e, d, b, where):
        nonlocal accesses
        accesses += 1
        if d is None:
            ok = True
        else:
            ok = b.ge(d, (0, 0)) and b.le(d, (1, -1))
        rep.ob('C03.bounds', f'{where}: {cz(e)} with z_cur in [{fmt(b.lo)}, {fmt(b.hi)}]', ok,
               sample={'rule': 'C03.bounds', 'access': cz(e), 'z_cur range': [fmt(b.lo), fmt(b.hi)], 'ok': ok})
        if not ok:
            rep.violate('C03.bounds', K.mod, K.f, e, f'{where}: access {norm(e)} with z_cur in [{fmt(b.lo)}, {fmt(b.hi)}] can leave the waveform [z_mem, z_mem + z_cap - 1] '
                        f'(corrupts or reads a neighbouring signal)', node=e)

    def fmt(v):
        return (f'z_cap{v[1]:+d}' if v[1] else 'z_cap') if v[0] else str(v[1])

    def run_block(stmts, b, where):
        """returns bound after the block (join not needed: straight-line + if/else handled recursively with hull)."""
        for st in stmts:
            if isinstance(st, ast.If):
                for e, d, bb in offsets(st.test, b):
                    check_access(e, d, bb, where)
                b1 = run_block(st.body, refine(b, st.test, True), where)
                b2 = run_block(st.orelse, refine(b, st.test, False), where)
                b = hull(b1, b2)
                continue
            if isinstance(st, ast.AugAssign) and is_name(st.target, 'z_cur'):
                if not isinstance(st.value, ast.Constant):
                    raise ModelError('_wave_eval: z_cur updated by a non-constant')
                d = st.value.value if isinstance(st.op, ast.Add) else -st.value.value
                b = Bound((b.lo[0], b.lo[1] + d), (b.hi[0], b.hi[1] + d))
                continue
            if isinstance(st, ast.Assign) and is_name(st.targets[0], 'z_cur'):
                raise ModelError('_wave_eval: z_cur re-assigned inside the loop')
            exprs = []
            if isinstance(st, ast.Assign):
                exprs = [st.value, st.targets[0]]
            elif isinstance(st, ast.AugAssign):
                exprs = [st.value, st.target]
            elif isinstance(st, ast.Expr):
                exprs = [st.value]
            for x in exprs:
                for e, d, bb in offsets(x, b):
                    check_access(e, d, bb, where)
        return b

    def hull(a, b):
        lo = a.lo if Bound.val_min(a.lo) <= Bound.val_min(b.lo) and a.lo[0] <= b.lo[0] else (b.lo if b.lo[0] <= a.lo[0] and Bound.val_min(b.lo) <= Bound.val_min(a.lo) else (0, min(Bound.val_min(a.lo), Bound.val_min(b.lo))))
        if a.hi[0] == b.hi[0]:
            hi = (a.hi[0], max(a.hi[1], b.hi[1]))
        else:
            hi = a.hi if a.hi[0] == 1 else b.hi
            other = b.hi if a.hi[0] == 1 else a.hi
            if other[1] > 4 + hi[1]:
                hi = (1, other[1] - 4 + hi[1] * 0)
        return Bound(lo, hi)

    inv = Bound((0, 0), (1, -1))
    # entry: z_cur = lut & 1 in {0, 1} <= z_cap - 1
    out = run_block(list(K.loop.body), inv, 'loop body')
    ok = out.ge(0, (0, 0)) and out.le(0, (1, -1))
    rep.ob('C03.bounds', f'invariant inductive: after one iteration z_cur in [{fmt(out.lo)}, {fmt(out.hi)}]', ok)
    if not ok:
        rep.violate('C03.bounds', K.mod, K.f, f'z_cur in [{fmt(out.lo)}, {fmt(out.hi)}] after one iteration', f'0 <= z_cur <= z_cap-1 is not preserved by the loop body: z_cur can reach [{fmt(out.lo)}, {fmt(out.hi)}]', node=K.loop)
    run_block(list(K.epilogue), inv, 'epilogue')
    rep.floor('output waveform accesses checked', accesses, 5)


# --------------------------------------------------------------------------- 4. sibling arms

class _NoDelay(ast.NodeTransformer):
    """delays[...] lookups do not matter for the parity/consumption argument of C03 (they are decided by C04.provenance):
    replace them by one placeholder before comparing sibling arms."""
    def visit_Subscript(self, node):
        if is_name(node.value, 'delays'):
            return ast.copy_location(ast.Name(id='DELAY', ctx=ast.Load()), node)
        return self.generic_visit(node)


def _nodelay(node):
    import copy
    return ast.fix_missing_locations(_NoDelay().visit(copy.deepcopy(node)))


class _CommuteAll(ast.NodeTransformer):
    """numeric kernel code: + * & | ^ commute exactly (IEEE addition/multiplication are commutative); operands sorted by text"""
    def visit_BinOp(self, node):
        self.generic_visit(node)
        if isinstance(node.op, (ast.Add, ast.Mult, ast.BitAnd, ast.BitOr, ast.BitXor)) and not isinstance(node.left, ast.BinOp) and not isinstance(node.right, ast.BinOp):
            a, b = sorted([node.left, node.right], key=ast.unparse)
            node.left, node.right = a, b
        return node


def _cn(node):
    import copy
    n = copy.deepcopy(node)
    for x in ast.walk(n):
        if hasattr(x, '_parent'):
            del x._parent
    return _CommuteAll().visit(n)


def siblings(rep, K):
    rep.rule('C03.siblings', 'the four operand arms, the initial operand loads and the refresh block are identical under a->x, a_idx->x_idx, a_mem->x_mem, a_cur->x_cur, 1->2^k')
    ref_l = K.letters[0]
    def ren(l, w):
        return dict(names={l: 'X', f'{l}_idx': 'X_idx', f'{l}_mem': 'X_mem', f'{l}_cur': 'X_cur'}, consts={w: 'W'})
    ref = None
    for (t, b), l in zip(K.arms, K.letters):
        w = 1 << (K.col[f'{l}_idx'] - 2)
        txt = []
        for st in b:
            if isinstance(st, ast.AugAssign) and is_name(st.target, 'inputs'):
                txt.append(renamed(st, **ren(l, w)))
            elif isinstance(st, ast.Assign) and is_name(st.targets[0], 'thresh'):
                continue      # pulse threshold: a Duration, C04's business
            else:
                txt.append(renamed(_cn(_nodelay(st)), names=ren(l, w)['names']))
        if ref is None:
            ref = txt
            rep.ob('C03.siblings', f'arm {l} (reference)', True, sample={'rule': 'C03.siblings', 'normalised arm': txt})
            continue
        ok = txt == ref
        rep.ob('C03.siblings', f'arm {l} = arm {ref_l} under renaming', ok)
        if not ok:
            d = next((i for i, (x, y) in enumerate(zip(txt, ref)) if x != y), min(len(txt), len(ref)))
            rep.violate('C03.siblings', K.mod, K.f, b[d] if d < len(b) else f'arm {l}', f'operand arm {l} differs from arm {ref_l} beyond the renaming {ref_l}->{l}, bit 2^k',
                        witness={'arm': txt[d] if d < len(txt) else None, 'reference': ref[d] if d < len(ref) else None}, node=b[d] if d < len(b) else K.arm_if)
    # initial loads and refresh block
    def loads(block):
        out = {}
        for st in block:
            if isinstance(st, ast.Assign) and isinstance(st.targets[0], ast.Name) and st.targets[0].id in K.letters:
                out[st.targets[0].id] = st
        return out
    for name, block in (('initial loads', K.prologue), ('refresh after toggle', K.toggle_if.body)):
        ld = loads(block)
        ok = sorted(ld) == sorted(K.letters)
        rep.ob('C03.siblings', f'{name}: all four operands', ok)
        if not ok:
            rep.violate('C03.siblings', K.mod, K.f, f'{name}: {sorted(ld)}', f'{name}: every operand a..d must be (re)loaded; found {sorted(ld)} (a stale delayed time would be compared)', node=K.f)
            continue
        r0 = renamed(_cn(_nodelay(ld[ref_l].value)), names=ren(ref_l, 0)['names'])
        for l in K.letters[1:]:
            t = renamed(_cn(_nodelay(ld[l].value)), names=ren(l, 0)['names'])
            ok = t == r0
            rep.ob('C03.siblings', f'{name}: {l} = {ref_l} under renaming', ok)
            if not ok:
                rep.violate('C03.siblings', K.mod, K.f, ld[l], f'{name}: load of operand {l} differs from operand {ref_l} beyond renaming', witness={'found': t, 'reference': r0}, node=ld[l])
    # refresh happens after z_val toggles
    tb = K.toggle_if.body
    zt = [s for s in tb if isinstance(s, ast.Assign) and cz(s) in ('z_val=z_val^1', 'z_val=1^z_val') or isinstance(s, ast.AugAssign) and cz(s) == 'z_val^=1']
    ld = loads(tb)
    ok = len(zt) == 1 and all(tb.index(zt[0]) < tb.index(s) for s in ld.values())
    rep.ob('C03.siblings', 'z_val toggles once per generated edge, before the refresh', ok)
    if not ok:
        rep.violate('C03.siblings', K.mod, K.f, zt[0] if zt else 'z_val ^= 1', 'inside the toggle block z_val must flip exactly once and the operand times must be refreshed afterwards (delays depend on the output polarity)', node=K.toggle_if)


# --------------------------------------------------------------------------- 6. stimulus table

def sym_entry(e, tname):
    t = cz(e)
    if t in ('TMAX', 'TMIN'):
        return t
    if t == tname:
        return 't'
    return None


def stimulus_table(rep, repo, rid='C03.stimulus'):
    """CPU s_to_c and GPU wave_assign_gpu: waveform written for each (initial, final) in {0,1}^2."""
    try:
        from checks import c03_eval
        from kvstatic.core import cached_rules
        if cached_rules(rep, repo, 'c03.stimulus', ['wave_sim', '__init__'], lambda r: c03_eval.evaluate(r, repo, rid), extra=rid):
            return None
    except ModelError as e:
        rep.note(f'{rid}: s_to_c / wave_assign_gpu are outside the evaluated subset ({e}); the structural rule decides')
    rep.rule(rid, 'stimulus waveform per (initial, final): first entry TMIN iff initial = 1; number of transition entries before the first TMAX has parity initial xor final; entry 2 is TMAX')
    mod = repo.mod('wave_sim')
    tables = {}
    # ---- CPU
    f = mod.func('WaveSim.s_to_c')
    b = body_no_doc(f)
    txt = [cz(s) for s in b]
    sins = [s for s in b if isinstance(s, ast.Assign) and is_name(s.targets[0], 'sins')]
    if len(sins) != 1 or cz(sins[0].value) != 'self.s[:,self.pippi_s_locs]':
        rep.violate(rid, mod, f, sins[0] if sins else 'sins', 's_to_c: sins must be self.s[:, self.pippi_s_locs] (rows of s for the PI/PPI positions)', node=f)
    cond = [s for s in b if isinstance(s, ast.Assign) and is_name(s.targets[0], 'cond')]
    if len(cond) != 1:
        raise ModelError('s_to_c: cond assignment not found')
    ce = cond[0].value
    # recognise (sins[F] != 0) + 2*(sins[I] != 0)
    def term(e):
        if isinstance(e, ast.Compare) and isinstance(e.ops[0], ast.NotEq) and isinstance(e.left, ast.Subscript) and is_name(e.left.value, 'sins') \
                and isinstance(e.left.slice, ast.Constant) and cz(e.comparators[0]) == '0':
            return (1, e.left.slice.value)
        if isinstance(e, ast.BinOp) and isinstance(e.op, ast.Mult):
            for a, bb in ((e.left, e.right), (e.right, e.left)):
                if isinstance(a, ast.Constant) and isinstance(a.value, int):
                    r = term(bb)
                    if r:
                        return (a.value * r[0], r[1])
        return None
    weights = {}
    if isinstance(ce, ast.BinOp) and isinstance(ce.op, ast.Add):
        for part in (ce.left, ce.right):
            r = term(part)
            if r:
                weights[r[1]] = r[0]
    ok = weights == {2: 1, 0: 2}
    rep.ob(rid, f's_to_c: cond = final(s[2]) + 2*initial(s[0]); found weights {weights}', ok)
    if not ok:
        rep.violate(rid, mod, f, cond[0], 's_to_c: cond must be (s[2] != 0) + 2*(s[0] != 0): s[0] is the initial value, s[2] the final value', node=cond[0])
    stores = {}
    for s in b:
        if isinstance(s, ast.Assign) and isinstance(s.targets[0], ast.Subscript) and cz(s.targets[0].value) == 'self.c':
            idx = cz(s.targets[0].slice)
            off = {'self.pippi_c_locs': 0, 'self.pippi_c_locs+1': 1, 'self.pippi_c_locs+2': 2}.get(idx)
            if off is None:
                rep.violate(rid, mod, f, s, f's_to_c: unexpected store index {idx}', node=s)
                continue
            stores[off] = s.value
    if sorted(stores) != [0, 1, 2]:
        rep.violate(rid, mod, f, f'stores at offsets {sorted(stores)}', 's_to_c must write entries 0, 1 and 2 of every input waveform', node=f)
    else:
        for init in (0, 1):
            for fin in (0, 1):
                c = fin * weights.get(2, 0) + init * weights.get(0, 0)
                wf = []
                for off in (0, 1, 2):
                    v = stores[off]
                    if isinstance(v, ast.Call) and call_name(v) == 'np.choose' and is_name(v.args[0], 'cond') and isinstance(v.args[1], ast.List):
                        if not 0 <= c < len(v.args[1].elts):
                            wf.append(None)
                            continue
                        wf.append(sym_entry(v.args[1].elts[c], 'sins[1]'))
                    else:
                        wf.append(sym_entry(v, 'sins[1]'))
                tables[('cpu', init, fin)] = wf
    # ---- GPU
    g = mod.func('wave_assign_gpu')
    gb = body_no_doc(g)
    val = [s for s in gb if isinstance(s, ast.Assign) and is_name(s.targets[0], 'value')]
    tt = [s for s in gb if isinstance(s, ast.Assign) and is_name(s.targets[0], 'ttime')]
    ok = len(val) == 1 and cz(val[0].value) in ('int(s[2,y,x]>=0.5)|2*int(s[0,y,x]>=0.5)',) and len(tt) == 1 and cz(tt[0].value) == 's[1,y,x]'
    rep.ob(rid, 'wave_assign_gpu: value = final(s[2]) | 2*initial(s[0]); ttime = s[1]', ok)
    if not ok:
        rep.violate(rid, mod, g, val[0] if val else 'value', 'wave_assign_gpu: value must be int(s[2,y,x] >= 0.5) | 2*int(s[0,y,x] >= 0.5) and ttime = s[1,y,x]', node=g)
    # a small interpreter over the kernel body with `value` known: plain assignments, stores into c[c_loc + k, x] and
    # if-statements that test `value` (any other test, e.g. the thread guards, is taken as false)
    if not any(isinstance(s, ast.If) and any(is_name(n, 'value') for n in ast.walk(s.test)) for s in gb) and \
            not any(is_name(n, 'value') for s in gb if isinstance(s, ast.Assign) for n in ast.walk(s.value) if s not in val):
        raise ModelError('wave_assign_gpu: value dispatch not found')

    def gpu_eval(v):
        env = {'value': v, 'ttime': 't', 'TMAX': 'TMAX', 'TMIN': 'TMIN'}
        wf = [None, None, None]

        def ev(e):
            if isinstance(e, ast.Constant):
                return e.value
            if isinstance(e, ast.Name):
                return env.get(e.id)
            if isinstance(e, ast.IfExp):
                t = ev(e.test)
                return None if t is None else ev(e.body) if t else ev(e.orelse)
            if isinstance(e, ast.Compare) and len(e.ops) == 1:
                l, r = ev(e.left), ev(e.comparators[0])
                if isinstance(l, int) and isinstance(r, int):
                    op = e.ops[0]
                    return {ast.Eq: l == r, ast.NotEq: l != r, ast.Lt: l < r, ast.LtE: l <= r, ast.Gt: l > r, ast.GtE: l >= r}.get(type(op))
                if isinstance(e.ops[0], (ast.In, ast.NotIn)) and isinstance(l, int) and isinstance(e.comparators[0], (ast.Tuple, ast.List, ast.Set)):
                    vs = [ev(x) for x in e.comparators[0].elts]
                    if all(isinstance(x, int) for x in vs):
                        return (l in vs) == isinstance(e.ops[0], ast.In)
                return None
            if isinstance(e, ast.BoolOp):
                vs = [ev(x) for x in e.values]
                if None in vs:
                    return None
                return all(vs) if isinstance(e.op, ast.And) else any(vs)
            if isinstance(e, ast.UnaryOp) and isinstance(e.op, ast.Not):
                t = ev(e.operand)
                return None if t is None else not t
            if isinstance(e, ast.BinOp) and isinstance(e.op, (ast.BitAnd, ast.BitOr, ast.RShift, ast.BitXor, ast.FloorDiv, ast.Mod)):
                l, r = ev(e.left), ev(e.right)
                if isinstance(l, int) and isinstance(r, int):
                    return {ast.BitAnd: l & r, ast.BitOr: l | r, ast.RShift: l >> r, ast.BitXor: l ^ r,
                            ast.FloorDiv: l // r if r else None, ast.Mod: l % r if r else None}[type(e.op)]
                return None
            return sym_entry(e, 'ttime')

        def run(stmts):
            for st in stmts:
                if isinstance(st, ast.Assign) and len(st.targets) == 1 and isinstance(st.targets[0], ast.Name):
                    if st.targets[0].id not in ('value', 'ttime'):
                        env[st.targets[0].id] = ev(st.value)
                elif isinstance(st, ast.Assign) and len(st.targets) == 1 and isinstance(st.targets[0], ast.Subscript) and is_name(st.targets[0].value, 'c'):
                    off = {'(c_loc,x)': 0, '(c_loc+1,x)': 1, '(c_loc+2,x)': 2}.get(cz(st.targets[0].slice))
                    if off is not None:
                        wf[off] = ev(st.value)
                elif isinstance(st, ast.If):
                    if any(isinstance(n, ast.Name) and n.id not in ('TMAX', 'TMIN', 'ttime') and env.get(n.id) is not None for n in ast.walk(st.test)):
                        t = ev(st.test)
                        if t is None:
                            raise ModelError(f'wave_assign_gpu: test outside the modelled subset: {cz(st.test)}')
                        run(st.body if t else st.orelse)
                    # other tests are the thread-range guards (checked separately below)
        run(gb)
        return [x if x in ('TMAX', 'TMIN', 't') else None for x in wf]
    for init in (0, 1):
        for fin in (0, 1):
            tables[('gpu', init, fin)] = gpu_eval(fin + 2 * init)
    n = 0
    for (side, init, fin), wf in sorted(tables.items()):
        n += 1
        fn = f if side == 'cpu' else g
        ok = None not in wf
        if ok:
            first_tmax = wf.index('TMAX') if 'TMAX' in wf else None
            ok = first_tmax is not None and wf[2] == 'TMAX'
            if ok:
                head = wf[:first_tmax]
                ok = ((head[:1] == ['TMIN']) == (init == 1)) and 'TMIN' not in head[1:] and (head.count('t') % 2 == (init ^ fin)) and head.count('t') <= 1
        rep.ob(rid, f'{side}: initial={init} final={fin} -> {wf}', bool(ok), sample={'rule': rid, 'side': side, 'initial': init, 'final': fin, 'waveform': wf})
        if not ok:
            rep.violate(rid, mod, fn, f'{side} stimulus for initial={init}, final={fin}: {wf}',
                        f'{"s_to_c" if side == "cpu" else "wave_assign_gpu"}: waveform {wf} for initial={init}, final={fin} must start with TMIN iff initial is 1, '
                        f'contain {init ^ fin} transition time(s) and be terminated by TMAX within three entries', node=fn)
    rep.floor('stimulus cases', n, 8)
    # twins agree
    for init in (0, 1):
        for fin in (0, 1):
            a, bb = tables.get(('cpu', init, fin)), tables.get(('gpu', init, fin))
            if a is None or bb is None:
                continue
            def eff(w):
                return w[:w.index('TMAX') + 1] if 'TMAX' in w else w
            ok = eff(a) == eff(bb)
            rep.ob(rid, f'cpu = gpu for initial={init} final={fin}', ok)
            if not ok:
                rep.violate(rid, mod, g, f'initial={init}, final={fin}: cpu {a} gpu {bb}', 's_to_c and wave_assign_gpu write different stimulus waveforms', node=g)
    # GPU guards
    gt = [cz(s) for s in gb]
    for w in ('ify>=s.shape[1]:return', 'c_loc=c_locs[ppi_offset+y]', 'ifc_loc<0:return', 'ifx>=c.shape[-1]:return'):
        ok = w in gt
        rep.ob(rid, f'wave_assign_gpu: {w}', ok)
        if not ok:
            rep.violate(rid, mod, g, w, f'wave_assign_gpu: `{w}` required', node=g)
    return tables


# --------------------------------------------------------------------------- 7. capture reports the same

def capture_loops(repo):
    mod = repo.mod('wave_sim')
    out = []
    f = mod.func('wave_capture_cpu')
    loop = next((s for s in body_no_doc(f) if isinstance(s, ast.For)), None)
    out.append(('cpu', f, loop, loop.body if loop else []))
    g = mod.func('wave_capture_gpu')
    gl = next((s for s in body_no_doc(g) if isinstance(s, ast.For)), None)
    out.append(('gpu', g, gl, gl.body if gl else []))
    return mod, out


def capture_final(rep, repo):
    rep.rule('C03.capture', 'capture: final toggles once per entry before the first t >= TMAX; reported initial value is first entry <= TMIN; result positions 3 (initial) and 6 (final)')
    from checks import capture_eval
    if capture_eval.decide(rep, repo, 'C03.capture', (3, 6)):
        return          # decided by evaluating both c_to_s implementations on a family of waveforms
    mod, loops = capture_loops(repo)
    for side, f, loop, lb in loops:
        if loop is None:
            raise AnchorError(f'wave_capture_{side}: loop not found')
        fin = [s for s in ast.walk(loop) if isinstance(s, ast.AugAssign) and is_name(s.target, 'final')]
        ok = len(fin) == 1 and cz(fin[0]) == 'final^=1' and guard_texts(fin[0], lb) == [('t>=TMAX', False)]
        rep.ob('C03.capture', f'{side}: final ^= 1 for every entry before the terminator', ok, sample={'rule': 'C03.capture', 'side': side, 'guards': guard_texts(fin[0], lb) if fin else None})
        if not ok:
            rep.violate('C03.capture', mod, f, fin[0] if fin else 'final ^= 1', f'wave_capture_{side}: `final ^= 1` must execute exactly once for every entry with t < TMAX and for no other '
                        f'(guards found: {guard_texts(fin[0], lb) if fin else None})', node=fin[0] if fin else f)
        first = lb[0] if side == 'cpu' else lb[1]
        ok = isinstance(first, ast.If) and cz(first.test) == 't>=TMAX' and isinstance(first.body[-1], ast.Break)
        rep.ob('C03.capture', f'{side}: loop stops at the first t >= TMAX', ok)
        if not ok:
            rep.violate('C03.capture', mod, f, first, f'wave_capture_{side}: the entry loop must break at the first t >= TMAX before anything else is done with t', node=first)
        fi = [s for s in body_no_doc(f) if isinstance(s, ast.Assign) and cz(s) in ('final=int(0)', 'final=0')]
        ok = len(fi) == 1
        rep.ob('C03.capture', f'{side}: final starts at 0', ok)
        if not ok:
            rep.violate('C03.capture', mod, f, 'final = int(0)', f'wave_capture_{side}: final must start at 0', node=f)
    # result positions
    f = loops[0][1]
    ret = find_all(f, ast.Return)
    ok = len(ret) == 1 and isinstance(ret[0].value, ast.Tuple) and len(ret[0].value.elts) == 8 and cz(ret[0].value.elts[0]) == 'w[0]<=TMIN' and cz(ret[0].value.elts[3]) == 'final'
    rep.ob('C03.capture', 'cpu: result tuple positions 0 = (w[0] <= TMIN), 3 = final', ok)
    if not ok:
        rep.violate('C03.capture', mod, f, ret[0] if ret else 'return', 'wave_capture_cpu must return (w[0] <= TMIN, eat, lst, final, acc, val, 0, ovl): positions map to s[3..10]', node=f)
    wdef = [s for s in body_no_doc(f) if isinstance(s, ast.Assign) and is_name(s.targets[0], 'w')]
    ok = len(wdef) == 1 and cz(wdef[0].value) == 'c[c_loc:c_loc+c_len,vector]'
    rep.ob('C03.capture', 'cpu: w = c[c_loc:c_loc+c_len, vector]', ok)
    if not ok:
        rep.violate('C03.capture', mod, f, wdef[0] if wdef else 'w', 'wave_capture_cpu: w must be the waveform c[c_loc:c_loc+c_len, vector]', node=f)
    cs = mod.func('WaveSim.c_to_s')
    t = cz(cs)
    ok = 'self.s[3:,s_loc,vector]=wave_capture_cpu(self.c,c_loc,c_len,vector,time=time,sd=sd,seed=seed)' in t and \
        'for(s_loc,c_loc,c_len)inzip(self.poppo_s_locs,self.c_locs[self.ppo_offset+self.poppo_s_locs],self.c_caps[self.ppo_offset+self.poppo_s_locs])' in t.replace('fors_loc,c_loc,c_leninzip', 'for(s_loc,c_loc,c_len)inzip') \
        and 'forvectorinrange(self.sims)' in t
    rep.ob('C03.capture', 'cpu: c_to_s stores the 8-tuple into s[3:, s_loc, vector] for every output and lane', ok)
    if not ok:
        rep.violate('C03.capture', mod, cs, 'WaveSim.c_to_s', 'WaveSim.c_to_s must store wave_capture_cpu(self.c, c_loc, c_len, vector, ...) into self.s[3:, s_loc, vector] for every (poppo_s_loc, its c_loc, its capacity) and every lane', node=cs)
    g = loops[1][1]
    st = {}
    for s in body_no_doc(g):
        if isinstance(s, ast.Assign) and isinstance(s.targets[0], ast.Subscript) and is_name(s.targets[0].value, 's') and isinstance(s.targets[0].slice, ast.Tuple):
            e = s.targets[0].slice.elts
            if isinstance(e[0], ast.Constant) and cz(e[1]) == 'y' and cz(e[2]) == 'vector':
                st[e[0].value] = cz(s.value)
    ok = st.get(3) == 'c[line,vector]<=TMIN' and st.get(6) == 'final'
    rep.ob('C03.capture', 'gpu: s[3] = (c[line, vector] <= TMIN), s[6] = final', ok)
    if not ok:
        rep.violate('C03.capture', mod, g, f's[3]={st.get(3)}; s[6]={st.get(6)}', 'wave_capture_gpu must store the initial value (first entry <= TMIN) in s[3] and final in s[6]', node=g)


def depends(rep, repo):
    """Rules of the mechanisms this property's results rest on (schedule validity and memory map of SimOps): a change
    that breaks them breaks this property too, so they are part of this check (rule ids keep their C07./C08. prefix)."""
    from checks import c07, c08
    c07.schedule_rules(rep, repo)
    c08.map_rules(rep, repo)
    # the op list is built from Circuit.topological_order(): its traversal rules (C17) are part of this check
    from checks import c17
    c17.order_rules(rep, repo)
    # every signal must have an op that evaluates it from the right operands (interface BUF1/INV1 ops included)
    from checks import c01
    c01.wiring_rules(rep, repo)


def thorough(rep, repo):
    """Thorough tier: the quick rules plus checker self-validation on the C03 slice of the mutation corpus."""
    from kvstatic import thorough as thorough_mod
    thorough_mod.selftest_slice(rep, repo, 'C03')
