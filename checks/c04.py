"""C04 - transitions stay inside the static-timing window and move rigidly with inputs (type-level clauses)."""
from __future__ import annotations

import ast

from kvstatic.core import Repo, Report, ModelError, AnchorError, norm
from kvstatic.wavekernel import Kernel
from kvstatic.paths import cz, guard_texts
from kvstatic.astutil import find_all, attr_chain, is_name, call_name, body_no_doc, target_names, walk_no_nested_funcs
from checks import c03

SENTINELS = ('TMIN', 'TMAX', 'TMAX_OVL')


def run(rep: Report, repo: Repo):
    rep.explanation = (
        'Two type-level facts about _wave_eval decided on all paths at once: (1) provenance - every value stored into an output '
        'waveform is TMIN (position 0 only), current_t = min(a,b,c,d), or the terminator; each of a..d is always an entry of the same '
        'operand\'s waveform plus one delay entry of that operand\'s line, indexed [line, input polarity = cursor parity, output polarity = z_val]; '
        '(2) dimension typing over the lattice {Time, Duration, Int, Literal}: Time+Duration->Time, Time-Time->Duration, comparisons only '
        'between equal dimensions, stores to waveforms are Times, no numeric literal is added to or compared with a Time or a non-zero '
        'Duration. A body that type-checks commutes with t -> t+delta on Times and with x -> 2^k x on Times and Durations.')
    rep.trusted = ['delays >= 0 and induction over ops give the static-timing window from the provenance rule',
                   'exact commutation holds on a dyadic grid without float over/underflow (assumption of the property)']
    rep.assumptions = ['NOT DECIDED: strict monotonicity of timestamps under polarity-independent delays (depends on pulse-filter arithmetic on concrete floats); tightness of the window']
    from checks import kernel_eval
    ke = kernel_eval.decide(rep, repo, 'C04', ('cause', 'shift', 'monotone'))

    def structural():
        K = Kernel(repo)
        provenance(rep, K)
        typing(rep, K)
    kernel_eval.with_fallback(rep, ke, 'C04', structural)
    capture_times(rep, repo)


def delayed_operand(e, l):
    """e is cbuf[l_mem + l_cur, sim] + delays[l_idx, P, Q]; returns (P, Q) texts or None."""
    if isinstance(e, ast.BinOp) and isinstance(e.op, ast.Add):
        for a, b in ((e.left, e.right), (e.right, e.left)):
            if cz(a) == f'cbuf[{l}_mem+{l}_cur,sim]' and isinstance(b, ast.Subscript) and is_name(b.value, 'delays') \
                    and isinstance(b.slice, ast.Tuple) and len(b.slice.elts) == 3 and cz(b.slice.elts[0]) == f'{l}_idx':
                return cz(b.slice.elts[1]), cz(b.slice.elts[2])
    return None


def provenance(rep, K):
    rep.rule('C04.provenance', 'each of a..d is always <own waveform entry> + delays[<own line>, <cursor parity>, z_val]; current_t = min(a,b,c,d); '
                               'stores into the output waveform are TMIN (position 0), current_t or the terminator')
    mod, f = K.mod, K.f
    n = 0
    for st in walk_no_nested_funcs(f):
        if isinstance(st, ast.Assign) and isinstance(st.targets[0], ast.Name):
            nm = st.targets[0].id
            if nm in K.letters:
                n += 1
                r = delayed_operand(st.value, nm)
                in_pro = any(st is s for s in K.prologue)
                ok = r is not None and r[1] == 'z_val' and (r[0] == f'{nm}_cur&1' or (in_pro and r[0] == '0'))
                rep.ob('C04.provenance', f'{cz(st)}', ok, sample={'rule': 'C04.provenance', 'stmt': norm(st)} if n <= 3 else None)
                if not ok:
                    rep.violate('C04.provenance', mod, f, st, f'`{norm(st)}`: operand {nm} must be cbuf[{nm}_mem + {nm}_cur, sim] + delays[{nm}_idx, {nm}_cur & 1, z_val] '
                                f'(its own waveform entry plus the delay of its own line for the pending input polarity and the current output polarity)', node=st)
            elif nm == 'thresh':
                n += 1
                l = K.arm_letter([s for s in getattr(st, '_parent').body]) if hasattr(st, '_parent') else None
                blk = next(b for t, b in K.arms if any(s is st for s in b))
                l = K.arm_letter(blk)
                ok = cz(st.value) == f'delays[{l}_idx,{l}_cur&1,z_val]'
                rep.ob('C04.provenance', cz(st), ok)
                if not ok:
                    rep.violate('C04.provenance', mod, f, st, f'pulse threshold in arm {l} must be delays[{l}_idx, {l}_cur & 1, z_val] - the delay of the next edge on the same input and output polarity', node=st)
            elif nm == 'next_t':
                n += 1
                blk = next(b for t, b in K.arms if any(s is st for s in b))
                l = K.arm_letter(blk)
                r = delayed_operand(st.value, l)
                ok = r is not None and r[0] in (f'{l}_cur&1^1', f'({l}_cur&1)^1', f'1^{l}_cur&1') and r[1] in ('z_val^1', '1^z_val')
                rep.ob('C04.provenance', cz(st), ok)
                if not ok:
                    rep.violate('C04.provenance', mod, f, st, f'next_t in arm {l} must be cbuf[{l}_mem + {l}_cur, sim] + delays[{l}_idx, ({l}_cur & 1) ^ 1, z_val ^ 1] '
                                f'(the same input\'s next edge as it would be delayed after the output toggles)', node=st)
            elif nm == 'current_t':
                n += 1
                ok = cz(st.value) in ('min(a,b,c,d)',) or sorted(cz(a) for a in st.value.args) == sorted(K.letters) and call_name(st.value) == 'min' if isinstance(st.value, ast.Call) else False
                rep.ob('C04.provenance', cz(st), ok)
                if not ok:
                    rep.violate('C04.provenance', mod, f, st, 'current_t must be min(a, b, c, d) over all four delayed operand times', node=st)
            elif nm == 'previous_t':
                n += 1
                ok = cz(st.value) in ('TMIN', 'current_t', 'cbuf[z_mem+z_cur-1,sim]', 'cbuf[z_mem+z_cur-1,sim]ifz_cur>0elseTMIN')
                if not ok:
                    # the same entry addressed after z_cur was already moved in this block: offset + moves so far == -1
                    import re as _re
                    m = _re.fullmatch(r'cbuf\[z_mem\+z_cur([+-]\d+)?,sim\]', cz(st.value))
                    blk = getattr(st, '_parent', None)
                    body = getattr(blk, 'body', []) if blk is not None else []
                    sibs = body if st in body else (getattr(blk, 'orelse', []) if blk is not None else [])
                    if m and st in sibs:
                        delta = 0
                        for prev in sibs[:sibs.index(st)]:
                            t = cz(prev)
                            mm = _re.fullmatch(r'z_cur([+-])=(\d+)', t)
                            if mm:
                                delta += int(mm.group(2)) * (1 if mm.group(1) == '+' else -1)
                            elif 'z_cur' in {n.id for n in ast.walk(prev) if isinstance(n, ast.Name) and isinstance(n.ctx, ast.Store)}:
                                delta = None
                                break
                        ok = delta is not None and int(m.group(1) or 0) + delta == -1
                rep.ob('C04.provenance', cz(st), ok)
                if not ok:
                    rep.violate('C04.provenance', mod, f, st, 'previous_t must be TMIN, the edge just stored (current_t) or the last stored entry cbuf[z_mem + z_cur - 1, sim]', node=st)
            elif nm == 'z_val':
                ok = cz(st.value) in ('z_cur', 'z_val^1', '1^z_val', 'lut&1')
                rep.ob('C04.provenance', cz(st), ok)
                if not ok:
                    rep.violate('C04.provenance', mod, f, st, 'z_val (output polarity index into delays) must start as the initial output value and flip with every generated edge', node=st)
        tg = st.targets[0] if isinstance(st, ast.Assign) else (st.target if isinstance(st, ast.AugAssign) else None)
        if isinstance(tg, ast.Subscript) and cz(tg.value) == 'cbuf':
            n += 1
            idx, val = cz(tg.slice.elts[0]) if isinstance(tg.slice, ast.Tuple) else cz(tg.slice), cz(st.value)
            if isinstance(st, ast.AugAssign):
                ok = False
            elif idx == 'z_mem':
                ok = val == 'TMIN' and any(st is s or any(x is st for x in ast.walk(s)) for s in K.prologue)
            elif idx == 'z_mem+z_cur':
                in_epi = any(st is s2 or any(x is st for x in ast.walk(s2)) for s2 in K.epilogue)
                # inside the loop: the edge time; after the loop: any value that is >= TMAX at loop exit (exact terminator rule: C13.overflow)
                term = ('TMAX', 'TMAX_OVL', 'current_t', 'max(a,b,c,d)', 'min(a,b,c,d)')
                ok = val == 'current_t' if not in_epi else (val in term or (isinstance(st.value, ast.IfExp) and cz(st.value.body) in term and cz(st.value.orelse) in term))
            else:
                ok = False
            rep.ob('C04.provenance', f'store {cz(st)}', ok)
            if not ok:
                rep.violate('C04.provenance', mod, f, st, f'`{norm(st)}`: an output waveform may only receive TMIN at position 0, current_t at position z_cur, or the terminator '
                            f'(TMAX_OVL / max of the operand terminators)', node=st)
    rep.floor('provenance sites', n, 24)
    # the pulse filter compares with the time of the last *stored* edge: wherever an edge is stored, previous_t becomes that edge
    for st in walk_no_nested_funcs(f):
        if isinstance(st, ast.Assign) and cz(st.targets[0]) == 'cbuf[z_mem+z_cur,sim]' and cz(st.value) == 'current_t':
            blk = getattr(st, '_parent', None)
            sibs = blk.body if blk is not None and st in getattr(blk, 'body', []) else getattr(blk, 'orelse', [])
            okp = any(isinstance(x, ast.Assign) and cz(x) == 'previous_t=current_t' for x in sibs)
            rep.ob('C04.provenance', 'previous_t = current_t where the edge is stored', okp)
            if not okp:
                rep.violate('C04.provenance', mod, f, st, 'where an edge is stored (`cbuf[z_mem + z_cur, sim] = current_t`) previous_t must become current_t: '
                            'the pulse-width test of the next edge would otherwise compare with an older edge and keep a pulse shorter than the threshold (or drop a wider one)', node=st)
    # (that `delays` is re-bound to exactly one dataset on every selection path is decided by evaluation: C06.dataset, part of depends())


class TypeErr(Exception):
    def __init__(self, msg, node):
        super().__init__(msg)
        self.node = node


def typing(rep, K):
    rep.rule('C04.dim', 'dimension typing of _wave_eval: Time + Duration -> Time, Time - Time -> Duration; comparisons within one dimension; '
                        'waveform stores are Times; no numeric literal meets a Time (or a Duration, except comparison with 0)')
    mod, f = K.mod, K.f
    env = {'TMIN': 'T', 'TMAX': 'T', 'TMAX_OVL': 'T'}
    arrays = {'cbuf': 'T', 'delays': 'D', 'c_locs': 'I', 'c_caps': 'I', 'op': 'I', 'simctl_int': 'I'}
    errors = []

    def ty(e):
        if isinstance(e, ast.Constant):
            return 'L' if isinstance(e.value, (int, float)) and not isinstance(e.value, bool) else 'I'
        if isinstance(e, ast.Name):
            if e.id in env:
                return env[e.id]
            if e.id in arrays:
                return 'A:' + arrays[e.id]
            return 'I'
        if isinstance(e, ast.Subscript):
            b = ty(e.value)
            # index expressions must be integers
            for ix in (e.slice.elts if isinstance(e.slice, ast.Tuple) else [e.slice]):
                if not isinstance(ix, ast.Slice):
                    t = ty(ix)
                    if t in ('T', 'D'):
                        raise TypeErr(f'a {dim(t)} is used as an index in {norm(e)}', e)
            if b.startswith('A:'):
                if b == 'A:D' and not (isinstance(e.slice, ast.Tuple) and len(e.slice.elts) == 3):
                    return 'A:D'
                return b[2:]
            return 'I'
        if isinstance(e, ast.BinOp):
            a, b = ty(e.left), ty(e.right)
            if a in ('T', 'D') or b in ('T', 'D'):
                if 'L' in (a, b) or 'I' in (a, b):
                    raise TypeErr(f'`{norm(e)}` combines a {dim(a if a in "TD" else b)} with a dimensionless number', e)
                if isinstance(e.op, ast.Add):
                    if {a, b} == {'T', 'D'}:
                        return 'T'
                    if a == b == 'D':
                        return 'D'
                    raise TypeErr(f'`{norm(e)}` adds {dim(a)} and {dim(b)}', e)
                if isinstance(e.op, ast.Sub):
                    if a == b == 'T':
                        return 'D'
                    if a == 'T' and b == 'D':
                        return 'T'
                    if a == b == 'D':
                        return 'D'
                    raise TypeErr(f'`{norm(e)}` subtracts {dim(b)} from {dim(a)}', e)
                raise TypeErr(f'`{norm(e)}` applies {type(e.op).__name__} to a {dim(a if a in "TD" else b)}', e)
            return 'I'
        if isinstance(e, ast.UnaryOp):
            t = ty(e.operand)
            if t in ('T', 'D') and not isinstance(e.op, ast.UAdd):
                raise TypeErr(f'`{norm(e)}` negates/inverts a {dim(t)}', e)
            return t if t in ('T', 'D') else 'I'
        if isinstance(e, ast.Call):
            nm = call_name(e)
            if nm in ('min', 'max'):
                ts = [ty(a) for a in e.args]
                if any(t in ('T', 'D') for t in ts):
                    if len(set(ts)) != 1:
                        raise TypeErr(f'`{norm(e)}` mixes {sorted(set(dim(t) for t in ts))}', e)
                    return ts[0]
                return 'I'
            if nm == 'int' or nm == 'len' or nm == 'range':
                for a in e.args:
                    t = ty(a)
                    if t in ('T', 'D') and nm != 'len':
                        raise TypeErr(f'`{norm(e)}` converts a {dim(t)} to an integer', e)
                return 'I'
            raise TypeErr(f'call {nm} is outside the typed subset', e)
        if isinstance(e, ast.IfExp):
            ty_test(e.test)
            a, b = ty(e.body), ty(e.orelse)
            if a == b:
                return a
            if {a, b} <= {'I', 'L'}:
                return 'I'
            raise TypeErr(f'`{norm(e)}` yields {dim(a)} or {dim(b)}', e)
        if isinstance(e, ast.Compare):
            ty_test(e)
            return 'I'
        if isinstance(e, ast.BoolOp):
            ty_test(e)
            return 'I'
        if isinstance(e, ast.Tuple):
            for x in e.elts:
                ty(x)
            return 'I'
        raise TypeErr(f'expression {type(e).__name__} outside the typed subset: {norm(e)[:60]}', e)

    def dim(t):
        return {'T': 'Time', 'D': 'Duration', 'I': 'integer', 'L': 'numeric literal'}.get(t, t)

    def ty_test(t):
        if isinstance(t, ast.BoolOp):
            for v in t.values:
                ty_test(v)
            return
        if isinstance(t, ast.UnaryOp) and isinstance(t.op, ast.Not):
            ty_test(t.operand)
            return
        if isinstance(t, ast.Compare):
            items = [t.left] + list(t.comparators)
            ts = [ty(x) for x in items]
            for (x, a), (y, b) in zip(zip(items, ts), zip(items[1:], ts[1:])):
                if a in ('T', 'D') or b in ('T', 'D'):
                    if a == b:
                        continue
                    lit = y if b == 'L' else (x if a == 'L' else None)
                    if lit is not None and 'D' in (a, b) and isinstance(lit, ast.Constant) and lit.value == 0:
                        continue
                    raise TypeErr(f'`{norm(t)}` compares {dim(a)} with {dim(b)}', t)
            return
        ty(t)

    # fixpoint over assignments
    assigns = [s for s in walk_no_nested_funcs(f) if isinstance(s, (ast.Assign, ast.AugAssign))]
    for _ in range(6):
        changed = False
        for s in assigns:
            try:
                if isinstance(s, ast.Assign) and isinstance(s.targets[0], ast.Name):
                    t = ty(s.value)
                    if t.startswith('A:'):
                        arrays[s.targets[0].id] = t[2:]
                        continue
                    if t == 'L':
                        t = 'I'
                    old = env.get(s.targets[0].id)
                    if old is None or (old == 'I' and t in ('T', 'D')):
                        if old != t:
                            env[s.targets[0].id] = t
                            changed = True
            except TypeErr:
                pass
        if not changed:
            break
    nchk = 0
    seen = set()
    def report(e, st):
        k = (str(e), cz(e.node))
        if k in seen:
            return
        seen.add(k)
        rep.ob('C04.dim', cz(st)[:100], False)
        rep.violate('C04.dim', mod, f, e.node, f'{e} - breaks shift/scale equivariance (times must only be compared with times and shifted by durations)', node=e.node)
    for s in walk_no_nested_funcs(f):
        try:
            if isinstance(s, ast.Assign):
                nchk += 1
                t = ty(s.value)
                tg = s.targets[0]
                if isinstance(tg, ast.Name):
                    d = env.get(tg.id, 'I')
                    tt = 'I' if t == 'L' else t
                    if not tt.startswith('A:') and d != tt and not (d in ('T', 'D') and False):
                        raise TypeErr(f'`{norm(s)}`: {tg.id} holds a {dim(d)} elsewhere but is assigned a {dim(tt)} here', s)
                elif isinstance(tg, ast.Subscript):
                    bt = ty(tg)
                    if bt == 'T' and t != 'T':
                        raise TypeErr(f'`{norm(s)}` stores a {dim(t)} into a waveform', s)
                rep.ob('C04.dim', cz(s)[:100], True)
            elif isinstance(s, ast.AugAssign):
                nchk += 1
                a = ty(s.target)
                b = ty(s.value)
                if a in ('T', 'D') or b in ('T', 'D'):
                    raise TypeErr(f'`{norm(s)}` updates a {dim(a)} in place with a {dim(b)}', s)
                rep.ob('C04.dim', cz(s)[:100], True)
            elif isinstance(s, (ast.If, ast.While)):
                nchk += 1
                ty_test(s.test)
                rep.ob('C04.dim', 'test ' + cz(s.test)[:100], True, sample={'rule': 'C04.dim', 'test': norm(s.test)[:120]} if nchk % 9 == 0 else None)
            elif isinstance(s, ast.Return) and s.value is not None:
                ty(s.value)
        except TypeErr as e:
            report(e, s)
    rep.floor('typed statements', nchk, 70)
    want = {'a': 'T', 'b': 'T', 'c': 'T', 'd': 'T', 'current_t': 'T', 'previous_t': 'T', 'next_t': 'T', 'thresh': 'D'}
    for k, v in want.items():
        ok = env.get(k) == v
        rep.ob('C04.dim', f'{k} : {dim(env.get(k, "?"))}', ok)
        if not ok and not rep.violations:
            rep.violate('C04.dim', mod, f, k, f'{k} is inferred as {dim(env.get(k, "?"))}, expected {dim(v)}', node=f)
    rep.extra['types'] = {k: dim(v) for k, v in sorted(env.items())}


def capture_times(rep, repo):
    rep.rule('C04.capture', 'capture: earliest arrival = min and latest stabilisation = max over entries with TMIN < t < TMAX only')
    from checks import capture_eval
    if capture_eval.decide(rep, repo, 'C04.capture', (4, 5)):
        return          # decided by evaluating both c_to_s implementations on a family of waveforms
    mod, loops = c03.capture_loops(repo)
    for side, f, loop, lb in loops:
        for var, fn in (('eat', 'min'), ('lst', 'max')):
            sts = [s for s in ast.walk(loop) if isinstance(s, ast.Assign) and is_name(s.targets[0], var)]
            ok = len(sts) == 1 and cz(sts[0].value) in (f'{fn}({var},t)', f'{fn}(t,{var})') and guard_texts(sts[0], lb) == [('t>=TMAX', False), ('t<=TMIN', False)]
            rep.ob('C04.capture', f'{side}: {var}', ok, sample={'rule': 'C04.capture', 'side': side, 'stmt': norm(sts[0]) if sts else None, 'guards': guard_texts(sts[0], lb) if sts else None})
            if not ok:
                rep.violate('C04.capture', mod, f, sts[0] if sts else var, f'wave_capture_{side}: {var} must be {fn}({var}, t) over exactly the entries with TMIN < t < TMAX '
                            f'(guards found: {guard_texts(sts[0], lb) if sts else None})', node=sts[0] if sts else f)
        init = {cz(s) for s in body_no_doc(f)}
        ok = 'eat=TMAX' in init and 'lst=TMIN' in init
        rep.ob('C04.capture', f'{side}: eat starts at TMAX, lst at TMIN', ok)
        if not ok:
            rep.violate('C04.capture', mod, f, 'eat = TMAX; lst = TMIN', f'wave_capture_{side}: eat must start at TMAX and lst at TMIN (neutral elements of min/max)', node=f)


def depends(rep, repo):
    """Every transition time on every signal is read from the signal memory the schedule (C07) and the memory map (C08)
    provide and is computed with the delay slice the dataset selection (C06.dataset) picks: a change that breaks those
    mechanisms puts another signal's transitions, or another dataset's delays, into a waveform. Rule ids keep their prefix."""
    from checks import c03, c06, c07, c08
    # every edge time is produced by the merge loop of _wave_eval: its kernel rules (initial value, toggle parity, waveform bounds,
    # agreement of the four operand arms) are part of this check (rule ids keep their C03. prefix)
    c03.kernel_rules(rep, repo)
    c03.stimulus_table(rep, repo, rid='C03.stimulus')     # the input transition times reach the kernel unchanged (s[1] -> waveform entry)
    c07.schedule_rules(rep, repo)
    c08.map_rules(rep, repo)
    c06.dataset_selection(rep, repo, repo.mod('wave_sim'))
    c06.kernel_twins(rep, repo, repo.mod('wave_sim'))


def thorough(rep, repo):
    """Thorough tier: the quick rules plus checker self-validation on the C04 slice of the mutation corpus."""
    from kvstatic import thorough as thorough_mod
    thorough_mod.selftest_slice(rep, repo, 'C04')
