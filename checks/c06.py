"""C06 - results do not depend on performance options, lane position or code path (twins, lane flow, selection)."""
from __future__ import annotations

import ast

from kvstatic.core import Repo, Report, ModelError, AnchorError, norm
from kvstatic import simops
from kvstatic.wavekernel import Kernel
from kvstatic.paths import cz, guard_texts
from kvstatic.astutil import (find_all, attr_chain, is_name, call_name, body_no_doc, target_names, walk_no_nested_funcs, parents,
                              enclosing, renamed, flatten_if_chain)
from checks import c03


def run(rep: Report, repo: Repo):
    rep.explanation = (
        'Engine S compares the CPU/GPU twin code regions under explicit renamings with an explicit table of tolerated differences; a lane-index '
        'flow rule shows that in every kernel the lane variable only ever appears as the last subscript of the signal/state/accumulator arrays, '
        'in simctl_int[:, lane] and in seed mixing - so lane permutation and restriction to the first k lanes cannot change a lane\'s result; the '
        'delay-dataset selection rebinds `delays` to one 3-d slice before any use; c_reuse/strip_forks are read only in the sites analysed by C07/C08; '
        'every cuda.* / numba.* attribute the package uses exists on the pure-Python mock objects.')
    rep.trusted = ['C07/C08 for the effect of c_reuse and strip_forks on the memory map; C03.stimulus for the 8 stimulus cases']
    rep.assumptions = ['NOT DECIDED: bit-identity of concrete float results; the sampling seed term differs between CPU and GPU capture (only reachable for sd > 0, which the property\'s observed outputs exclude)',
                       'CPU assignment tests s != 0, GPU tests s >= 0.5: identical on the 0/1 stimulus the property quantifies over']
    mod = repo.mod('wave_sim')
    kernel_twins(rep, repo, mod)
    capture_twins(rep, repo, mod)
    capture_dtype_flow(rep, repo, mod)
    c03.stimulus_table(rep, repo, rid='C06.stimulus')
    state_transfer(rep, repo, mod)
    lane_flow(rep, repo, mod)
    dataset_selection(rep, repo, mod)
    thread_guards(rep, repo, mod)
    options(rep, repo)
    mock_api(rep, repo)


def kernel_twins(rep, repo, mod):
    rep.rule('C06.kernel', 'CPU and GPU evaluation run the single def _wave_eval with the same argument positions; both c_prop pass the same level arguments and restrict lanes identically')
    a = [st for st in mod.tree.body if isinstance(st, ast.Assign) and is_name(st.targets[0], 'wave_eval_cpu')]
    b = [st for st in mod.tree.body if isinstance(st, ast.Assign) and is_name(st.targets[0], '_wave_eval_gpu')]
    ok = len(a) == 1 and cz(a[0].value) == 'numba.njit(_wave_eval)' and len(b) == 1 and cz(b[0].value) == 'cuda.jit(_wave_eval,device=True)'
    rep.ob('C06.kernel', 'wave_eval_cpu and _wave_eval_gpu are both compiled from _wave_eval', ok)
    if not ok:
        rep.violate('C06.kernel', mod, '<module>', (a or b or [mod.tree])[0], 'wave_eval_cpu = numba.njit(_wave_eval) and _wave_eval_gpu = cuda.jit(_wave_eval, device=True): one source for both code paths', node=(a or b or [None])[0])
    cpu, gpu = mod.func('level_eval_cpu'), mod.func('wave_eval_gpu')
    pc, pg = [x.arg for x in cpu.args.args], [x.arg for x in gpu.args.args]
    ok = [p.replace('cbuf', 'c') for p in pg] == pc
    rep.ob('C06.kernel', f'level functions share the parameter list {pc}', ok)
    if not ok:
        rep.violate('C06.kernel', mod, gpu, f'{pg} vs {pc}', 'level_eval_cpu and wave_eval_gpu must take the same parameters in the same order', node=gpu)
    kc = [c for c in find_all(cpu, ast.Call) if call_name(c) == 'wave_eval_cpu']
    kg = [c for c in find_all(gpu, ast.Call) if call_name(c) == '_wave_eval_gpu']
    ok = len(kc) == 1 and len(kg) == 1 and [cz(x) for x in kc[0].args] == [cz(x).replace('cbuf', 'c') for x in kg[0].args]
    rep.ob('C06.kernel', 'kernel call arguments agree', ok, sample={'rule': 'C06.kernel', 'cpu': norm(kc[0]) if kc else None, 'gpu': norm(kg[0]) if kg else None})
    if not ok:
        rep.violate('C06.kernel', mod, gpu, kg[0] if kg else '_wave_eval_gpu(...)', 'the GPU kernel call must pass the same arguments as the CPU call (op, cbuf, c_locs, c_caps, sim, delays, simctl_int[:, sim], seed)', node=gpu)
    # absolute part: each kernel call evaluates lane L with lane L's control column (not only "the twins agree")
    from kvstatic.canon import clone, _copyprop
    for nm, fn, calls in (('level_eval_cpu', cpu, kc), ('wave_eval_gpu', gpu, kg)):
        if len(calls) != 1:
            continue
        fcopy = clone(fn)
        _copyprop(fcopy)    # a hoisted `ctl = simctl_int[:, x]` is seen through
        cc = [c for c in find_all(fcopy, ast.Call) if call_name(c) == call_name(calls[0])]
        args = cc[0].args if len(cc) == 1 else calls[0].args
        lane = cz(args[4]) if len(args) > 6 else None
        ok = lane is not None and len(args) == 8 and cz(args[6]) == f'simctl_int[:,{lane}]' and cz(args[5]) == 'delays' and cz(args[7]) == 'seed'
        rep.ob('C06.kernel', f'{nm}: lane {lane} is evaluated with simctl_int[:, {lane}]', ok)
        if not ok:
            rep.violate('C06.kernel', mod, fn, calls[0], f'{nm}: the evaluation of lane `{lane}` must receive that lane\'s control column simctl_int[:, {lane}] '
                        f'(found {cz(args[6]) if len(args) > 6 else None}) and `delays`, `seed` as the 6th and 8th argument ({len(args)} arguments found): otherwise every lane uses one lane\'s '
                        f'delay dataset selection, or the globally selected dataset (seed) never reaches the kernel', node=calls[0])
    w, g = mod.func('WaveSim.c_prop'), mod.func('WaveSimCuda.c_prop')
    for f in (w, g):
        s0 = [cz(s) for s in body_no_doc(f)]
        ok = 'sims=min(simsorself.sims,self.sims)' in s0
        rep.ob('C06.kernel', f'{f._qualname}: sims = min(sims or self.sims, self.sims)', ok)
        if not ok:
            rep.violate('C06.kernel', mod, f, 'sims = min(sims or self.sims, self.sims)', f'{f._qualname}: the number of propagated lanes must be min(sims or self.sims, self.sims)', node=f)
    for f in (w, g):   # what reaches the kernels is what the caller passed: no parameter is re-bound on the way (only the lane clamp)
        params = {a.arg for a in f.args.args} - {'self'}
        for st in find_all(f, (ast.Assign, ast.AugAssign, ast.AnnAssign, ast.NamedExpr)):
            tg = st.targets if isinstance(st, ast.Assign) else [st.target]
            for t in tg:
                for n in ast.walk(t):
                    if isinstance(n, ast.Name) and isinstance(n.ctx, ast.Store) and n.id in params:
                        ok = cz(st) == 'sims=min(simsorself.sims,self.sims)'
                        rep.ob('C06.kernel', f'{f._qualname}: parameter {n.id} re-bound by {cz(st)[:60]}', ok)
                        if not ok:
                            rep.violate('C06.kernel', mod, f, st, f'{f._qualname}: parameter `{n.id}` is re-bound before it reaches the kernel ({norm(st)[:80]}): '
                                        f'a caller-selected value (e.g. dataset index seed=0) is replaced', node=st)
    cw = [c for c in find_all(w, ast.Call) if call_name(c) == 'level_eval_cpu']
    cg = [c for c in find_all(g, ast.Call) if isinstance(c.func, ast.Subscript) and cz(c.func.value) == 'wave_eval_gpu']
    want = ['self.ops', 'op_start', 'op_stop', 'self.c', 'self.c_locs', 'self.c_caps', 'self.abuf', '0', 'sims', 'self.delays', 'self.simctl_int', 'seed']
    for nm, calls, f in (('WaveSim.c_prop', cw, w), ('WaveSimCuda.c_prop', cg, g)):
        got = [cz(x).replace('int(0)', '0') for x in calls[0].args] if calls else None
        ok = got == want
        rep.ob('C06.kernel', f'{nm}: level call arguments', ok)
        if not ok:
            rep.violate('C06.kernel', mod, f, calls[0] if calls else nm, f'{nm}: level kernel must be called with {want}; found {got}', node=f)
    if cg:
        sl = cg[0].func.slice
        ok = cz(sl) == '(grid_dim,self._block_dim)'
        rep.ob('C06.kernel', 'GPU launch configuration [grid_dim, block_dim]', ok)
        if not ok:
            rep.violate('C06.kernel', mod, g, cg[0].func, 'GPU kernel must be launched with [grid_dim, self._block_dim]', node=g)
    # to_device mirrors every array the kernels use
    from checks import wavesim_init_eval
    if wavesim_init_eval.decide(rep, repo, 'C06.kernel', ('cuda',)):
        return          # the constructor evaluated: arguments forwarded, the eight arrays mirrored from their own host arrays
    ci = mod.func('WaveSimCuda.__init__')
    dev = sorted(cz(s.targets[0])[5:] for s in body_no_doc(ci) if isinstance(s, ast.Assign) and cz(s.value).startswith('cuda.to_device(self.') and cz(s.value) == f'cuda.to_device({cz(s.targets[0])})')
    ok = dev == sorted(['c', 's', 'ops', 'c_locs', 'c_caps', 'delays', 'simctl_int', 'abuf'])
    rep.ob('C06.kernel', f'WaveSimCuda mirrors {dev}', ok)
    if not ok:
        rep.violate('C06.kernel', mod, ci, f'to_device of {dev}', 'WaveSimCuda.__init__ must mirror c, s, ops, c_locs, c_caps, delays, simctl_int, abuf to the device (each from its own host array)', node=ci)
    sup = [c for c in find_all(ci, ast.Call) if cz(c.func) == 'super().__init__']
    ok = len(sup) == 1 and [cz(x) for x in sup[0].args] == ['circuit', 'delays', 'sims', 'c_caps'] and {k.arg: cz(k.value) for k in sup[0].keywords} == {'a_ctrl': 'a_ctrl', 'c_reuse': 'c_reuse', 'strip_forks': 'strip_forks'}
    rep.ob('C06.kernel', 'WaveSimCuda forwards all constructor arguments to WaveSim', ok)
    if not ok:
        rep.violate('C06.kernel', mod, ci, sup[0] if sup else 'super().__init__', 'WaveSimCuda.__init__ must forward (circuit, delays, sims, c_caps, a_ctrl=, c_reuse=, strip_forks=) unchanged', node=ci)


def capture_twins(rep, repo, mod):
    rep.rule('C06.capture', 'wave_capture_gpu equals wave_capture_cpu under w[k] <-> c[line+k, vector]; tolerated: the sampling seed term')
    from checks import capture_eval
    if capture_eval.decide(rep, repo, 'C06.capture', (3, 4, 5, 6, 7, 10), agree=True):
        return          # decided by evaluating both c_to_s implementations on a family of waveforms and comparing their results
    _, loops = c03.capture_loops(repo)
    (_, f, lc, bc), (_, g, lg, bg) = loops
    a = [cz(s) for s in bc]
    b = [cz(s) for s in bg[1:]]
    ok = a == b
    rep.ob('C06.capture', 'entry loop bodies', ok, sample={'rule': 'C06.capture', 'statements': len(a)})
    if not ok:
        d = next((i for i, (x, y) in enumerate(zip(a, b)) if x != y), min(len(a), len(b)))
        rep.violate('C06.capture', mod, g, bg[1 + d] if 1 + d < len(bg) else 'loop body', 'the entry loops of wave_capture_cpu and wave_capture_gpu differ',
                    witness={'cpu': a[d] if d < len(a) else None, 'gpu': b[d] if d < len(b) else None}, node=bg[1 + d] if 1 + d < len(bg) else g)
    # both loops scan the whole waveform: cpu `for t in w` with w = c[c_loc:c_loc+c_len, vector]; gpu tidx in range(capacity)
    gi = {cz(s) for s in body_no_doc(g)}
    ci = {cz(s) for s in body_no_doc(f)}
    ok = cz(lc.iter) == 'w' and 'w=c[c_loc:c_loc+c_len,vector]' in ci and cz(lg.iter) == 'range(tdim)' and 'tdim=c_caps[ppo_offset+y]' in gi \
        and cz(bg[0]) == f't=c[line+{lg.target.id},vector]' and 'line=c_locs[ppo_offset+y]' in gi
    rep.ob('C06.capture', 'both kernels scan all `capacity` entries of the output waveform', ok)
    if not ok:
        rep.violate('C06.capture', mod, g, lg.iter, 'the capture kernels must scan the same range: cpu `for t in c[c_loc:c_loc+c_len, vector]`, gpu `for tidx in range(c_caps[ppo_offset + y]): t = c[line + tidx, vector]`', node=lg)
    pc = [s for s in body_no_doc(f) if isinstance(s, ast.If) and cz(s.test) == 's_sqrt2>0' and s.orelse]
    pg = [s for s in body_no_doc(g) if isinstance(s, ast.If) and cz(s.test) == 's_sqrt2>0' and s.orelse]
    tol = {'seed=(seed<<4)+(vector<<20)+c_loc': 'seed=(seed<<4)+(vector<<20)+(y<<1)'}
    ok = len(pc) == 1 and len(pg) == 1
    if ok:
        import re as _re
        unint = lambda t: _re.sub(r'\bint\((\w+)\)', r'\1', t)      # int() of an integer variable keeps its value (dtype flow: capture_dtype_flow)
        x = unint(cz(pc[0]))
        for k, v in tol.items():
            x = x.replace(k, v)
        ok = x == unint(cz(pg[0]))
    rep.ob('C06.capture', 'post-loop sampling block (tolerated: seed term c_loc vs y << 1)', ok)
    if not ok:
        rep.violate('C06.capture', mod, g, pg[0] if pg else 'if s_sqrt2 > 0', 'the post-loop blocks of the two capture kernels differ beyond the tolerated seed term', node=pg[0] if pg else g)
    ic = {cz(s) for s in body_no_doc(f) if isinstance(s, ast.Assign) and isinstance(s.targets[0], ast.Name)}
    ig = {cz(s) for s in body_no_doc(g) if isinstance(s, ast.Assign) and isinstance(s.targets[0], ast.Name)}
    common = {'m=0.5', 'acc=0.0', 'eat=TMAX', 'lst=TMIN', 'tog=0', 'ovl=0', 'val=int(0)', 'final=int(0)'}
    ok = common <= ic and common <= ig
    rep.ob('C06.capture', 'same initial values', ok)
    if not ok:
        rep.violate('C06.capture', mod, g, f'{sorted(common - ig)} / {sorted(common - ic)}', 'the two capture kernels must start from the same initial values', node=g)
    ok = 's_sqrt2=sd*math.sqrt(2)' in ic
    rep.ob('C06.capture', 'cpu: s_sqrt2 = sd * sqrt(2) (gpu receives it from the call site)', ok)
    if not ok:
        rep.violate('C06.capture', mod, f, 's_sqrt2', 'wave_capture_cpu must compute s_sqrt2 = sd * math.sqrt(2), the value the GPU call site passes', node=f)
    # the scale the gpu kernel tests and divides by must be the caller's sd times sqrt(2) exactly once, counted over the call site and the kernel
    def sqrt2_split(e):
        """(base expression, number of math.sqrt(2) factors) of a product"""
        if isinstance(e, ast.BinOp) and isinstance(e.op, ast.Mult):
            for a, b in ((e.left, e.right), (e.right, e.left)):
                if cz(b) == 'math.sqrt(2)':
                    base, k = sqrt2_split(a)
                    return base, k + 1
        return e, 0
    gparams = [a.arg for a in g.args.args]
    scale = None
    if pg and isinstance(pg[0].test, ast.Compare) and isinstance(pg[0].test.left, ast.Name):
        scale = pg[0].test.left.id
    k_kernel, src_param = 0, scale
    if scale is not None and scale not in gparams:
        defs = [st for st in body_no_doc(g) if isinstance(st, ast.Assign) and len(st.targets) == 1 and is_name(st.targets[0], scale)]
        if len(defs) == 1:
            base, k_kernel = sqrt2_split(defs[0].value)
            src_param = base.id if isinstance(base, ast.Name) else None
        else:
            src_param = None
    elif scale is not None and any(isinstance(st, (ast.Assign, ast.AugAssign)) and any(is_name(t, scale) for t in (st.targets if isinstance(st, ast.Assign) else [st.target]))
                                   for st in ast.walk(g)):
        src_param = None
    cu = mod.func('WaveSimCuda.c_to_s')
    calls = [c for c in find_all(cu, ast.Call) if isinstance(c.func, ast.Subscript) and is_name(c.func.value, 'wave_capture_gpu')]
    ok = False
    if src_param in gparams and len(calls) == 1 and gparams.index(src_param) < len(calls[0].args):
        base, k_call = sqrt2_split(calls[0].args[gparams.index(src_param)])
        ok = cz(base) == 'sd' and k_call + k_kernel == 1
    rep.ob('C06.capture', 'gpu: the sampling scale is the caller\'s sd times sqrt(2) exactly once (call site + kernel)', ok)
    if not ok:
        rep.violate('C06.capture', mod, g, scale or 's_sqrt2', 'the scale the gpu capture kernel compares with 0 and divides by must be sd * sqrt(2) - the cpu kernel\'s value: '
                    'the factor sqrt(2) must be applied exactly once between WaveSimCuda.c_to_s and the kernel', node=calls[0] if calls else g)


def capture_dtype_flow(rep, repo, mod):
    """The sampling hash of wave_capture_cpu multiplies by a constant that does not fit int32. Arguments that are elements of the int32
    location / capacity arrays at the call site (numpy int32 scalars in the pure-Python code path) must be converted with int() before they
    reach that product: NumPy 2 raises OverflowError otherwise (c_to_s with sd > 0 would be unusable on the CPU path)."""
    f = mod.func('wave_capture_cpu')
    caller = mod.func('WaveSim.c_to_s')
    params = [a.arg for a in f.args.args]
    # names of the caller that hold array elements: loop targets over (zip of) self.<array> expressions
    def is_array(e):
        return any(isinstance(n, ast.Attribute) and is_name(n.value, 'self') for n in ast.walk(e)) and not (isinstance(e, ast.Call) and call_name(e) == 'range')
    elems = set()
    for loop in find_all(caller, ast.For):
        it = loop.iter
        if isinstance(it, ast.Call) and call_name(it) == 'zip' and isinstance(loop.target, ast.Tuple) and len(loop.target.elts) == len(it.args):
            for t, a in zip(loop.target.elts, it.args):
                if isinstance(t, ast.Name) and is_array(a):
                    elems.add(t.id)
        elif isinstance(loop.target, ast.Name) and is_array(it):
            elems.add(loop.target.id)
    tainted = set()
    for c in find_all(caller, ast.Call):
        if call_name(c) == 'wave_capture_cpu':
            for k, a in enumerate(c.args):
                if isinstance(a, ast.Name) and a.id in elems and k < len(params):
                    tainted.add(params[k])
            for kw in c.keywords:
                if isinstance(kw.value, ast.Name) and kw.value.id in elems and kw.arg in params:
                    tainted.add(kw.arg)

    def raw(e, names):
        """names read in e that are not the sole argument of int(...)"""
        out = set()
        for x in ast.walk(e):
            if isinstance(x, ast.Name) and isinstance(x.ctx, ast.Load) and x.id in names:
                par = getattr(x, '_parent', None)
                if not (isinstance(par, ast.Call) and call_name(par) == 'int' and len(par.args) == 1 and par.args[0] is x):
                    out.add(x.id)
        return out
    assigns = [st for st in ast.walk(f) if isinstance(st, (ast.Assign, ast.AugAssign))]
    changed = True
    while changed:
        changed = False
        for st in assigns:
            tg = st.targets[0] if isinstance(st, ast.Assign) else st.target
            if isinstance(tg, ast.Name) and tg.id not in tainted and raw(st.value, tainted):
                if isinstance(st.value, ast.Compare) or (isinstance(st.value, ast.Call) and call_name(st.value) in ('float', 'int', 'bool')):
                    continue
                tainted.add(tg.id)
                changed = True
    bad = None
    for st in assigns:
        big = [c for c in ast.walk(st.value) if isinstance(c, ast.Constant) and isinstance(c.value, int) and not isinstance(c.value, bool) and c.value > 2 ** 31 - 1]
        r = raw(st.value, tainted)
        if big and r and bad is None:
            bad = (st, big[0].value, sorted(r))
    ok = bad is None
    rep.ob('C06.capture', f'cpu: the sampling hash is built from Python ints (int32 array elements {sorted(tainted & set(params)) or "none"} converted with int() before the multiplier)', ok)
    if not ok:
        rep.violate('C06.capture', mod, f, bad[0], f'wave_capture_cpu combines {bad[2]} - derived from the int32 array element(s) that WaveSim.c_to_s passes - with the integer constant {bad[1]} '
                    f'which does not fit int32: NumPy 2 raises OverflowError in the pure-Python code path (c_to_s with sd > 0 whenever a capture falls into the sampling window)', node=bad[0])


def _transfer_evaluated(f):
    """WaveSim.s_ppo_to_ppi evaluated (Engine M, array stand-in) on a state array with distinguishable values, several sets of state-element rows and
    two times, against the documented moves (s[0] <- s[2], s[1] <- time, s[2] <- s[8] on those rows, everything else unchanged). None: outside the subset."""
    from kvstatic import minieval
    from kvstatic.ndarr import NDArr
    for rows in ([1], [0, 2, 3], [4, 1]):
        for time in (0.0, 2.5):
            old = [[[float(a * 100 + r * 10 + x) for x in range(3)] for r in range(5)] for a in range(11)]
            want = [[list(r) for r in a] for a in old]
            for r in rows:
                want[0][r] = list(old[2][r])
                want[1][r] = [time] * 3
                want[2][r] = list(old[8][r])
            me = minieval.NS(s=NDArr(old), ppio_s_locs=NDArr(rows))
            try:
                minieval.call_function(f, [me, time])
            except ModelError:
                return None
            except (IndexError, TypeError, ValueError, AttributeError, KeyError):
                return False
            if not isinstance(me.s, NDArr) or me.s.d != want:
                return False
    return True


def state_transfer(rep, repo, mod):
    rep.rule('C06.transfer', 's_ppo_to_ppi and ppo_to_ppi_gpu perform the same row moves: s[0] <- s[2], s[1] <- time, s[2] <- s[8]')
    f = mod.func('WaveSim.s_ppo_to_ppi')
    a = [cz(s) for s in body_no_doc(f)]
    ok = _transfer_evaluated(f)
    if ok is None:      # outside the evaluator subset: the statement template decides
        ok = a == ['self.s[0,self.ppio_s_locs]=self.s[2,self.ppio_s_locs]', 'self.s[1,self.ppio_s_locs]=time', 'self.s[2,self.ppio_s_locs]=self.s[8,self.ppio_s_locs]']
    rep.ob('C06.transfer', 'cpu', ok)
    if not ok:
        rep.violate('C06.transfer', mod, f, body_no_doc(f)[0], 'WaveSim.s_ppo_to_ppi must move s[2] -> s[0], time -> s[1], s[8] -> s[2] on rows ppio_s_locs, in that order', node=f)
    g = mod.func('ppo_to_ppi_gpu')
    b = [cz(s) for s in body_no_doc(g)]
    want = ['s[0,y,x]=s[2,y,x]', 's[1,y,x]=time', 's[2,y,x]=s[8,y,x]']
    ok = [x for x in b if x.startswith('s[')] == want
    rep.ob('C06.transfer', 'gpu', ok)
    if not ok:
        rep.violate('C06.transfer', mod, g, 'row moves', 'ppo_to_ppi_gpu must move s[2] -> s[0], time -> s[1], s[8] -> s[2], in that order', node=g)
    # which positions does the kernel transfer? evaluated (Engine M) for every small interface: n_io ports and n_st state elements, each
    # with or without an input / an output slot, every thread (x, y) of a grid that over-covers the array. The CPU method transfers
    # exactly the rows ppio_s_locs = arange(len(io_nodes), s_len): a port that is both driven and read must keep its assignment.
    import itertools
    from kvstatic import minieval
    launch = mod.func('WaveSimCuda.s_ppo_to_ppi')
    lcalls = [c for c in find_all(launch, ast.Call) if isinstance(c.func, ast.Subscript) and cz(c.func.value) == 'ppo_to_ppi_gpu']
    kparams = [x.arg for x in g.args.args]
    smod, sinit = simops.simops_init(repo)
    okp = any(cz(st) == 'self.ppio_s_locs=np.arange(len(self.circuit.io_nodes),self.s_len)' for st in ast.walk(sinit) if isinstance(st, ast.Assign))
    rep.ob('C06.transfer', 'ppio_s_locs = arange(len(io_nodes), s_len)', okp)
    if not okp:
        rep.violate('C06.transfer', smod, sinit, 'ppio_s_locs', 'SimOps: ppio_s_locs must be np.arange(len(self.circuit.io_nodes), self.s_len) (the positions of the state elements in s)', node=sinit)
    bad = None
    ncases = 0
    try:
        if len(lcalls) != 1 or len(lcalls[0].args) != len(kparams):
            raise ModelError('ppo_to_ppi_gpu launch does not match the kernel parameters')
        kbody = [st for st in body_no_doc(g) if not (isinstance(st, ast.Assign) and 'cuda.grid' in cz(st))]
        SLOT = ((True, True), (True, False), (False, True))
        for n_io in (0, 1, 2):
            for n_st in (0, 1, 2):
                n = n_io + n_st
                for slots in itertools.product(SLOT, repeat=n):
                    ppi_off, ppo_off = 10, 20
                    c_locs = [-1] * 40
                    for y, (i_ok, o_ok) in enumerate(slots):
                        c_locs[ppi_off + y] = 100 + y if i_ok else -1
                        c_locs[ppo_off + y] = 200 + y if o_ok else -1
                    me = minieval.NS(s=minieval.Rec(), c_locs=c_locs, ppi_offset=ppi_off, ppo_offset=ppo_off, sims=2, s_len=n,
                                     circuit=minieval.NS(io_nodes=[None] * n_io), ppio_s_locs=list(range(n_io, n)))
                    me.s.shape = (11, n, 2)
                    argv = [minieval.ev(a, {'self': me, 'time': 0.5}) for a in lcalls[0].args]
                    moved = set()
                    for y in range(n + 2):
                        for x in range(3):
                            ncases += 1
                            rec = minieval.Rec()
                            rec.shape = (11, n, 2)
                            env = dict(zip(kparams, argv))
                            env[kparams[0]] = rec
                            env.update(x=x, y=y)
                            try:
                                minieval.run(kbody, env)
                            except minieval.Returned:
                                pass
                            if rec:
                                moved.add((y, x))
                    want = {(y, x) for y in range(n_io, n) if slots[y] == (True, True) for x in range(2)}
                    # a state element without one of the two slots: either behaviour leaves the port-level results alone
                    free = {(y, x) for y in range(n_io, n) if slots[y] != (True, True) for x in range(2)}
                    if (moved - free) != want and bad is None:
                        bad = (n_io, n_st, slots, sorted(moved), sorted(want))
        ok = bad is None
        rep.ob('C06.transfer', f'gpu: transferred positions = state elements with both slots, threads inside the array ({ncases} thread cases evaluated)', ok, evals=ncases)
        if not ok:
            rep.violate('C06.transfer', mod, g, 'transferred positions', f'ppo_to_ppi_gpu: with {bad[0]} port(s) and {bad[1]} state element(s), slots (input, output) = {list(bad[2])}, '
                        f'the kernel transfers threads (y, x) = {bad[3]} but WaveSim.s_ppo_to_ppi transfers {bad[4]}: the CPU and the GPU path differ for a port that is both driven and read, '
                        f'or a thread outside the array writes', node=g)
    except ModelError:
        for w in ('ify>=s.shape[1]:return', 'ifx>=s.shape[2]:return', 'ifc_locs[ppi_offset+y]<0:return', 'ifc_locs[ppo_offset+y]<0:return', 'ify<ppio_start:return'):
            ok = w in b
            rep.ob('C06.transfer', f'gpu: {w}', ok)
            if not ok:
                rep.violate('C06.transfer', mod, g, w, f'ppo_to_ppi_gpu: `{w}` required (only state elements, which have both an input and an output slot, are transferred)', node=g)
    for q, kern, args in (('WaveSimCuda.s_ppo_to_ppi', 'ppo_to_ppi_gpu', ['self.s', 'self.c_locs', 'time', 'self.ppi_offset', 'self.ppo_offset', 'len(self.circuit.io_nodes)']),
                          ('WaveSimCuda.s_to_c', 'wave_assign_gpu', ['self.c', 'self.s', 'self.c_locs', 'self.ppi_offset'])):
        h = mod.func(q)
        calls = [c for c in find_all(h, ast.Call) if isinstance(c.func, ast.Subscript) and cz(c.func.value) == kern]
        params = [x.arg for x in mod.func(kern).args.args]
        ok = len(calls) == 1 and [cz(x) for x in calls[0].args] == args and len(params) == len(args)
        gd = [cz(s) for s in body_no_doc(h)]
        ok = ok and 'grid_dim=self._grid_dim(self.sims,self.s_len)' in gd
        rep.ob('C06.transfer', f'{q} launches {kern}({", ".join(args)}) over sims x s_len', ok)
        if not ok:
            rep.violate('C06.transfer', mod, h, calls[0] if calls else kern, f'{q} must launch {kern} with {args} over a grid covering sims x s_len', node=h)


LANE = {
    '_wave_eval': ('sim', ('cbuf',)),
    'level_eval_cpu': ('sim', ('abuf', 'simctl_int')),
    'wave_capture_cpu': ('vector', ('c',)),
    'wave_assign_gpu': ('x', ('c', 's')),
    'wave_eval_gpu': ('sim', ('abuf', 'simctl_int')),
    'wave_capture_gpu': ('vector', ('c', 's')),
    'ppo_to_ppi_gpu': ('x', ('s',)),
}


def lane_flow(rep, repo, mod):
    rep.rule('C06.lane', 'the lane variable is used only as the last index of signal/state/accumulator arrays, in simctl_int[:, lane], as kernel lane argument, in bounds guards and in seed mixing')
    n = 0
    for q, (lane, arrays) in LANE.items():
        f = mod.func(q)
        uses = [x for x in ast.walk(f) if isinstance(x, ast.Name) and x.id == lane and isinstance(x.ctx, ast.Load)]
        for u in uses:
            n += 1
            p = getattr(u, '_parent', None)
            ok, why = False, ''
            lane_txt = lane
            if isinstance(p, ast.Call) and call_name(p) == 'int' and len(p.args) == 1 and isinstance(getattr(p, '_parent', None), ast.BinOp):
                lane_txt = f'int({lane})'       # int() of the lane index is the lane index
                u, p = p, p._parent
            if isinstance(p, ast.Tuple) and isinstance(getattr(p, '_parent', None), ast.Subscript) and p._parent.slice is p:
                base = cz(p._parent.value)
                ok = p.elts[-1] is u and base in ('cbuf', 'c', 's', 'abuf', 'simctl_int')
                why = f'index position {p.elts.index(u)} of {base}[...]'
            elif isinstance(p, ast.Tuple) and isinstance(getattr(p, '_parent', None), ast.Call) and call_name(p._parent) == 'cuda.atomic.add':
                ok = p.elts[-1] is u
                why = 'atomic add index'
            elif isinstance(p, ast.Call) and call_name(p) in ('wave_eval_cpu', '_wave_eval_gpu'):
                ok = p.args.index(u) == 4
                why = 'kernel argument position'
            elif isinstance(p, ast.Compare):
                other = [cz(x) for x in [p.left] + p.comparators if x is not u]
                ok = other and other[0] in ('sim_stop', 'c.shape[-1]', 's.shape[2]')
                why = f'comparison with {other}'
            elif isinstance(p, ast.BinOp):
                st = p
                while not isinstance(st, ast.stmt):
                    st = st._parent
                ok = isinstance(st, ast.Assign) and isinstance(st.targets[0], ast.Name) and st.targets[0].id in ('seed', '_rnd') and cz(p) == f'{lane_txt}<<20'
                why = f'arithmetic `{norm(st)[:60]}`'
            elif isinstance(p, ast.Assign) and cz(p) == 'vector=x':
                ok = True
            else:
                why = f'{type(p).__name__}: {norm(p)[:60]}'
            rep.ob('C06.lane', f'{q}: {norm(p)[:70]}', ok)
            if not ok:
                st = u
                while not isinstance(st, ast.stmt):
                    st = st._parent
                rep.violate('C06.lane', mod, f, st, f'{q}: lane variable `{lane}` is used outside the allowed positions ({why}); results could depend on the lane a stimulus occupies', node=st)
        # lane variable definition
        defs = [s for s in ast.walk(f) if isinstance(s, (ast.Assign, ast.For)) and lane in target_names(s.targets[0] if isinstance(s, ast.Assign) else s.target)]
        okd = True
        for s in defs:
            t = cz(s.value) if isinstance(s, ast.Assign) else cz(s.iter)
            okd = okd and t in ('sim_start+x', 'x', 'range(sim_start,sim_stop)', 'cuda.grid(2)')
        rep.ob('C06.lane', f'{q}: lane variable defined from the launch index only', okd)
        if not okd:
            rep.violate('C06.lane', mod, f, defs[0], f'{q}: lane variable `{lane}` must come straight from the launch index / lane range', node=defs[0])
    rep.floor('lane variable uses', n, 40)
    # every signal-array access in the kernel has the lane as last index
    K = NS_(f=mod.func('_wave_eval'))
    bad = [s for s in ast.walk(K.f) if isinstance(s, ast.Subscript) and cz(s.value) == 'cbuf' and not (isinstance(s.slice, ast.Tuple) and len(s.slice.elts) == 2 and cz(s.slice.elts[1]) == 'sim')]
    rep.ob('C06.lane', '_wave_eval: every cbuf access is cbuf[<row>, sim]', not bad)
    for s in bad:
        rep.violate('C06.lane', mod, K.f, s, f'_wave_eval: `{norm(s)}` does not address the thread\'s own lane', node=s)
    cs = mod.func('WaveSim.c_to_s')
    t = cz(cs)
    ok = 'forvectorinrange(self.sims):self.s[3:,s_loc,vector]=wave_capture_cpu(self.c,c_loc,c_len,vector,' in t
    rep.ob('C06.lane', 'c_to_s: result of lane `vector` is stored in lane `vector`', ok)
    if not ok:
        rep.violate('C06.lane', mod, cs, 'self.s[3:, s_loc, vector] = wave_capture_cpu(self.c, c_loc, c_len, vector, ...)', 'WaveSim.c_to_s must capture lane `vector` of the waveform into lane `vector` of s', node=cs)


def thread_guards(rep, repo, mod):
    """Which threads of an over-sized grid do work? Evaluated (Engine M): the head of each GPU kernel (thread index, range guards, slot
    look-up) is run for every thread of a grid that over-covers the arrays, for every allocation pattern of two slots; a thread must go
    on to the kernel body exactly when its lane and its slot / op exist (and the slot is allocated)."""
    import itertools
    from kvstatic import minieval
    rep.rule('C06.guards', 'GPU kernels: a thread proceeds into the kernel body iff its lane is inside the lane range and its slot / op index inside the array and allocated '
                           '(every thread of an over-sized grid evaluated)')
    NS = minieval.NS

    def head_outcome(fdef, env):
        """'return' if the head returns, 'body' as soon as a statement beyond the head (not an assignment from plain data / a guard) is met"""
        body = body_no_doc(fdef)

        def is_guard(st):
            return isinstance(st, ast.If) and not st.orelse and len(st.body) == 1 and isinstance(st.body[0], ast.Return)
        prefix = []
        for st in body:
            if isinstance(st, ast.Assign) or is_guard(st):
                prefix.append(st)
            else:
                break
        last = max((k for k, st in enumerate(prefix) if is_guard(st)), default=-1)
        for st in prefix[:last + 1]:        # the head ends with the last range guard
            simple = isinstance(st, ast.Assign)
            guard = is_guard(st)
            if isinstance(st, ast.Assign) and 'cuda.grid' in cz(st.value):
                minieval.bind(st.targets[0], (env['__x'], env['__y']), env)
                continue
            if not (simple or guard):
                return 'body'
            try:
                minieval.run([st], env)
            except minieval.Returned:
                return 'return'
            except (IndexError, KeyError, TypeError) as e:
                return type(e).__name__
        return 'body'
    SIMS, NSLOT = 2, 2
    specs = []
    # (kernel, parameter values as a function of the slot allocation, expectation)
    for alloc in itertools.product((True, False), repeat=NSLOT):
        off = 5
        c_locs = [-1] * off + [(10 + k if a else -1) for k, a in enumerate(alloc)]
        arr_c = NS(shape=(40, SIMS))
        arr_s = NS(shape=(11, NSLOT, SIMS))
        specs.append(('wave_assign_gpu', dict(c=arr_c, s=arr_s, c_locs=c_locs, ppi_offset=off), lambda x, y, alloc=alloc: x < SIMS and y < NSLOT and alloc[y]))
        specs.append(('wave_capture_gpu', dict(c=arr_c, s=arr_s, c_locs=c_locs, c_caps=[4] * len(c_locs), ppo_offset=off, time=1.0, s_sqrt2=0.0, seed=1),
                      lambda x, y, alloc=alloc: x < SIMS and y < NSLOT and alloc[y]))
    specs.append(('wave_eval_gpu', dict(ops=[[0] * 9] * 7, op_start=3, op_stop=5, cbuf=None, c_locs=[], c_caps=[], abuf=None, sim_start=0, sim_stop=SIMS,
                                        delays=None, simctl_int=None, seed=1), lambda x, y: x < SIMS and y < 2))
    for name in sorted({n for n, _e, _w in specs}):
        fdef = mod.func(name)
        bad = None
        n = 0
        try:
            for nm, params, want in specs:
                if nm != name:
                    continue
                for x in range(SIMS + 2):
                    for y in range(NSLOT + 2):
                        n += 1
                        env = dict(params)
                        env.update(__x=x, __y=y)
                        got = head_outcome(fdef, env)
                        exp = 'body' if want(x, y) else 'return'
                        if got != exp and bad is None:
                            bad = (x, y, {k: v for k, v in params.items() if k in ('c_locs', 'op_start', 'op_stop', 'sim_stop')}, got, exp)
        except ModelError as e:
            raise ModelError(f'C06.guards: head of {name} is outside the evaluator subset ({e}): no verdict on its thread guards')      # undecided, never a silent pass
        ok = bad is None
        rep.ob('C06.guards', f'{name}: {n} threads evaluated', ok, evals=n)
        if not ok:
            rep.violate('C06.guards', mod, fdef, f'thread guards of {name}', f'{name}: thread (x={bad[0]}, y={bad[1]}) with {bad[2]} ({SIMS} lanes, {NSLOT} slots / ops 3..4) ends in `{bad[3]}` but must '
                        f'end in `{bad[4]}`: a thread outside the arrays (or of an unallocated slot) must return before touching memory, every other thread must do its work '
                        f'(otherwise the GPU path computes something else than the CPU path)', node=fdef)


class NS_:
    def __init__(self, **kw):
        self.__dict__.update(kw)


def _c06_kernel_eval(rep, repo):
    from checks import kernel_eval
    if getattr(rep, '_c06_ke', None) is None:
        rep._c06_ke = bool(kernel_eval.decide(rep, repo, 'C06', ('dataset', 'bounds')))
    return rep._c06_ke


def dataset_selection(rep, repo, mod):
    """the dataset rules; a kernel the path engine cannot parse is decided by the evaluated kernel rule (clause `dataset`) and the evaluated constructor"""
    from checks import kernel_eval, wavesim_init_eval
    ke = _c06_kernel_eval(rep, repo)
    try:
        _dataset_selection(rep, repo, mod)
    except ModelError as e:
        if not ke:
            raise
        rep.note(f'C06.dataset: the path rules do not recognise the shape of the kernel ({e}); decided by the evaluated kernel rule C06.kernel-eval (bounded family of situations)')
        wavesim_init_eval.decide(rep, repo, 'C06.dataset', ('delays', 'simctl', 'memory'))


def _dataset_selection(rep, repo, mod):
    rep.rule('C06.dataset', 'delay dataset: skipped for a single dataset; mode 0 -> delays[seed], mode 1 -> delays[simctl_int[0]], else hash-picked index modulo len(delays); afterwards only the selected slice is used')
    K = Kernel(repo)
    evaluated = dataset_selection_evaluated(rep, mod, K)
    sel = [s for s in K.prologue if isinstance(s, ast.If) and cz(s.test) == 'len(delays)>1']
    if evaluated:
        if len(sel) == 1:
            dataset_dtype_flow(rep, mod, K, sel[0])
        dataset_host_side(rep, mod, K, sel[0] if len(sel) == 1 else None)
        return
    if len(sel) != 1:
        rep.violate('C06.dataset', mod, K.f, 'if len(delays) > 1', 'the dataset selection `if len(delays) > 1:` was not found', node=K.f)
        return
    s = sel[0]
    ok = [cz(x) for x in s.orelse] == ['delays=delays[0]']
    rep.ob('C06.dataset', 'single dataset -> delays[0]', ok)
    if not ok:
        rep.violate('C06.dataset', mod, K.f, s.orelse[0] if s.orelse else 'else', 'with one dataset the kernel must use delays[0]', node=s)
    arms, orelse = flatten_if_chain(s.body[0]) if s.body and isinstance(s.body[0], ast.If) else ([], [])
    got = {}
    for t, b in arms:
        got[cz(t)] = [cz(x) for x in b]
    ok = got.get('simctl_int[1]==0') == ['delays=delays[seed]'] and got.get('simctl_int[1]==1') == ['delays=delays[simctl_int[0]]']
    rep.ob('C06.dataset', 'mode 0 -> delays[seed]; mode 1 -> delays[simctl_int[0]]', ok, sample={'rule': 'C06.dataset', 'arms': got})
    if not ok:
        rep.violate('C06.dataset', mod, K.f, s.body[0].test if s.body else 'selection', 'selection mode 0 must take dataset `seed` for all lanes, mode 1 dataset simctl_int[0] of the lane', node=s)
    e = [cz(x) for x in orelse]
    mix_ok = False
    if len(orelse) == 3 and isinstance(orelse[1], ast.For):
        names = {x.id for st in orelse[1].body for x in ast.walk(st) if isinstance(x, ast.Name)} - {'int', '_'}
        mix_ok = names == {'_rnd'}      # the mixing loop only stirs _rnd with constants
    srcs = {x.id for x in ast.walk(orelse[0]) if isinstance(x, ast.Name)} - {'int'} if orelse else set()
    ok = len(e) == 3 and mix_ok and srcs == {'_rnd', 'seed', 'z_idx', 'simctl_int'} and e[2] == 'delays=delays[_rnd%len(delays)]'
    dataset_dtype_flow(rep, mod, K, s)
    rep.ob('C06.dataset', 'mode 2 -> hash(seed, line, lane seed) modulo len(delays)', ok)
    if not ok:
        rep.violate('C06.dataset', mod, K.f, orelse[-1] if orelse else 'else', 'random mode must hash (seed, z_idx, simctl_int[0]) and take the result modulo len(delays)', node=s)
    dataset_host_side(rep, mod, K, s)


def dataset_dtype_flow(rep, mod, K, s):
    arms, orelse = flatten_if_chain(s.body[0]) if s.body and isinstance(s.body[0], ast.If) else ([], [])
    # dtype flow: elements of the int32 op/control arrays are numpy int32 scalars; NumPy 2 refuses to combine them with a Python
    # integer that does not fit int32 (the LCG multiplier). Every array-derived operand of the seed must be converted with int().
    if orelse:
        big = [c for st in orelse for c in ast.walk(st) if isinstance(c, ast.Constant) and isinstance(c.value, int) and not isinstance(c.value, bool) and c.value > 2 ** 31 - 1]
        arr_derived = {n for n, col in K.col.items()} | {'simctl_int', 'c_locs', 'c_caps', 'op'}
        raw = []
        for x in ast.walk(orelse[0]):
            if isinstance(x, ast.Name) and x.id in arr_derived and isinstance(x.ctx, ast.Load):
                top = x
                while isinstance(getattr(top, '_parent', None), ast.Subscript) and top._parent.value is top:
                    top = top._parent
                par = getattr(top, '_parent', None)
                if not (isinstance(par, ast.Call) and call_name(par) == 'int'):
                    raw.append(x.id)
        okd = not (big and raw)
        rep.ob('C06.dataset', 'hash seed is built from Python ints (array elements converted with int())', okd)
        if not okd:
            rep.violate('C06.dataset', mod, K.f, orelse[0], f'the dataset hash combines the int32 array element(s) {sorted(set(raw))} with the integer constant {big[0].value} which does not fit int32: '
                        f'NumPy 2 raises OverflowError in the pure-Python code path (default selection mode with more than one delay dataset)', node=orelse[0])


def dataset_host_side(rep, mod, K, s):
    # first use of delays as a 3-index array comes after the selection
    first = None
    for st in K.prologue:
        if s is not None and st is s:
            break
        if any(isinstance(x, ast.Subscript) and is_name(x.value, 'delays') for x in ast.walk(st)):
            first = st
    rep.ob('C06.dataset', 'no delay lookup before the selection', first is None)
    if first is not None:
        rep.violate('C06.dataset', mod, K.f, first, 'a delay is looked up before the dataset has been selected', node=first)
    # host side: delays padded per dataset, simctl defaults
    from checks import wavesim_init_eval
    if wavesim_init_eval.decide(rep, rep.repo, 'C06.dataset', ('delays', 'simctl', 'memory')):
        return          # WaveSim.__init__ evaluated on one / several datasets
    wi = mod.func('WaveSim.__init__')
    t = [cz(x) for x in body_no_doc(wi)]
    need = ['ifdelays.ndim==3:delays=np.expand_dims(delays,axis=0)', 'self.delays=np.zeros((len(delays),self.c_locs_len,2,2),dtype=delays.dtype)', 'self.delays[:,:delays.shape[1]]=delays',
            'self.simctl_int=np.zeros((2,sims),dtype=np.int32)', 'self.simctl_int[0]=range(sims)', 'self.simctl_int[1]=2']
    for w in need:
        ok = w in t
        rep.ob('C06.dataset', f'WaveSim.__init__: {w}', ok)
        if not ok:
            rep.violate('C06.dataset', mod, wi, w, f'WaveSim.__init__: `{w}` required (datasets on axis 0, zero delay for the special/interface slots, per-lane selection table)', node=wi)
    ok = 'self.c=np.zeros((self.c_len,sims),dtype=np.float32)+TMAX' in t and 'self.s=np.zeros((11,self.s_len,sims),dtype=np.float32)' in t
    rep.ob('C06.dataset', 'signal memory starts as TMAX (empty waveforms: zero line reads constant 0), s has 11 rows', ok)
    if not ok:
        rep.violate('C06.dataset', mod, wi, 'self.c / self.s', 'WaveSim.c must start as TMAX everywhere (every waveform empty, in particular the zero line) with one column per lane; s has 11 rows', node=wi)



def dataset_selection_evaluated(rep, mod, K):
    """Decide the selection by evaluating the kernel's own statements (Engine M) for every selection mode, with one and with
    three datasets, instead of recognising one spelling. Returns False (nothing recorded) if the statements are outside
    the evaluator's subset; the caller then falls back to the structural form of the rule."""
    from kvstatic import minieval
    from kvstatic.core import ModelError as _ME
    binds = [k for k, st in enumerate(K.prologue) if any(isinstance(n, ast.Name) and n.id == 'delays' and isinstance(n.ctx, ast.Store) for n in ast.walk(st))]
    reads = [k for k, st in enumerate(K.prologue) if any(isinstance(n, ast.Name) and n.id == 'delays' for n in ast.walk(st))]
    if not binds:
        return False
    window = K.prologue[:max(binds) + 1]

    def run(nd, mode, seed, zidx, lane):
        env = {'delays': [f'D{k}' for k in range(nd)], 'simctl_int': [lane, mode], 'seed': seed, 'op': [0, zidx, 1, 2, 3, 4, 0, 0, 0], 'sim': 0}
        for nm, col in K.col.items():
            env[nm] = env['op'][col]
        for st in window:
            try:
                minieval.run([st], env)
            except _ME:
                if any(isinstance(n, ast.Name) and n.id == 'delays' for n in ast.walk(st)):
                    raise       # the selection itself is outside the subset
        return env['delays']

    def spec(nd, mode, seed, zidx, lane):
        if nd == 1:
            return 'D0'
        if mode == 0:
            return f'D{seed}'
        if mode == 1:
            return f'D{lane}'
        r = (seed << 4) + (zidx << 20) + lane
        for _ in range(4):
            r = 0xDEECE66D * r + 0xB
        return f'D{r % nd}'
    cases = [(1, m, sd, 5, 0) for m in (0, 1, 2) for sd in (0, 1)] + [(3, 0, sd, 5, 1) for sd in (0, 1, 2)] + [(3, 1, 1, 5, ln) for ln in (0, 1, 2)] \
        + [(3, 2, sd, z, ln) for sd in (0, 1, 7) for z in (1, 5, 30) for ln in (0, 1, 2)] + [(3, 3, 1, 5, 2), (5, 2, 3, 9, 4)]
    results = []
    try:
        for c in cases:
            try:
                got = run(*c)
            except (IndexError, KeyError, TypeError, ZeroDivisionError) as e:
                got = f'{type(e).__name__}'
            results.append((c, got, spec(*c)))
    except _ME:
        return False
    groups = {'single dataset -> delays[0]': [r for r in results if r[0][0] == 1],
              'mode 0 -> delays[seed]; mode 1 -> delays[simctl_int[0]]': [r for r in results if r[0][0] > 1 and r[0][1] in (0, 1)],
              'mode 2 -> hash(seed, line, lane seed) modulo len(delays)': [r for r in results if r[0][0] > 1 and r[0][1] >= 2]}
    for label, rs in groups.items():
        bad = [r for r in rs if r[1] != r[2]]
        rep.ob('C06.dataset', f'{label} (evaluated on {len(rs)} cases)', not bad, evals=len(rs))
        if bad:
            (nd, mode, seed, zidx, lane), got, want = bad[0]
            rep.violate('C06.dataset', mod, K.f, label, f'dataset selection: with {nd} dataset(s), simctl_int[1]={mode}, seed={seed}, output line {zidx}, simctl_int[0]={lane} the kernel '
                        f'continues with {got} but must use {want} ({label})', witness={'datasets': nd, 'mode': mode, 'seed': seed, 'z_idx': zidx, 'simctl_int[0]': lane, 'got': got, 'want': want},
                        node=window[0])
    return True


def options(rep, repo):
    rep.rule('C06.options', 'c_reuse and strip_forks are read only where C07/C08 analyse them (release guard; fork ops and stem table) and are forwarded unchanged by the simulators')
    smod, init = simops.simops_init(repo)
    uses = {'c_reuse': [], 'strip_forks': []}
    for x in ast.walk(init):
        if isinstance(x, ast.Name) and x.id in uses and isinstance(x.ctx, ast.Load):
            st = x
            while not isinstance(st, ast.stmt):
                st = st._parent
            uses[x.id].append(st)
    ok = len(uses['c_reuse']) == 1 and isinstance(uses['c_reuse'][0], ast.If) and cz(uses['c_reuse'][0].test) == 'c_reuse'
    rep.ob('C06.options', 'c_reuse: only the release guard', ok)
    if not ok:
        rep.violate('C06.options', smod, init, uses['c_reuse'][0] if uses['c_reuse'] else 'c_reuse', 'c_reuse may only guard the per-level release of memory', node=init)
    sf = sorted(cz(s.test) for s in uses['strip_forks'] if isinstance(s, ast.If))
    ok = len(uses['strip_forks']) == 2 and sf == ['notstrip_forks', 'strip_forks']
    rep.ob('C06.options', 'strip_forks: fork-op emission and stem table only', ok)
    if not ok:
        rep.violate('C06.options', smod, init, uses['strip_forks'][0] if uses['strip_forks'] else 'strip_forks', 'strip_forks may only decide whether fork ops are emitted and whether the stem table is filled', node=init)
    for mod in repo.all_mods():
        for f in mod.funcs.values():
            if mod.name == 'sim':
                continue
            for x in ast.walk(f):
                if isinstance(x, ast.Name) and x.id in ('c_reuse', 'strip_forks') and isinstance(x.ctx, ast.Load):
                    p = x._parent
                    ok = isinstance(p, ast.keyword) and p.arg == x.id
                    rep.ob('C06.options', f'{mod.name}.{f.name}: {x.id} forwarded', ok)
                    if not ok:
                        rep.violate('C06.options', mod, f, p, f'{mod.name}.{f.name}: {x.id} must only be forwarded as keyword {x.id}={x.id}', node=x)


def mock_api(rep, repo):
    rep.rule('C06.mockapi', 'every cuda.<attr> / numba.<attr> the package uses exists on the pure-Python stand-ins MockCuda / MockNumba')
    im = repo.mod('__init__')
    have = {}
    for cname in ('MockCuda', 'MockNumba'):
        cls = im.cls(cname)
        names = set()
        for st in cls.body:
            if isinstance(st, (ast.FunctionDef, ast.ClassDef)):
                names.add(st.name)
            elif isinstance(st, ast.Assign):
                names.update(target_names(st.targets[0]))
        for st in ast.walk(cls):
            if isinstance(st, ast.Assign) and isinstance(st.targets[0], ast.Attribute) and is_name(st.targets[0].value, 'self'):
                names.add(st.targets[0].attr)
        have[cname] = (names, cls)
    used = {}
    n = 0
    for mod in repo.all_mods():
        for x in ast.walk(mod.tree):
            if isinstance(x, ast.Attribute) and isinstance(x.value, ast.Name) and x.value.id in ('cuda', 'numba') and mod.name != '__init__':
                chain = [x.attr]
                p = getattr(x, '_parent', None)
                node = x
                while isinstance(p, ast.Attribute) and p.value is node:
                    chain.append(p.attr)
                    node, p = p, getattr(p, '_parent', None)
                used.setdefault((x.value.id, tuple(chain)), (mod, x))
    for (root, chain), (mod, x) in sorted(used.items(), key=lambda kv: (kv[0][0], kv[0][1])):
        n += 1
        names, cls = have['MockCuda' if root == 'cuda' else 'MockNumba']
        ok = chain[0] in names
        if ok and len(chain) > 1:
            sub = next((st for st in cls.body if isinstance(st, ast.ClassDef) and st.name == chain[0]), None)
            if sub is not None:
                subnames = {st.name for st in sub.body if isinstance(st, ast.FunctionDef)}
                ok = chain[1] in subnames
            else:
                ok = False
        rep.ob('C06.mockapi', f'{root}.{".".join(chain)}', ok, sample={'rule': 'C06.mockapi', 'attr': f'{root}.{".".join(chain)}', 'ok': ok} if n <= 4 else None)
        if not ok:
            rep.violate('C06.mockapi', mod, x, f'{root}.{".".join(chain)}', f'{mod.name} uses {root}.{".".join(chain)} but the pure-Python stand-in {"MockCuda" if root == "cuda" else "MockNumba"} does not provide it: '
                        f'the GPU-kernel code path raises AttributeError without CUDA', node=x)
    rep.floor('cuda/numba attributes used', n, 6)


def depends(rep, repo):
    """Rules of the mechanisms this property's results rest on (schedule validity and memory map of SimOps): a change
    that breaks them breaks this property too, so they are part of this check (rule ids keep their C07./C08. prefix)."""
    from checks import c07, c08
    c07.schedule_rules(rep, repo)
    c08.map_rules(rep, repo)
    c07.launches(rep, repo)        # level launches and the pure-Python grid launcher standing in for CUDA (C07.launch)
    # with and without stripped forks the same overflow indicator must reach a port: the terminator propagation of _wave_eval (C13.overflow)
    from checks import c13, kernel_eval
    ke13 = kernel_eval.decide(rep, repo, 'C13', ('activity', 'overflow'))
    kernel_eval.with_fallback(rep, ke13, 'C13', lambda: c13.overflow(rep, repo))


def thorough(rep, repo):
    """Thorough tier: the quick rules plus checker self-validation on the C06 slice of the mutation corpus."""
    from kvstatic import thorough as thorough_mod
    thorough_mod.selftest_slice(rep, repo, 'C06')
