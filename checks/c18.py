"""C18 - STIL patterns map scan data onto flip-flops by chain order and inversion (structural clauses)."""
from __future__ import annotations

import ast

from kvstatic.core import Repo, Report, ModelError, AnchorError, norm
from kvstatic import grammar, oracle
from kvstatic.mvlogic import Logic
from kvstatic.tt import LaneViolation
from kvstatic.paths import cz
from kvstatic.astutil import find_all, attr_chain, is_name, call_name, body_no_doc, target_names, walk_no_nested_funcs, renamed, parents

CH = '0X-1PRFN'


def run(rep: Report, repo: Repo):
    rep.explanation = (
        'Loop-shape facts of StilFile._maps that are necessary for "first shifted bit belongs to the cell nearest scan-out" and for '
        'the inversion markers; a single source for the port/state ordering (any second construction of "ports then state elements" '
        'must agree with Circuit.s_nodes); the scan-load blocks of tests and tests_loc as twins, responses as their mirror; the 8x8 '
        'table of mv_transition evaluated by engine A against the documented transition semantics; grammar/transformer agreement for '
        'the STIL grammar.')
    rep.trusted = ['lark LALR compilation of the grammar constant', 'algebra conventions of logic.py (C12/C15)']
    rep.assumptions = ['BOUNDED: scan maps and inversions are decided for all chains of <= 5 entries (C18.maps), pattern extraction for one fixture text (C18.extract); tests / tests_loc / responses beyond their twin structure are NOT decided']
    mod = repo.mod('stil')
    evaluated = False
    try:
        evaluated = maps_evaluated(rep, mod)
    except ModelError as e:
        rep.note(f'C18.maps: StilFile._maps is outside the evaluated subset ({e}); the structural rules C18.chain / C18.rank decide')
    interface_order(rep, repo, mod, maps_evaluated=evaluated)
    ext = False
    try:
        from checks import c18_eval
        ext = c18_eval.evaluate(rep, repo, mod)
    except ModelError as e:
        rep.note(f'C18.extract: StilTransformer / StilFile.__init__ are outside the evaluated subset ({e}); the structural rules decide')
    if not ext:
        extraction(rep, mod)
    twins(rep, mod)
    if not evaluated:
        chain_orientation(rep, mod, Logic(repo))
    if not ext:
        chain_ends(rep, mod)
    transition_table(rep, repo)
    stil_grammar(rep, mod, extract_evaluated=ext)
    grammar.fresh_parser_rule(rep, 'C18.fresh', mod, 'StilTransformer')
    stateless_queries(rep, mod)


def stateless_queries(rep, mod):
    """tests/tests_loc/responses/_maps are functions of (parsed file, circuit given now): a StilFile object may be asked about
    several circuits, so nothing derived from one circuit may be kept on the object."""
    rep.rule('C18.stateless', 'StilFile methods other than __init__ never store into self (no attribute assignment, no item store or mutating call on an attribute of self)')
    cls = mod.cls('StilFile')
    MUT = {'append', 'extend', 'update', 'setdefault', 'insert', 'pop', 'clear', 'add', 'remove', 'popitem', '__setitem__', 'sort', 'reverse'}
    n = 0
    for st in cls.body:
        if not isinstance(st, ast.FunctionDef) or st.name == '__init__':
            continue
        n += 1
        bad = []
        for x in ast.walk(st):
            if isinstance(x, (ast.Attribute, ast.Subscript)) and isinstance(getattr(x, 'ctx', None), (ast.Store, ast.Del)):
                b = x
                while isinstance(b, (ast.Attribute, ast.Subscript)):
                    b = b.value
                if isinstance(b, ast.Name) and b.id == 'self':
                    bad.append(x)
            elif isinstance(x, ast.Call) and isinstance(x.func, ast.Attribute) and x.func.attr in MUT:
                b = x.func.value
                depth = 0
                while isinstance(b, (ast.Attribute, ast.Subscript)):
                    b = b.value
                    depth += 1
                if isinstance(b, ast.Name) and b.id == 'self' and depth >= 1:
                    bad.append(x)
        rep.ob('C18.stateless', f'StilFile.{st.name} does not write to self', not bad)
        for x in bad:
            rep.violate('C18.stateless', mod, st, x, f'StilFile.{st.name} stores into the StilFile object ({norm(x)[:70]}): what it derives from the circuit passed now '
                        f'would be seen by later calls for another circuit', node=x)
    rep.floor('StilFile query methods', n, 4)


def interface_order(rep, repo, mod, maps_evaluated=False):
    rep.rule('C18.order', 'the port/state ordering has one source: every construction of "io_nodes + state elements" in the package equals Circuit.s_nodes (case-folded dff, then latch)')
    cmod = repo.mod('circuit')
    sn = cmod.func('Circuit.s_nodes')
    ref = [r for r in find_all(sn, ast.Return)][0].value
    def parts(e):
        out = []
        while isinstance(e, ast.BinOp) and isinstance(e.op, ast.Add):
            out.insert(0, e.right)
            e = e.left
        out.insert(0, e)
        return out
    def norm_part(p):
        if isinstance(p, ast.Call) and call_name(p) == 'list' and isinstance(p.args[0], ast.Attribute) and p.args[0].attr == 'io_nodes':
            return 'io_nodes'
        if isinstance(p, ast.ListComp) and len(p.generators) == 1 and isinstance(p.generators[0].iter, ast.Attribute) and p.generators[0].iter.attr == 'nodes':
            v = p.generators[0].target.id
            return 'nodes if ' + ' and '.join(renamed(t, names={v: 'n'}) for t in p.generators[0].ifs)
        return None
    refn = [norm_part(p) for p in parts(ref)]
    n = 0
    for m in repo.all_mods():
        for q, f in m.funcs.items():
            if m.name == 'circuit' and q == 'Circuit.s_nodes':
                continue
            for e in ast.walk(f):
                if isinstance(e, ast.BinOp) and isinstance(e.op, ast.Add) and not (isinstance(getattr(e, '_parent', None), ast.BinOp) and isinstance(e._parent.op, ast.Add)):
                    ps = [norm_part(p) for p in parts(e)]
                    if ps and ps[0] == 'io_nodes' and len(ps) > 1 and all(x is not None for x in ps):
                        n += 1
                        ok = ps == refn
                        rep.ob('C18.order', f'{m.name}.{q}: {norm(e)[:80]}', ok)
                        if not ok:
                            rep.violate('C18.order', m, f, e, f'{m.name}.{q} builds its own port/state list `{norm(e)[:140]}` which differs from Circuit.s_nodes ({refn[1:]}): '
                                        f'pattern rows do not follow the circuit\'s s_nodes ordering (lower-case dff kinds and latches are missing)', node=e)
    f = mod.func('StilFile._maps')
    if maps_evaluated:
        idef, cvar, uses_snodes = [], f.args.args[1].arg, True
    else:
        idef = [s for s in body_no_doc(f) if isinstance(s, ast.Assign) and is_name(s.targets[0], 'interface')]
        cvar = f.args.args[1].arg
        uses_snodes = len(idef) == 1 and cz(idef[0].value) in (f'{cvar}.s_nodes', f'list({cvar}.s_nodes)')
    rep.ob('C18.order', '_maps takes the interface from circuit.s_nodes (or an equal construction)', uses_snodes or n > 0)
    if not uses_snodes and n == 0:
        rep.violate('C18.order', mod, f, idef[0] if idef else 'interface', 'StilFile._maps: the interface list must be the circuit\'s s_nodes', node=f)
    t = [cz(s) for s in body_no_doc(f)]
    ok = 'intf_pos=dict(((n.name,i)for(i,n)inenumerate(interface)))' in [x.replace('fori,ninenumerate', 'for(i,n)inenumerate') for x in t] \
        and "pi_map=[intf_pos[n]forninself.signal_groups['_pi']]" in t and "po_map=[intf_pos[n]forninself.signal_groups['_po']]" in t
    ok = ok or maps_evaluated       # decided by C18.maps when _maps could be evaluated
    rep.ob('C18.order', 'positions by name in the interface; pi/po maps through signal groups _pi/_po', ok)
    if not ok:
        rep.violate('C18.order', mod, f, 'intf_pos / pi_map / po_map', '_maps: intf_pos must map node name -> position in the interface; pi_map/po_map must translate the _pi/_po signal groups through it', node=f)
    for q in ('StilFile.tests', 'StilFile.tests_loc', 'StilFile.responses'):
        g = mod.func(q)
        t = cz(g)
        ok = 'np.full((len(interface),len(self.patterns)),logic.UNASSIGNED)' in t and '=self._maps(circuit)' in t
        rep.ob('C18.order', f'{q}: array has len(interface) rows, initially unassigned', ok)
        if not ok:
            rep.violate('C18.order', mod, g, q, f'{q}: the result must have one row per interface (s_nodes) position and one column per pattern, initially UNASSIGNED', node=g)


def extraction(rep, mod):
    rep.rule('C18.extract', 'pattern extraction: each load_unload call closes the pattern in progress as ScanPattern(load, launch, capture, unload) and every field is re-created '
                            'afterwards (no pattern inherits a call of the previous one); *_launch / *_capture calls fill launch / capture; line breaks removed, N read as -')
    f = mod.func('StilFile.__init__')
    nt = [st for st in mod.tree.body if isinstance(st, ast.Assign) and is_name(st.targets[0], 'ScanPattern')]
    ok = len(nt) == 1 and cz(nt[0].value) == "namedtuple('ScanPattern',['load','launch','capture','unload'])"
    rep.ob('C18.extract', 'ScanPattern fields (load, launch, capture, unload)', ok)
    if not ok:
        rep.violate('C18.extract', mod, '<module>', nt[0] if nt else 'ScanPattern', 'ScanPattern must be the record (load, launch, capture, unload)', node=nt[0] if nt else None)
    loops = [l for l in find_all(f, ast.For) if cz(l.iter) == 'self.calls']
    if len(loops) != 1:
        raise ModelError('StilFile.__init__: loop over self.calls not found')
    lp = loops[0]
    cv = lp.target.id
    arms = {cz(st.test): st for st in lp.body if isinstance(st, ast.If)}
    lu = arms.get(f"{cv}.name=='load_unload'")
    if lu is None:
        rep.violate('C18.extract', mod, f, 'load_unload arm', "StilFile.__init__: no arm for call.name == 'load_unload'", node=lp)
        return
    apps = [c for c in find_all(lu, ast.Call) if call_name(c) == 'self.patterns.append' and c.args and isinstance(c.args[0], ast.Call) and call_name(c.args[0]) == 'ScanPattern']
    ok = len(apps) == 1 and [cz(a) for a in apps[0].args[0].args] == ['sload', 'launch', 'capture', 'unload']
    rep.ob('C18.extract', 'append ScanPattern(sload, launch, capture, unload)', ok)
    if not ok:
        rep.violate('C18.extract', mod, f, apps[0] if apps else 'self.patterns.append', 'a load_unload call must append ScanPattern(sload, launch, capture, unload) - in the field order (load, launch, capture, unload)', node=lu)
        return
    app_stmt = apps[0]
    while not isinstance(app_stmt, ast.stmt):
        app_stmt = app_stmt._parent
    guard = [p for p in parents(app_stmt) if isinstance(p, ast.If) and p is not lu]
    ok = len(guard) == 1 and cz(guard[0].test) == 'len(capture)>0'
    rep.ob('C18.extract', 'a pattern is closed only if a capture happened', ok)
    if not ok:
        rep.violate('C18.extract', mod, f, guard[0].test if guard else app_stmt, 'the pattern in progress must be appended exactly when a capture call was seen since the last load (len(capture) > 0)', node=lu)
    # every field re-created after the append (or fresh at the top of the arm, before the append)
    order = [st for st in ast.walk(lu) if isinstance(st, ast.stmt)]
    order.sort(key=lambda st: (st.lineno, st.col_offset))
    def fresh_sites(name):
        return [st for st in order if isinstance(st, ast.Assign) and is_name(st.targets[0], name) and cz(st.value) in ('{}', 'dict()')]
    for name in ('sload', 'launch', 'capture', 'unload'):
        sites = fresh_sites(name)
        after = [st for st in sites if (st.lineno, st.col_offset) > (app_stmt.lineno, app_stmt.col_offset)]
        before_top = [st for st in sites if st in lu.body and (st.lineno, st.col_offset) < (app_stmt.lineno, app_stmt.col_offset)]
        # a reset after the append must not be deeper nested than the append itself under a different condition
        def uncond(st):
            ps = [p for p in parents(st) if isinstance(p, (ast.If, ast.For, ast.While)) and p is not lu and p is not lp]
            return all(p in guard for p in ps)
        ok = any(uncond(st) for st in after) or bool(before_top)
        rep.ob('C18.extract', f'field {name} is re-created for the next pattern', ok, sample={'rule': 'C18.extract', 'field': name, 'reset sites': [st.lineno for st in sites]})
        if not ok:
            rep.violate('C18.extract', mod, f, f'{name} after self.patterns.append(...)', f'after a pattern is appended, `{name}` is not re-created ({name} = {{}}): the next pattern inherits the previous pattern\'s {name} call '
                        f'(e.g. a capture-only pattern after a launch+capture pattern re-uses its launch)', node=app_stmt)
    for suffix, var in (('_launch', 'launch'), ('_capture', 'capture')):
        st = arms.get(f"{cv}.name.endswith('{suffix}')")
        ok = st is not None and len(st.body) == 1 and cz(st.body[0]) in (
            f"{var}=dict(((k,v.replace('\\n','').replace('N','-'))for(k,v)in{cv}.parameters.items()))", f"{var}=dict(((k,v.replace('\\n','').replace('N','-'))fork,vin{cv}.parameters.items()))")
        rep.ob('C18.extract', f'*{suffix} call -> {var}', ok)
        if not ok:
            rep.violate('C18.extract', mod, f, st.body[0] if st is not None and st.body else f'{suffix} arm', f"a call whose name ends with '{suffix}' must set `{var}` to its parameters with line breaks removed and N read as -", node=st if st is not None else lp)
    for port, var, ports in (('so_port', 'unload', 'self.so_ports'), ('si_port', 'sload', 'self.si_ports')):
        w = f"for{port}in{ports}:if{port}in{cv}.parameters:{var}[{port}]={cv}.parameters[{port}].replace('\\n','').replace('N','-')"
        ok = any(cz(st) == w for st in lu.body)
        rep.ob('C18.extract', f'{var} collects the parameters of the {ports} ports', ok)
        if not ok:
            rep.violate('C18.extract', mod, f, f'{var} collection', f'load_unload: `{var}` must collect call.parameters[p] (line breaks removed, N -> -) for every p in {ports}', node=lu)


def twins(rep, mod):
    rep.rule('C18.twins', 'scan-load assembly of tests and tests_loc are identical; responses is their mirror (so_ports/unload/po_map)')
    from checks import c18_twins_eval
    if c18_twins_eval.decide(rep, rep.repo):
        return          # decided by evaluating tests / tests_loc / responses on a stand-in pattern set
    a, b = mod.func('StilFile.tests'), mod.func('StilFile.tests_loc')
    def load_block(f, arr):
        for lp in find_all(f, ast.For):
            if cz(lp.iter) == 'self.si_ports.keys()' and any('p.load' in cz(s) for s in lp.body) and any('np.choose' in cz(s) for s in lp.body):
                return [renamed(s, names={arr: 'ARR'}) for s in lp.body], lp
        return None, None
    ba, la = load_block(a, 'tests')
    bb, lb = load_block(b, 'init')
    ok = ba is not None and ba == bb
    rep.ob('C18.twins', 'scan-load block tests = tests_loc', ok, sample={'rule': 'C18.twins', 'block': ba})
    if not ok:
        rep.violate('C18.twins', mod, b, lb or 'scan load block', 'the scan-load blocks of tests() and tests_loc() differ', witness={'tests': ba, 'tests_loc': bb}, node=lb or b)
    want = ['pattern=logic.mvarray(p.load[si_port])',
            'inversions=np.choose((pattern==logic.UNASSIGNED)|(pattern==logic.UNKNOWN),[scan_inversions[si_port],logic.ZERO]).astype(np.uint8)',
            'np.bitwise_xor(pattern,inversions,out=pattern)', 'ARR[scan_maps[si_port],i]=pattern']
    ok = ba is not None and [x.replace(' ', '').replace('\n', '') for x in ba] == want
    rep.ob('C18.twins', 'load block: invert known values by the scan-in inversions, place through scan_maps[si_port]', ok)
    if not ok:
        rep.violate('C18.twins', mod, a, la or 'scan load block', 'scan load: pattern = mvarray(p.load[si_port]); known values are xor-ed with scan_inversions[si_port] (unknown/unassigned untouched); stored at rows scan_maps[si_port] of column i', node=la or a)
    r = mod.func('StilFile.responses')
    blk = None
    for lp in find_all(r, ast.For):
        if cz(lp.iter) == 'self.so_ports.keys()':
            blk = [cz(s) for s in lp.body]
    ok = blk == ['pattern=logic.mv_xor(logic.mvarray(p.unload[so_port]),scan_inversions[so_port])', 'resp[scan_maps[so_port],i]=pattern']
    rep.ob('C18.twins', 'responses: unload xor scan-out inversions, placed through scan_maps[so_port]', ok)
    if not ok:
        rep.violate('C18.twins', mod, r, 'unload block', 'responses: pattern = mv_xor(mvarray(p.unload[so_port]), scan_inversions[so_port]) stored at rows scan_maps[so_port]', node=r)
    t = cz(r)
    ok = "resp[po_map,i]=logic.mvarray(p.capture['_po']iflen(p.capture)>0elsep.launch['_po'])" in t
    rep.ob('C18.twins', 'responses: primary outputs through po_map', ok)
    if not ok:
        rep.violate('C18.twins', mod, r, 'resp[po_map, i]', 'responses: primary-output string must be placed through po_map', node=r)
    t = cz(a)
    ok = "tests[pi_map,i]=logic.mvarray(p.capture['_pi'])" in t
    rep.ob('C18.twins', 'tests: primary inputs through pi_map', ok)
    if not ok:
        rep.violate('C18.twins', mod, a, 'tests[pi_map, i]', 'tests: primary-input string must be placed through pi_map', node=a)
    t = cz(b)
    need = ["init[pi_map,i]=logic.mvarray(p.launch['_pi']if'_pi'inp.launchelsep.capture['_pi'])", 'sim8v=LogicSim(circuit,init.shape[-1],m=8)', 'sim8v.s[0]=logic.mv_to_bp(init)',
            'sim8v.s_to_c()sim8v.c_prop()sim8v.c_to_s()', 'launch=logic.bp_to_mv(sim8v.s[1])[...,:init.shape[-1]]', 'launch[po_map,i]=logic.UNASSIGNED', 'returnlogic.mv_transition(init,launch)']
    for w in need:
        ok = w in t
        rep.ob('C18.twins', f'tests_loc: {w[:60]}', ok)
        if not ok:
            rep.violate('C18.twins', mod, b, w[:100], f'tests_loc: `{w}` required (loaded state is simulated one cycle; loaded and next state combine through mv_transition(init, launch))', node=b)


def expr_rank(e, env, lg):
    """Shape (tuple of ints / symbols) of an expression over lists whose shapes are given in env.
    Supports logic.mvarray(x) (interpreted from its source by shape), np.array(x, ...), x[k] with a constant."""
    if isinstance(e, ast.Name):
        if e.id in env:
            return env[e.id]
        raise ModelError(f'unknown name {e.id}')
    if isinstance(e, ast.Subscript) and isinstance(e.slice, ast.Constant) and isinstance(e.slice.value, int):
        b = expr_rank(e.value, env, lg)
        if not b:
            raise ModelError('indexing a scalar')
        return b[1:]
    if isinstance(e, ast.Call) and call_name(e) in ('np.array', 'np.asarray') and e.args:
        return expr_rank(e.args[0], env, lg)
    if isinstance(e, ast.Call) and call_name(e) in ('list', 'tuple') and e.args:
        return expr_rank(e.args[0], env, lg)
    if isinstance(e, ast.BinOp) and isinstance(e.op, ast.Mult):
        for a, b in ((e.left, e.right), (e.right, e.left)):
            try:
                return expr_rank(a, env, lg)
            except ModelError:
                continue
        raise ModelError('product of unknowns')
    if isinstance(e, ast.Call) and call_name(e) == 'logic.mvarray':
        shp = (len(e.args),) + expr_rank(e.args[0], env, lg) if len(e.args) == 1 else None
        if shp is None:
            raise ModelError('mvarray with several arguments')
        return mvarray_shape(lg, shp)
    raise ModelError(f'expression {norm(e)[:60]}')


def mvarray_shape(lg, shp):
    """Abstract shape interpretation of logic.mvarray for np.array(interpret(a)) of shape `shp`
    (entries are ints or symbols standing for lengths >= 2)."""
    f = lg.func('mvarray')
    body = body_no_doc(f)
    if cz(body[0]) != 'mva=np.array(interpret(a),dtype=np.uint8)':
        raise ModelError('mvarray: first statement is not mva = np.array(interpret(a), dtype=np.uint8)')
    for st in body[1:]:
        t = cz(st)
        if t == 'ifmva.ndim<2:returnmva':
            if len(shp) < 2:
                return shp
        elif t == 'ifmva.shape[-2]>1:returnmva.swapaxes(-1,-2)':
            d = shp[-2]
            if not isinstance(d, int) or d > 1:
                return shp[:-2] + (shp[-1], shp[-2])
        elif t == 'returnmva[...,0,:]':
            return shp[:-2] + (shp[-1],)
        else:
            raise ModelError(f'mvarray: statement `{norm(st)[:60]}` outside the shape model')
    raise ModelError('mvarray: no return reached')


def maps_evaluated(rep, mod):
    """C18.maps - StilFile._maps evaluated (Engine M) on every scan chain of up to 5 entries over {cell, `!`} (plus two-chain files), with the circuit's
    ports and state elements in an order unrelated to the chain order. Returns False when _maps is outside the evaluator subset."""
    import itertools
    from kvstatic import minieval
    NS = minieval.NS
    f = mod.func('StilFile._maps')
    cls = mod.cls('StilFile')
    rep.rule('C18.maps', '_maps evaluated on all chains of <= 5 entries over {cell, "!"}: the scan map lists the interface positions of the cells from the scan-out end to '
                         'the scan-in end; the scan-in (scan-out) inversion of a cell is the parity of the markers between scan-in (scan-out) and the cell, in scan-map order, '
                         'as a logic.mvarray vector; both ports of a chain share the map; pi/po maps translate the _pi/_po groups by name; the interface is circuit.s_nodes')

    def mvarray(*a):
        if len(a) == 1 and isinstance(a[0], list):
            return ('mv', tuple(a[0]))
        return ('mv?', minieval.freeze(a))
    logic = NS(mvarray=minieval.stub(mvarray))
    names = ['a', 'b', 'z', 'c1', 'c2', 'c3', 'c4', 'c5']
    order = ['c3', 'b', 'c1', 'z', 'c5', 'a', 'C1', 'c2', 'A', 'c4']           # s_nodes order, deliberately unrelated to chain order; names differing only in case
    s_nodes = [NS(name=n, index=10 + k, kind='X') for k, n in enumerate(order)]
    pos = {n: k for k, n in enumerate(order)}
    circuit = NS(s_nodes=s_nodes, io_nodes=[x for x in s_nodes if x.name in ('a', 'A', 'b', 'z')])
    bad = None
    ncase = 0

    def expect(chain):
        cells = [(k, x) for k, x in enumerate(chain[1:-1]) if x != '!']
        body = chain[1:-1]
        smap = [pos[x] for _k, x in reversed(cells)]
        sin = [sum(1 for y in body[:k] if y == '!') % 2 == 1 for k, _x in reversed(cells)]
        sout = [sum(1 for y in body[k + 1:] if y == '!') % 2 == 1 for k, _x in reversed(cells)]
        return smap, ('mv', tuple(sin)), ('mv', tuple(sout))
    shapes = [p for n in range(0, 6) for p in itertools.product('C!', repeat=n)]
    cases = []
    for sh in shapes:
        k = 0
        body = []
        for ch in sh:
            if ch == 'C':
                k += 1
                body.append(f'c{k}')
            else:
                body.append('!')
        cases.append({'1': ['si1'] + body + ['so1']})
    cases.append({'1': ['si1', 'c2', '!', 'c1', 'so1'], '2': ['si2', '!', 'c4', 'c3', '!', '!', 'c5', 'so2']})
    cases.append({'1': ['si1', 'c5', 'so1'], '2': ['si2', 'c1', '!', 'so2']})
    cases.append({'1': ['si1', 'c1', '!', 'C1', 'so1']})
    for chains in cases:
        ncase += 1
        me = NS(signal_groups={'_pi': ['b', 'a', 'A'], '_po': ['z'], '_si': ['si1'], '_so': ['so1']}, scan_chains={k: list(v) for k, v in chains.items()},
                si_ports={}, so_ports={}, patterns=[])
        genv = {'logic': logic}
        minieval.bind_class(me, cls, genv, skip=('__init__', '_maps', 'tests', 'tests_loc', 'responses'))
        minieval.module_functions(mod.tree, genv)
        try:
            got = minieval.call_function(f, [me, circuit], genv)
        except ModelError:
            raise
        except (IndexError, KeyError, TypeError, AttributeError, ValueError, RuntimeError) as e:
            got = f'{type(e).__name__}: {e}'
        why = None
        if not (isinstance(got, tuple) and len(got) == 5):
            why = f'returns {str(got)[:120]} instead of (interface, pi_map, po_map, scan_maps, scan_inversions)'
        else:
            interface, pi_map, po_map, scan_maps, scan_inv = got
            if list(interface) != s_nodes:
                why = 'the interface is not circuit.s_nodes'
            elif list(pi_map) != [pos['b'], pos['a'], pos['A']] or list(po_map) != [pos['z']]:
                why = f'pi_map / po_map = {list(pi_map)} / {list(po_map)}; the _pi group [b, a, A] and the _po group [z] sit at {[pos["b"], pos["a"], pos["A"]]} / {[pos["z"]]}'
            else:
                for key, chain in chains.items():
                    smap, sin, sout = expect(chain)
                    si, so = chain[0], chain[-1]
                    if not isinstance(scan_maps, dict) or list(scan_maps.get(si, ['?'])) != smap or list(scan_maps.get(so, ['?'])) != smap:
                        why = f'scan map of chain {chain} is {scan_maps.get(si) if isinstance(scan_maps, dict) else scan_maps} / {scan_maps.get(so) if isinstance(scan_maps, dict) else ""}; the cells from scan-out to scan-in sit at {smap}'
                    elif scan_inv.get(si) != sin:
                        why = f'scan-in inversions of chain {chain} are {scan_inv.get(si)}; the marker parities between scan-in and each cell (scan-map order) are {sin}'
                    elif scan_inv.get(so) != sout:
                        why = f'scan-out inversions of chain {chain} are {scan_inv.get(so)}; the marker parities between each cell and scan-out (scan-map order) are {sout}'
                    if why:
                        break
        if why and bad is None:
            bad = why
    ok = bad is None
    rep.ob('C18.maps', f'_maps on {ncase} scan-chain layouts', ok, evals=ncase)
    if not ok:
        rep.violate('C18.maps', mod, f, '_maps', f'StilFile._maps: {bad}', node=f)
    rep.floor('scan-chain layouts _maps was evaluated on', ncase, 60)
    return True


def chain_orientation(rep, mod, repo_logic=None):
    rep.rule('C18.chain', '_maps: scan_map and scan-out inversions are filled over the reversed cell list; scan-in inversions are accumulated forward and reversed once; "!" toggles, anything else is a cell; both ports share one scan_map')
    f = mod.func('StilFile._maps')
    outer = [lp for lp in find_all(f, ast.For) if cz(lp.iter) == 'self.scan_chains.values()']
    if len(outer) != 1:
        raise ModelError('StilFile._maps: loop over scan chains not found')
    lp = outer[0]
    ch = lp.target.id
    inner = [s for s in lp.body if isinstance(s, ast.For)]
    ok = len(inner) == 2 and cz(inner[0].iter) == f'{ch}[1:-1]' and cz(inner[1].iter) == f'reversed({ch}[1:-1])'
    rep.ob('C18.chain', 'forward pass then reversed pass over chain[1:-1]', ok)
    if not ok:
        rep.violate('C18.chain', mod, f, inner[1].iter if len(inner) > 1 else lp, '_maps: first pass forward over chain[1:-1] (scan-in inversions), second pass over reversed(chain[1:-1]) (scan map and scan-out inversions)', node=lp)
        return
    n1, n2 = inner[0].target.id, inner[1].target.id
    b1 = [cz(s) for s in inner[0].body]
    b2 = [cz(s) for s in inner[1].body]
    ok = b1 == [f"if{n1}=='!':inversion=notinversionelse:scan_in_inversion.append(inversion)"]
    rep.ob('C18.chain', 'forward pass: "!" toggles, cell records the inversion so far', ok)
    if not ok:
        rep.violate('C18.chain', mod, f, inner[0], '_maps forward pass: `!` must toggle the running inversion, every other entry records it for the scan-in side', node=inner[0])
    ok = b2 == [f"if{n2}=='!':inversion=notinversionelse:scan_map.append(intf_pos[{n2}])scan_out_inversion.append(inversion)"]
    rep.ob('C18.chain', 'reversed pass: "!" toggles, cell appends its interface position and the inversion so far', ok, sample={'rule': 'C18.chain', 'reversed pass': norm(inner[1])[:300]})
    if not ok:
        rep.violate('C18.chain', mod, f, inner[1], '_maps reversed pass: `!` must toggle the running inversion, every other entry appends intf_pos[cell] to scan_map and the inversion so far to the scan-out side (one loop for both)', node=inner[1])
    seq = [cz(s) for s in lp.body]
    def pos(w):
        return seq.index(w) if w in seq else -1
    i_rev = pos('scan_in_inversion=list(reversed(scan_in_inversion))')
    resets = [k for k, s in enumerate(seq) if s == 'inversion=False']
    k1, k2 = lp.body.index(inner[0]), lp.body.index(inner[1])
    ok = len(resets) == 2 and resets[0] < k1 < i_rev < resets[1] < k2 and seq.count('scan_in_inversion=list(reversed(scan_in_inversion))') == 1
    rep.ob('C18.chain', 'inversion reset before each pass; scan-in inversions reversed exactly once between the passes', ok)
    if not ok:
        rep.violate('C18.chain', mod, f, 'inversion = False / reversed(scan_in_inversion)', '_maps: the running inversion must restart at False before each pass and the scan-in inversion list must be reversed exactly once (to the scan-map order)', node=lp)
    need = [f'scan_maps[{ch}[0]]=scan_map', f'scan_maps[{ch}[-1]]=scan_map']
    for w in need:
        ok = w in seq
        rep.ob('C18.chain', w, ok)
        if not ok:
            rep.violate('C18.chain', mod, f, w, f'_maps: `{w}` required (scan-in port = chain[0], scan-out port = chain[-1]; both share the scan map)', node=lp)
    # inversion vectors: one entry per scan cell (rank 1), from the right list, for the right port
    rep.rule('C18.rank', 'the inversion value stored per port is a vector with one entry per scan cell (shape interpretation of logic.mvarray), not a scalar')
    for key, src in ((f'{ch}[0]', 'scan_in_inversion'), (f'{ch}[-1]', 'scan_out_inversion')):
        st = [x for x in lp.body if isinstance(x, ast.Assign) and cz(x.targets[0]) == f'scan_inversions[{key}]']
        if len(st) != 1:
            rep.ob('C18.chain', f'scan_inversions[{key}]', False)
            rep.violate('C18.chain', mod, f, f'scan_inversions[{key}]', f'_maps: scan_inversions[{key}] must be assigned once per chain', node=lp)
            continue
        v = st[0].value
        names = {x.id for x in ast.walk(v) if isinstance(x, ast.Name)}
        ok = src in names and not ({'scan_in_inversion', 'scan_out_inversion'} - {src}) & names
        rep.ob('C18.chain', f'scan_inversions[{key}] built from {src}', ok)
        if not ok:
            rep.violate('C18.chain', mod, f, st[0], f'_maps: scan_inversions[{key}] must be built from {src} (inversions between that port and each cell)', node=st[0])
        try:
            rk = expr_rank(v, {'scan_in_inversion': ('n',), 'scan_out_inversion': ('n',)}, repo_logic)
        except ModelError as e:
            raise ModelError(f'_maps: shape of `{norm(v)}` not analysable: {e}')
        # ... of logic values: booleans become ZERO/ONE through logic.mvarray (True as a raw integer 1 is the code of UNKNOWN)
        enc = isinstance(v, ast.Call) and (call_name(v) or '').split('.')[-1] == 'mvarray'
        rep.ob('C18.rank', f'scan_inversions[{key}] is encoded by logic.mvarray', enc)
        if not enc:
            rep.violate('C18.rank', mod, f, st[0], f'_maps: `{norm(st[0])[:90]}` does not encode the inversion flags with logic.mvarray: the flags are booleans, and only mvarray maps True to ONE '
                        f'(0b011); a plain integer array stores 1 = UNKNOWN, so mv_xor turns every inverted cell into X', node=st[0])
        ok = rk == ('n',)
        rep.ob('C18.rank', f'scan_inversions[{key}] = {norm(v)} has shape {rk}', ok, sample={'rule': 'C18.rank', 'expr': norm(v), 'shape': list(rk)})
        if not ok:
            rep.violate('C18.rank', mod, f, st[0], f'_maps: `{norm(st[0])}` has shape {rk} but must have one entry per scan cell (shape (n,)): with a scalar the inversion of the first cell is applied to every cell of the chain, '
                        f'so markers in the middle of a chain are mis-applied', node=st[0])


def chain_ends(rep, mod):
    """the parts of the chain rules outside _maps: which element of a chain names the scan-in / scan-out port"""
    rep.rule('C18.chain', 'a chain is [scan_in] + cells and markers in file order + [scan_out]; si_ports is keyed by its first, so_ports by its last element')
    init = mod.func('StilFile.__init__')
    t = [cz(s) for s in body_no_doc(init)]
    ok = 'self.si_ports=dict(((v[0],k)for(k,v)inscan_chains.items()))' in [x.replace('fork,vin', 'for(k,v)in') for x in t] and 'self.so_ports=dict(((v[-1],k)for(k,v)inscan_chains.items()))' in [x.replace('fork,vin', 'for(k,v)in') for x in t]
    rep.ob('C18.chain', 'si_ports keyed by chain[0], so_ports by chain[-1]', ok)
    if not ok:
        rep.violate('C18.chain', mod, init, 'si_ports / so_ports', 'StilFile.__init__: si_ports must be keyed by the first, so_ports by the last element of each chain', node=init)
    tr = mod.func('StilTransformer.scan_chain')
    t = cz(tr)
    ok = 'return(args[0],[scan_in]+scan_cells+[scan_out])' in t
    rep.ob('C18.chain', 'scan_chain result = [scan_in] + cells + [scan_out]', ok)
    if not ok:
        rep.violate('C18.chain', mod, tr, 'return args[0], [scan_in] + scan_cells + [scan_out]', 'scan_chain must return (name, [scan_in] + scan cells (with "!" markers, in file order) + [scan_out])', node=tr)


def transition_table(rep, repo):
    rep.rule('C18.transition', 'mv_transition over all 8x8 pairs: known x known -> (initial of init, final of final), activity = their xor; any unknown -> X; both unassigned -> -')
    lg = Logic(repo)
    f = lg.func('mv_transition')
    try:
        res0, ret, steps = lg.mv_table_args('mv_transition', 2, junk=0)
        res1, _, _ = lg.mv_table_args('mv_transition', 2, junk=1)
    except LaneViolation as e:
        rep.ob('C18.transition', 'mv_transition', False)
        rep.violate('C18.transition', lg.mod, f, e.node if e.node is not None else 'mv_transition', f'mv_transition: {e}', node=e.node or f)
        return
    bad = []
    for row in range(64):
        a, b = row % 8, row // 8
        ua, ub = oracle._unk(a), oracle._unk(b)
        if a == 2 and b == 2:
            exp = 2
        elif ua or ub:
            exp = 1
        else:
            i, fn = (a >> 1) & 1, b & 1
            exp = fn | (i << 1) | ((i ^ fn) << 2)
        if res0[row] != exp or res1[row] != exp:
            bad.append((row, exp))
    ok = not bad
    rep.ob('C18.transition', 'mv_transition 64 rows', ok, evals=64, sample={'rule': 'C18.transition', 'rows': 64, 'example': {'init': 'F', 'final': 'R', 'result': CH[res0[6 + 8 * 5] & 7]}})
    if not ok:
        row, exp = bad[0]
        rep.violate('C18.transition', lg.mod, f, 'mv_transition', f'mv_transition differs from the documented transition semantics on {len(bad)} of 64 value pairs',
                    witness={'init': CH[row % 8], 'final': CH[row // 8], 'code': CH[res0[row] & 7] if res0[row] < 8 else hex(res0[row]), 'expected': CH[exp]}, node=f)
    if not ret:
        rep.violate('C18.transition', lg.mod, f, 'return out', 'mv_transition must return its out array', node=f)


def stil_grammar(rep, mod, extract_evaluated=False):
    rep.rule('C18.grammar', 'STIL grammar <-> StilTransformer: arity, kind, exhaustiveness, no dead callback; "!" markers are kept in scan_cells')
    text, gnode = grammar.extract_grammar(mod)
    G = grammar.Grammar(text, 'stil')
    consumed = ('scan_in', 'scan_out', 'scan_cells', 'scan_length', 'scan_inversion', 'scan_master_clock', 'label', 'w', 'c', 'macro', 'ann')
    methods, handlers, n = grammar.check_agreement(rep, 'C18.grammar', mod, G, 'StilTransformer', consumed_as_tree=consumed)
    rep.floor('STIL callbacks analysed', n, 8)
    if extract_evaluated:
        return        # what the callbacks make of the trees is decided by the evaluated rule C18.extract
    # the Tree-consumed rules that scan_chain inspects by name must exist in the grammar
    sc = methods.get('scan_chain')
    names = [n.comparators[0].value for n in ast.walk(sc) if isinstance(n, ast.Compare) and cz(n.left) == 't.data' and isinstance(n.comparators[0], ast.Constant)]
    for nm in names:
        ok = nm in G.alts
        rep.ob('C18.grammar', f'scan_chain inspects rule {nm}', ok)
        if not ok:
            rep.violate('C18.grammar', mod, sc, f"t.data == '{nm}'", f'scan_chain looks for a child tree named {nm!r} that the grammar cannot produce (the chain would silently lose that part)', node=sc)
    ok = sorted(names) == ['scan_cells', 'scan_in', 'scan_out']
    rep.ob('C18.grammar', 'scan_chain reads scan_in, scan_out, scan_cells', ok)
    if not ok:
        rep.violate('C18.grammar', mod, sc, f'{sorted(names)}', 'scan_chain must extract scan_in, scan_out and scan_cells', node=sc)
    seqs = G.sequences(G.alts['scan_cells'][0][0]) | (G.sequences(G.alts['scan_cells'][1][0]) if len(G.alts['scan_cells']) > 1 else set())
    kinds = {k for s in seqs for k in s}
    ok = any(k.startswith('T:') for k in kinds) and 'R:quoted' in kinds
    rep.ob('C18.grammar', f'scan_cells keeps quoted names and the "!" token: {sorted(kinds)}', ok)
    if not ok:
        rep.violate('C18.grammar', mod, '<module>', 'scan_cells', f'grammar rule scan_cells must keep both the quoted cell names and the `!` inversion markers as children; kept kinds: {sorted(kinds)}', node=gnode)
    q = methods.get('quoted')
    ok = cz(body_no_doc(q)[0]) == 'returnargs[0][1:-1]'
    rep.ob('C18.grammar', 'quoted strips the quotes', ok)
    if not ok:
        rep.violate('C18.grammar', mod, q, 'quoted', 'quoted must return the text without its surrounding quotes', node=q)
    t = cz(sc)
    ok = "scan_cells=[n.replace('.SI','')fornint.children]" in t and "scan_cells=[re.sub('.*\\\\.','',s)if'.'inselsesforsinscan_cells]" in t
    rep.ob('C18.grammar', 'scan cell names reduced to the instance name', ok)
    if not ok:
        rep.violate('C18.grammar', mod, sc, 'scan cell name clean-up', 'scan_chain must strip the `.SI` pin suffix and any hierarchy prefix from scan cell names (and keep `!` unchanged)', node=sc)


def thorough(rep, repo):
    """Thorough tier: the quick rules plus checker self-validation on the C18 slice of the mutation corpus."""
    from kvstatic import thorough as thorough_mod
    thorough_mod.selftest_slice(rep, repo, 'C18')
