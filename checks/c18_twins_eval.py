"""C18.twins evaluated (Engine M with array stand-ins): StilFile.tests / tests_loc / responses - their own statements - are run on a stand-in pattern
set and the arrays they return are compared with what the property states:
  tests      rows of each scan-in chain = the load string, known values inverted where the chain's inversion vector says so (unknown / unassigned stay
             unknown); primary-input rows = capture['_pi'] through pi_map; every other row unassigned
  responses  rows of each scan-out chain = the unload string with the scan-out inversions; primary-output rows = capture['_po'] (launch['_po'] when the
             pattern has no capture call) through po_map; every other row unassigned
  tests_loc  init = loaded state + launch (or capture) primary inputs, passed through init_filter; launch = the 8-valued logic simulation of init
             (s_to_c, c_prop, c_to_s of a simulator for exactly the pattern count), cut to the pattern count; for patterns without a launch clock the scan
             rows of launch are the loaded state; capture primary inputs with a clock pulse override the launch inputs; output rows unassigned;
             launch_filter; result = mv_transition(init, launch).
The stand-ins: `_maps` returns permuted row maps and inversion vectors for two chains (2 and 3 cells); `logic` is a table-driven stand-in (mvarray, mv_xor with the
documented 4-valued meaning, mv_to_bp / bp_to_mv as tagged wrappers, mv_transition as a pairing); LogicSim is a recording stand-in whose "next state" is a fixed
elementwise function and whose result carries extra columns that must be cut off. Bounded evaluation of the assembly code on one pattern family."""
from __future__ import annotations

import ast

from kvstatic.core import ModelError
from kvstatic import minieval, ndarr
from kvstatic.minieval import NS, stub
from kvstatic.ndarr import NDArr, DType

RAISES = (IndexError, KeyError, TypeError, ValueError, AttributeError, ZeroDivisionError, RuntimeError, UnboundLocalError)
_MEMO = {}


def logic_constants(repo):
    lm = repo.mod('logic')
    out = {}
    for st in lm.tree.body:
        if isinstance(st, ast.Assign) and len(st.targets) == 1 and isinstance(st.targets[0], ast.Name) and st.targets[0].id in (
                'ZERO', 'UNKNOWN', 'UNASSIGNED', 'ONE', 'PPULSE', 'RISE', 'FALL', 'NPULSE'):
            out[st.targets[0].id] = minieval.ev(st.value, {})
    if len(out) != 8 or len(set(out.values())) != 8:
        raise ModelError('logic.py: the eight value constants were not found')
    return out


def raw(repo):
    mod = repo.mod('stil')
    L = logic_constants(repo)
    CH = {'0': L['ZERO'], '1': L['ONE'], 'X': L['UNKNOWN'], '-': L['UNASSIGNED'], 'P': L['PPULSE'], 'N': L['NPULSE'], 'R': L['RISE'], 'F': L['FALL']}
    known = (L['ZERO'], L['ONE'])

    def codes(text):
        return [CH[c] for c in text]

    def xor4(v, inv):
        if v in known and inv in known:
            return L['ONE'] if (v == L['ONE']) != (inv == L['ONE']) else L['ZERO']
        return L['UNKNOWN']

    def nxt(v):           # the stand-in circuit: every position is complemented (unknown stays unknown)
        return L['ONE'] if v == L['ZERO'] else L['ZERO'] if v == L['ONE'] else L['UNKNOWN']
    # ---- the interface: rows 0,1 PI; 2,3 PO; 4,5 chain A; 6,7,8 chain B
    n = 9
    pi_map, po_map = [1, 0], [3, 2]
    rows = {'siA': [5, 4], 'siB': [6, 8, 7]}
    inv_in = {'siA': [L['ONE'], L['ZERO']], 'siB': [L['ZERO'], L['ONE'], L['ONE']]}
    inv_out = {'soA': [L['ZERO'], L['ONE']], 'soB': [L['ONE'], L['ONE'], L['ZERO']]}
    so_rows = {'soA': rows['siA'], 'soB': rows['siB']}
    pats = [
        dict(load={'siA': '01', 'siB': '1X0'}, unload={'soA': '10', 'soB': '0-1'}, launch={}, capture={'_pi': '01', '_po': '1X'}),
        dict(load={'siA': '1-', 'siB': '001'}, unload={'soA': '0X', 'soB': '111'}, launch={'_pi': '1P', '_po': '01'}, capture={'_pi': '0P', '_po': '11'}),
        dict(load={'siA': '11', 'siB': '010'}, unload={'soA': '01', 'soB': '100'}, launch={'_pi': '10', '_po': '00'}, capture={'_pi': '1P', '_po': '10'}),
        dict(load={'siA': '00', 'siB': 'X11'}, unload={'soA': '11', 'soB': '00X'}, launch={'_pi': 'P1', '_po': '11'}, capture={'_pi': '01', '_po': '0X'}),
    ]
    pats_resp = pats + [dict(load={'siA': '10', 'siB': '110'}, unload={'soA': '00', 'soB': '101'}, launch={'_pi': '01', '_po': '10'}, capture={})]

    def mk_env():
        genv = {}
        calls = {'maps': 0}

        def mvarray(*a):
            if len(a) != 1 or not isinstance(a[0], str):
                raise ModelError('logic.mvarray of something else than one string')
            return NDArr(codes(a[0]), dt=DType('uint8'))

        def mv_xor(a, b, out=None):
            if out is not None:
                raise ModelError('logic.mv_xor with out=')
            r = ndarr._bc(ndarr._raw(a), ndarr._raw(b), xor4)
            return NDArr(r, dt=DType('uint8'))

        def mv_to_bp(a):
            return NS(tag='bp', of=NDArr(a))

        def bp_to_mv(b):
            if not (isinstance(b, NS) and getattr(b, 'tag', None) == 'bp'):
                raise ModelError('logic.bp_to_mv of something that is not a bit-parallel array of the stand-in simulator')
            d = b.of.tolist()
            pad = (-len(d[0])) % 8 or 8
            return NDArr([r + [L['NPULSE']] * pad for r in d], dt=DType('uint8'))       # a byte-padded result: the extra columns must be cut off

        def mv_transition(a, b):
            r = ndarr._bc(ndarr._raw(a), ndarr._raw(b), lambda x, y: 100 + 10 * x + y)
            return NDArr(r)
        genv['logic'] = NS(mvarray=stub(mvarray), mv_xor=stub(mv_xor), mv_to_bp=stub(mv_to_bp), bp_to_mv=stub(bp_to_mv), mv_transition=stub(mv_transition), **L)

        def bitwise_xor(a, b, out=None):
            r = ndarr._bc(ndarr._raw(a), ndarr._raw(b), lambda x, y: x ^ y)
            if out is not None:
                if not isinstance(out, NDArr):
                    raise ModelError('np.bitwise_xor with an out= that is not an array')
                out.d = r
                return out
            return NDArr(r, dt=getattr(a, 'dt', None))
        genv['np'] = ndarr.numpy_ns(bitwise_xor=bitwise_xor)
        sims = []

        def LogicSim(circuit, sims_n=8, m=8, **kw):
            if kw:
                raise ModelError('LogicSim with further keywords')
            me = NS(tag='sim', circuit=circuit, sims=sims_n, m=m, s=[None, None], log=[])

            def c_to_s():
                me.log.append('c_to_s')
                src = me.s[0]
                if me.log == ['s_to_c', 'c_prop', 'c_to_s'] and isinstance(src, NS) and getattr(src, 'tag', None) == 'bp':
                    me.s[1] = NS(tag='bp', of=NDArr(ndarr._map(src.of.tolist(), nxt)))
                else:
                    me.s[1] = NS(tag='bp', of=NDArr(ndarr._map(src.of.tolist(), lambda v: L['FALL']))) if isinstance(src, NS) else None
            me.s_to_c = stub(lambda: me.log.append('s_to_c'))
            me.c_prop = stub(lambda *a, **k: me.log.append('c_prop'))
            me.c_to_s = stub(c_to_s)
            sims.append(me)
            return me
        genv['LogicSim'] = stub(LogicSim)
        minieval.module_functions(mod.tree, genv)
        return genv, sims

    def instance(genv, plist, si=True):
        me = NS(patterns=[NS(**{k: dict(v) if isinstance(v, dict) else v for k, v in p.items()}) for p in plist],
                si_ports={'siA': None, 'siB': None}, so_ports={'soA': None, 'soB': None})
        circuit = NS(tag='circuit')

        def maps(c):
            if c is not circuit:
                raise ModelError('_maps called with another circuit')
            sm = {k: NDArr(v) for k, v in rows.items()}
            sm.update({k: NDArr(v) for k, v in so_rows.items()})
            si = {k: NDArr(v, dt=DType('uint8')) for k, v in inv_in.items()}
            si.update({k: NDArr(v, dt=DType('uint8')) for k, v in inv_out.items()})
            return ([NS(tag=f'n{k}') for k in range(n)], NDArr(pi_map), NDArr(po_map), sm, si)
        me._maps = stub(maps)
        minieval.bind_class(me, mod.cls('StilFile'), genv, skip=('__init__', '_maps'))
        return me, circuit

    U = L['UNASSIGNED']

    def blank(cols):
        return [[U] * cols for _ in range(n)]

    def put_scan(arr, i, p, field, inv, rws, exact_unknown):
        """expected scan rows; unknown / unassigned positions: exact_unknown -> kept as they are, else 'any unknown'"""
        for port, rr in rws.items():
            text = p[field][port]
            for k, r in enumerate(rr):
                v = CH[text[k]]
                if v in known:
                    arr[r][i] = xor4(v, inv[port][k])
                else:
                    arr[r][i] = v if exact_unknown else '?'

    def same(got, exp):
        if len(got) != len(exp) or any(len(a) != len(b) for a, b in zip(got, exp)):
            return f'shape {len(got)} x {len(got[0]) if got else 0} instead of {len(exp)} x {len(exp[0])}'
        for r, (ga, ea) in enumerate(zip(got, exp)):
            for c, (g, e) in enumerate(zip(ga, ea)):
                if e == '?':
                    if g in known:
                        return f'row {r}, pattern {c}: {g} where the scan string is unknown / unassigned (must stay unknown)'
                elif g != e:
                    return f'row {r}, pattern {c}: value {g}, expected {e}'
        return None
    bad = {}
    # ---------------- tests
    genv, _ = mk_env()
    me, circuit = instance(genv, pats)
    try:
        got = minieval.call_function(mod.func('StilFile.tests'), [me, circuit], genv)
        exp = blank(len(pats))
        for i, p in enumerate(pats):
            put_scan(exp, i, p, 'load', inv_in, rows, True)
            for k, r in enumerate(pi_map):
                exp[r][i] = CH[p['capture']['_pi'][k]]
        why = same(got.tolist(), exp) if isinstance(got, NDArr) else f'returns {type(got).__name__}'
        if why:
            bad['tests'] = f'tests(): {why} (rows: primary inputs {pi_map}, chain siA {rows["siA"]} with scan-in inversions {inv_in["siA"]}, chain siB {rows["siB"]} with {inv_in["siB"]})'
    except RAISES as ex:
        bad['tests'] = f'tests() raises {type(ex).__name__}: {ex}'
    # ---------------- responses
    genv, _ = mk_env()
    me, circuit = instance(genv, pats_resp)
    try:
        got = minieval.call_function(mod.func('StilFile.responses'), [me, circuit], genv)
        exp = blank(len(pats_resp))
        for i, p in enumerate(pats_resp):
            put_scan(exp, i, p, 'unload', inv_out, so_rows, False)
            text = p['capture']['_po'] if len(p['capture']) > 0 else p['launch']['_po']
            for k, r in enumerate(po_map):
                exp[r][i] = CH[text[k]]
        why = same(got.tolist(), exp) if isinstance(got, NDArr) else f'returns {type(got).__name__}'
        if why:
            bad['responses'] = f'responses(): {why} (rows: primary outputs {po_map}, chain soA {so_rows["soA"]} with scan-out inversions {inv_out["soA"]}, chain soB {so_rows["soB"]} with {inv_out["soB"]})'
    except RAISES as ex:
        bad['responses'] = f'responses() raises {type(ex).__name__}: {ex}'
    # ---------------- tests_loc
    for filters in (False, True):
        genv, sims = mk_env()
        me, circuit = instance(genv, pats)
        fn = mod.func('StilFile.tests_loc')
        params = [a.arg for a in fn.args.args][2:]
        if params != ['init_filter', 'launch_filter']:
            raise ModelError(f'tests_loc has other parameters than (circuit, init_filter, launch_filter): {params}')

        def f_init(a):
            return NDArr(ndarr._map(a.tolist(), lambda v: L['ZERO'] if v == U else v), dt=a.dt)

        def f_launch(a):
            return NDArr(ndarr._map(a.tolist(), lambda v: L['ONE'] if v == L['UNKNOWN'] else v), dt=a.dt)
        try:
            got = minieval.call_function(fn, [me, circuit] + ([stub(f_init), stub(f_launch)] if filters else [None, None]), genv)
        except RAISES as ex:
            bad.setdefault('tests_loc', f'tests_loc({"with" if filters else "without"} filters) raises {type(ex).__name__}: {ex}')
            continue
        init = blank(len(pats))
        for i, p in enumerate(pats):
            put_scan(init, i, p, 'load', inv_in, rows, True)
            text = p['launch']['_pi'] if '_pi' in p['launch'] else p['capture']['_pi']
            for k, r in enumerate(pi_map):
                init[r][i] = CH[text[k]]
        if filters:
            init = [[L['ZERO'] if v == U else v for v in r] for r in init]
        launch = [[nxt(v) for v in r] for r in init]
        for i, p in enumerate(pats):
            clocked = '_pi' in p['launch'] and 'P' in p['launch']['_pi'] and 'P' in p['capture']['_pi']
            if not clocked:
                put_scan(launch, i, p, 'load', inv_in, rows, False)
            if '_pi' in p['capture'] and 'P' in p['capture']['_pi']:
                for k, r in enumerate(pi_map):
                    launch[r][i] = CH[p['capture']['_pi'][k]]
            for r in po_map:
                launch[r][i] = U
        if filters:
            launch = [[(L['ONE'] if v == L['UNKNOWN'] else v) if v != '?' else '?' for v in r] for r in launch]
        why = None
        if len(sims) != 1:
            why = f'{len(sims)} logic simulators are constructed'
        elif sims[0].circuit is not circuit or sims[0].m != 8 or sims[0].sims != len(pats):
            why = f'the simulator is constructed with m={sims[0].m}, sims={sims[0].sims} (expected the circuit, {len(pats)} patterns, m=8)'
        elif sims[0].log != ['s_to_c', 'c_prop', 'c_to_s']:
            why = f'the simulator runs {sims[0].log} (expected s_to_c, c_prop, c_to_s once each, in this order)'
        elif not isinstance(got, NDArr):
            why = f'returns {type(got).__name__}'
        else:
            g = got.tolist()
            if len(g) != n or any(len(r) != len(pats) for r in g):
                why = f'result has shape {len(g)} x {len(g[0]) if g else 0}, expected {n} x {len(pats)}'
            else:
                for r in range(n):
                    for c in range(len(pats)):
                        v = g[r][c]
                        gi, gl = (v - 100) // 10, (v - 100) % 10
                        ei, el = init[r][c], launch[r][c]
                        unk_ok = (L['ONE'], U) if filters else (L['UNKNOWN'], U)      # an unknown scan value: unknown or unassigned (the launch filter of the rule turns unknown into 1)
                        if gi != ei or (el == '?' and gl not in unk_ok) or (el != '?' and gl != el):
                            why = why or (f'row {r}, pattern {c}: (initial, launch) = ({gi}, {gl}), expected ({ei}, {"unknown" if el == "?" else el}) '
                                          f'[pattern {c}: launch {pats[c]["launch"]}, capture {pats[c]["capture"]}]')
        if why:
            bad.setdefault('tests_loc', f'tests_loc({"with" if filters else "without"} filters): {why}')
    return {'bad': bad}


TEXT = {'tests': 'tests(): loaded scan values (known ones inverted by the scan-in inversions) at the chain rows, capture primary inputs through pi_map',
        'responses': 'responses(): unload values with the scan-out inversions at the chain rows, primary outputs through po_map',
        'tests_loc': 'tests_loc(): loaded state simulated one cycle (8-valued), launch / capture clocks decide which state and inputs are combined; outputs unassigned; filters applied'}


def decide(rep, repo):
    """C18.twins by evaluation; False when the assembly functions are outside the evaluator subset"""
    from kvstatic.core import cached_rules
    mod = repo.mod('stil')
    try:
        if id(repo) not in _MEMO:
            _MEMO[id(repo)] = cached_rules(rep, repo, 'c18_twins_eval.raw', ['stil', 'logic'], lambda r: raw(repo))
        res = _MEMO[id(repo)]
    except ModelError as e:
        rep.note(f'C18.twins: tests / tests_loc / responses are outside the evaluated subset ({e}); the statement rules decide')
        return False
    for part in ('tests', 'responses', 'tests_loc'):
        ok = part not in res['bad']
        fn = mod.func('StilFile.' + part)
        rep.ob('C18.twins', f'evaluated on a stand-in pattern set (two chains, permuted maps, clocked / unclocked launches): {TEXT[part]}', ok,
               sample={'rule': 'C18.twins', 'function': part, 'verdict': 'as stated' if ok else res['bad'][part]})
        if not ok:
            rep.violate('C18.twins', mod, fn, f'{part}: assembled array', res['bad'][part], node=fn)
    return True
