"""C11 - parsed Verilog and bench netlists simulate as the described netlist: STRUCTURAL NECESSARY CONDITIONS ONLY.

The property quantifies over netlist texts; its behaviour (simulated function = described function) is not decided
here. What is decided are clauses that are visible in the shape of verilog.py / bench.py and that are genuine
necessary conditions (breaking one breaks the behaviour): grammar/transformer agreement, the range formula, port
position bookkeeping, pin/signal pairing at the two connection sites, MSB-first expansion of sized constants,
escaped-name stripping, driver order and cell/fork pairing in the bench transformer, and that the branch-fork
option only inserts a fork. See the MANIFEST level_note for what this does not cover.
"""
from __future__ import annotations

import ast

from kvstatic.core import Repo, Report, ModelError, AnchorError, norm
from kvstatic import grammar
from kvstatic.paths import cz, czs, guard_texts
from kvstatic.astutil import find_all, attr_chain, is_name, call_name, body_no_doc, target_names, walk_no_nested_funcs, parents, enclosing


def run(rep: Report, repo: Repo):
    rep.explanation = (
        'PARTIAL: only structural necessary conditions of C11 are decided (named rule by rule); the behavioural statement '
        '"simulates as the described netlist" for arbitrary netlist texts is NOT decided by this check. Decided: the Verilog and bench '
        'grammars (compiled with the repository\'s lark) agree with their transformers in arity/kind/exhaustiveness; the range() formula is '
        'evaluated over all (left, right) in 0..7 against "from left to right inclusive"; ports get consecutive positions in declaration '
        'order with bus bits in range order; at both connection sites the pin name and the signal come from the same pin-map item and the '
        'pin position is looked up for the instantiated cell type; sized constants expand MSB first; escaped identifiers lose exactly the '
        'backslash and the terminating blank; the bench transformer creates cell + same-named fork and connects drivers in argument order; '
        'the branch-fork option inserts exactly one fork and one line per reader.')
    rep.trusted = ['lark LALR compilation of the grammar constants', 'techlib pin tables (C19)', 'circuit constructors (C09)']
    rep.assumptions = ['BOUNDED: the netlist built by the Verilog transformer is compared with the meaning of the text for a family of 30 module descriptions (C11.netlist); '
                       'texts outside that family (other statement orders, declaration styles, chained assigns), whitespace/comment placement beyond C11.lexical, '
                       'equivalence of the two formats and the bench transformer beyond its structural rule are NOT decided.']
    vmod, bmod = repo.mod('verilog'), repo.mod('bench')
    vtext, vg = grammar.extract_grammar(vmod)
    VG = grammar.Grammar(vtext, 'verilog')
    rep.rule('C11.grammar', 'Verilog / bench grammar <-> transformer: arity, kind, exhaustiveness, no dead callback')
    vmeth, vh, n1 = grammar.check_agreement(rep, 'C11.grammar', vmod, VG, 'VerilogTransformer', consumed_as_tree=('parameters', 'tri', 'assign', 'pin'), helper_methods=('declaration',))
    btext, bg = grammar.extract_grammar(bmod)
    BG = grammar.Grammar(btext, 'bench')
    bmeth, bh, n2 = grammar.check_agreement(rep, 'C11.grammar', bmod, BG, 'BenchTransformer', consumed_as_tree=('statement',))
    rep.floor('verilog callbacks analysed', n1, 10)
    rep.floor('bench callbacks analysed', n2, 4)
    for nm in ('range', 'module', 'instantiation', 'namedpin', 'sigsel', 'concat', 'name', 'input', 'output', 'inout', 'wire'):
        if nm not in vmeth:
            rep.violate('C11.grammar', vmod, 'VerilogTransformer', nm, f'VerilogTransformer.{nm} callback is missing')
    for nm in ('assignment', 'parameters', 'interface', 'start'):
        if nm not in bmeth:
            rep.violate('C11.grammar', bmod, 'BenchTransformer', nm, f'BenchTransformer.{nm} callback is missing')
    if rep.violations:
        return
    grammar_facts(rep, vmod, VG, vg, bmod, BG, bg)
    grammar.fresh_parser_rule(rep, 'C11.fresh', vmod, 'VerilogTransformer')
    grammar.fresh_parser_rule(rep, 'C11.fresh', bmod, 'BenchTransformer')
    evaluated = False
    try:
        from checks import c11_eval
        evaluated = c11_eval.evaluate(rep, repo, vmod)
    except ModelError as e:
        rep.note(f'C11.netlist: the Verilog transformer is outside the evaluated subset ({e}); the structural rules C11.range/.decl/.ports/.pins/.const/.names decide')
    rep._c11_verilog_evaluated = evaluated
    if not evaluated:
        range_formula(rep, vmod, vmeth)
        declarations(rep, vmod, vmeth)
        ports_and_pins(rep, vmod, vmeth)
        constants_and_names(rep, vmod, vmeth)
    bench_rules(rep, bmod, bmeth)


def grammar_facts(rep, vmod, VG, vg, bmod, BG, bg):
    rep.rule('C11.lexical', 'comments and attributes are ignored tokens; escaped identifiers end at white space; sized constants are name tokens; bench names are case-insensitive identifiers')
    ign = [t for t in VG.lark.ignore_tokens] if hasattr(VG.lark, 'ignore_tokens') else []
    txt = VG.text
    ok = 'COMMENT:' in txt and '%ignore ( /\\r?\\n/ | COMMENT )+' in txt and '\\(\\*' in txt and '"//"' in txt and '\\/\\*' in txt
    rep.ob('C11.lexical', 'verilog: // and /* */ comments and (* *) attributes are %ignore-d', ok)
    if not ok:
        rep.violate('C11.lexical', vmod, '<module>', 'COMMENT', 'verilog grammar must ignore line comments, block comments and (* attributes *)', node=vg)
    # the ignored-token language itself, decided by bounded exhaustive comparison: every string over {/ * ( ) a \n} up to
    # length 6 (and over {/ * a} up to length 9) is matched by the ignore terminal iff it is a non-empty sequence of
    # /* ... */ (ending at the first */), (* ... *) (ending at the first *)), // ... newline(s), or bare newlines.
    import itertools
    import re as _re
    ign_re = None
    for t in VG.lark.terminals:
        if t.name in (VG.lark.ignore_tokens if hasattr(VG.lark, 'ignore_tokens') else []) and 'COMMENT' in txt and '\\/\\*' in t.pattern.to_regexp():
            ign_re = _re.compile(t.pattern.to_regexp())
    if ign_re is None:
        rep.violate('C11.lexical', vmod, '<module>', '%ignore', 'no ignored terminal containing the block-comment pattern was found', node=vg)
    else:
        def piece_ends(sx, i):
            """end positions of one ignorable piece starting at i"""
            out = []
            if sx.startswith('/*', i):
                j = sx.find('*/', i + 2)
                if j >= 0:
                    out.append(j + 2)
            if sx.startswith('(*', i):
                j = sx.find('*)', i + 2)
                if j >= 0:
                    out.append(j + 2)
            if sx.startswith('//', i):
                j = sx.find('\n', i + 2)
                if j >= 0:
                    while j < len(sx) and sx[j] == '\n':
                        j += 1
                        out.append(j)
            if sx.startswith('\n', i):
                out.append(i + 1)
            return out

        def spec(sx):
            reach = {0}
            for i in range(len(sx)):
                if i in reach:
                    reach.update(piece_ends(sx, i))
            return len(sx) in reach and len(sx) > 0
        bad = None
        nchk = 0
        for alpha, nmax in (('/*()a\n', 6), ('/*a', 9)):
            for n in range(1, nmax + 1):
                for tup in itertools.product(alpha, repeat=n):
                    sx = ''.join(tup)
                    nchk += 1
                    if (ign_re.fullmatch(sx) is not None) != spec(sx):
                        bad = sx
                        break
                if bad is not None:
                    break
            if bad is not None:
                break
        rep.ob('C11.lexical', 'ignored-token language = (block comment | attribute | line comment | newline)+ on all short strings', bad is None, evals=nchk)
        if bad is not None:
            rep.violate('C11.lexical', vmod, '<module>', 'COMMENT / %ignore', f'the ignored-token pattern {"accepts" if ign_re.fullmatch(bad) else "rejects"} {bad!r}, but a comment ends at '
                        f'its first terminator: text after a comment such as /***/ would be swallowed up to the next terminator (or the comment is a syntax error)',
                        witness={'string': bad, 'matched by the grammar': ign_re.fullmatch(bad) is not None, 'is a sequence of comments/newlines': spec(bad)}, node=vg)
    ok = "/\\\\[^\\t \\r\\n]+[\\t \\r\\n]/i" in txt and "/[0-9]+'[bdh][0-9a-f]+/i" in txt and '/[a-z_][a-z0-9_]*/i' in txt
    rep.ob('C11.lexical', 'verilog name = identifier | escaped identifier up to white space | sized constant', ok)
    if not ok:
        rep.violate('C11.lexical', vmod, '<module>', 'name', 'verilog rule `name` must accept plain identifiers, escaped identifiers (backslash up to the next white space) and sized constants', node=vg)
    ok = 'NAME: /[-_a-z0-9]+/i' in BG.text and '"#" /[^\\n]*/' in BG.text
    rep.ob('C11.lexical', 'bench: NAME and # comments', ok)
    if not ok:
        rep.violate('C11.lexical', bmod, '<module>', 'NAME', 'bench grammar must lex names /[-_a-z0-9]+/i and ignore # comments', node=bg)
    seqs = VG.callback_sequences('range')
    ok = {len(s) for s in seqs} == {1, 2}
    rep.ob('C11.lexical', 'range keeps one or two numbers', ok)
    if not ok:
        rep.violate('C11.lexical', vmod, '<module>', 'range', 'verilog rule range must keep one or two number tokens', node=vg)


def range_formula(rep, vmod, vmeth):
    rep.rule('C11.range', 'range [l:r] enumerates l, l+-1, ..., r inclusive (ascending and descending); [l] is the single bit l - evaluated for all 0 <= l, r <= 7')
    f = vmeth.get('range')
    if f is None:
        raise AnchorError('VerilogTransformer.range vanished')
    b = body_no_doc(f)
    ok = len(b) == 3 and cz(b[0]) == 'left=int(args[0].value)' and cz(b[1]) == 'right=int(args[1].value)iflen(args)>1elseleft' and isinstance(b[2], ast.Return)
    rep.ob('C11.range', 'left/right taken from children 0/1 (single index: right = left)', ok)
    if not ok:
        rep.violate('C11.range', vmod, f, b[0] if b else 'range', 'range must read left = int(args[0]), right = int(args[1]) if present else left', node=f)
        return
    expr = b[2].value

    def ev(e, env):
        if isinstance(e, ast.Constant):
            return e.value
        if isinstance(e, ast.Name):
            return env[e.id]
        if isinstance(e, ast.BinOp) and isinstance(e.op, (ast.Add, ast.Sub)):
            a, c = ev(e.left, env), ev(e.right, env)
            return a + c if isinstance(e.op, ast.Add) else a - c
        if isinstance(e, ast.UnaryOp) and isinstance(e.op, ast.USub):
            return -ev(e.operand, env)
        if isinstance(e, ast.Compare) and len(e.ops) == 1:
            a, c = ev(e.left, env), ev(e.comparators[0], env)
            return {ast.LtE: a <= c, ast.Lt: a < c, ast.GtE: a >= c, ast.Gt: a > c, ast.Eq: a == c, ast.NotEq: a != c}[type(e.ops[0])]
        if isinstance(e, ast.IfExp):
            return ev(e.body, env) if ev(e.test, env) else ev(e.orelse, env)
        if isinstance(e, ast.Call) and call_name(e) == 'range':
            return list(range(*[ev(a, env) for a in e.args]))
        if isinstance(e, ast.Call) and call_name(e) in ('min', 'max', 'abs'):
            return {'min': min, 'max': max, 'abs': abs}[call_name(e)](*[ev(a, env) for a in e.args])
        if isinstance(e, ast.Call) and call_name(e) in ('list', 'reversed') and len(e.args) == 1:
            v = ev(e.args[0], env)
            return list(v) if call_name(e) == 'list' else list(reversed(v))
        raise ModelError(f'range formula outside the modelled integer subset: {norm(e)[:80]}')
    bad = []
    n = 0
    for l in range(8):
        for r in range(8):
            n += 1
            got = ev(expr, {'left': l, 'right': r})
            exp = list(range(l, r + 1)) if l <= r else list(range(l, r - 1, -1))
            if got != exp:
                bad.append((l, r, got, exp))
    ok = not bad
    rep.ob('C11.range', f'{norm(expr)}', ok, evals=n, sample={'rule': 'C11.range', 'formula': norm(expr), 'cases': n})
    if not ok:
        l, r, got, exp = bad[0]
        rep.violate('C11.range', vmod, f, b[2], f'range [{l}:{r}] enumerates {got}, declared range order is {exp}', witness={'left': l, 'right': r, 'got': got, 'expected': exp}, node=b[2])


def declarations(rep, vmod, vmeth):
    rep.rule('C11.decl', 'a declaration yields one SignalDeclaration per name with the optional range; bus bit names are basename[i] in range order')
    f = vmod.func('VerilogTransformer.declaration')
    want = [czs('rnge = None'), czs('if isinstance(args[0], range):\n    rnge = args[0]\n    args = args[1:]'), czs('return [SignalDeclaration(kind, signal, rnge) for signal in args]')]
    ok = [cz(s) for s in body_no_doc(f)] == want
    rep.ob('C11.decl', 'declaration()', ok)
    if not ok:
        rep.violate('C11.decl', vmod, f, 'declaration', 'declaration must split off a leading range and create SignalDeclaration(kind, name, range) for every name, in order', node=f)
    for nm, kind in (('input', 'input'), ('output', 'output'), ('inout', 'input'), ('wire', 'wire')):
        g = vmeth.get(nm)
        ok = g is not None and cz(body_no_doc(g)[0]) == f"returnself.declaration('{kind}',args)"
        rep.ob('C11.decl', f'{nm} -> declaration({kind!r})', ok)
        if not ok:
            rep.violate('C11.decl', vmod, g or '<module>', nm, f'{nm} must return self.declaration({kind!r}, args)', node=g)
    g = vmod.func('SignalDeclaration.names')
    want = [czs('if self.rnge is None:\n    return [self.basename]'), czs("return [f'{self.basename}[{i}]' for i in self.rnge]")]
    ok = [cz(s) for s in body_no_doc(g)] == want
    rep.ob('C11.decl', 'names: [basename] or basename[i] for i in range order', ok)
    if not ok:
        rep.violate('C11.decl', vmod, g, 'SignalDeclaration.names', 'names must be [basename] for scalars and basename[i] for i in the declared range order (no sorting, no reversal)', node=g)


def ports_and_pins(rep, vmod, vmeth):
    rep.rule('C11.ports', 'ports get consecutive positions in module-header order, bus bits in declared range order; io_nodes[position] is the port node')
    rep.rule('C11.pins', 'at both connection sites pin name and signal come from the same pin-map item, the pin index is looked up for the instantiated type, and direction decides the Line orientation')
    f = vmeth.get('module')
    if f is None:
        raise AnchorError('VerilogTransformer.module vanished')
    t = cz(f)
    want = czs('for intf_sig in args[1].children:\n    for name in sig_decls[intf_sig].names:\n        positions[name] = pos\n        pos += 1')
    ok = want in t and czs('pos = 0') in t
    rep.ob('C11.ports', 'positions in header order x range order', ok)
    if not ok:
        rep.violate('C11.ports', vmod, f, 'positions[name] = pos; pos += 1', 'module: every port name (header order, bus bits in names order) must get the next consecutive position', node=f)
    want = czs('if name in positions:\n    c.io_nodes[positions[name]] = n')
    ok = want in t and czs('n = Node(c, name, kind=sd.kind)') in t
    rep.ob('C11.ports', 'io_nodes[positions[name]] = port node', ok)
    if not ok:
        rep.violate('C11.ports', vmod, f, 'c.io_nodes[positions[name]] = n', 'module: the port node of `name` must be stored at io_nodes[positions[name]]', node=f)
    ok = czs('c = Circuit(args[0])') in t and czs('return c') in t
    rep.ob('C11.ports', 'circuit named after the module', ok)
    # connection sites
    lines = [c for c in find_all(f, ast.Call) if call_name(c) == 'Line']
    out_site = [c for c in lines if len(c.args) == 3 and isinstance(c.args[1], ast.Tuple) and 'pin_index' in cz(c.args[1])]
    in_site = [c for c in lines if len(c.args) == 3 and isinstance(c.args[2], ast.Tuple) and 'pin_index' in cz(c.args[2])]
    ok = len(out_site) == 1 and cz(out_site[0]) == czs('Line(c, (n, self.tlib.pin_index(stmt.type, p)), Node(c, s))')
    if ok:
        lp = enclosing(out_site[0], ast.For)
        g = guard_texts(out_site[0], lp.body) if lp is not None else []
        ok = lp is not None and cz(lp.iter) == 'stmt.pins.items()' and cz(lp.target) in ('(p,s)', 'p,s') and ('self.tlib.pin_is_output(n.kind,p)', True) in g
    rep.ob('C11.pins', 'output pins: Line(c, (cell, pin_index(type, p)), fork(s)) for (p, s) in stmt.pins.items() if pin_is_output', ok, sample={'rule': 'C11.pins', 'site': norm(out_site[0]) if out_site else None})
    if not ok:
        rep.violate('C11.pins', vmod, f, out_site[0] if out_site else 'output pin connection', 'module pass 1: for every (p, s) of the instance\'s pin map with an output pin p, the cell\'s output pin_index(stmt.type, p) must drive a new fork named s', node=f)
    ok = len(in_site) == 1 and cz(in_site[0]) == czs('Line(c, fork, (n, self.tlib.pin_index(stmt.type, p)))')
    if ok:
        lp = enclosing(in_site[0], ast.For)
        g = guard_texts(in_site[0], lp.body) if lp is not None else []
        ok = lp is not None and cz(lp.iter) == 'stmt.pins.items()' and ('self.tlib.pin_is_output(n.kind,p)', False) in g and czs('n = c.cells[stmt.name]') in cz(lp) and czs('fork = c.forks[s]') in cz(lp)
    rep.ob('C11.pins', 'input pins: Line(c, fork(s), (cell, pin_index(type, p))) for (p, s) in stmt.pins.items() if not pin_is_output', ok)
    if not ok:
        rep.violate('C11.pins', vmod, f, in_site[0] if in_site else 'input pin connection', 'module pass 2: for every (p, s) with an input pin p, fork s (or its branch fork) must drive the cell\'s input pin_index(stmt.type, p)', node=f)
    # branch forks only insert a fork
    bf = [s for s in ast.walk(f) if isinstance(s, ast.If) and cz(s.test) == 'self.branchforks']
    want = [czs('branchfork = Node(c, fork.name + "~" + n.name + "/" + p)'), czs('Line(c, fork, branchfork)'), czs('fork = branchfork')]
    ok = len(bf) == 1 and [cz(s) for s in bf[0].body] == want and not bf[0].orelse
    rep.ob('C11.pins', 'branchforks: one fork and one line inserted between the signal fork and the reader', ok)
    if not ok:
        rep.violate('C11.pins', vmod, f, bf[0] if bf else 'if self.branchforks', 'the branch-fork option must only insert a fork named <signal>~<cell>/<pin> fed by the signal fork and continue with it', node=f)
    # named / positional pins in instantiation
    g = vmeth.get('instantiation')
    tt = cz(g)
    ok = czs('for idx, pin in enumerate(args[2:]):\n    p = pin.children[0]\n    if isinstance(p, tuple):\n        if p[1] is not None:\n            pinmap[p[0]] = p[1]\n    else:\n        pinmap[idx] = p') in tt \
        and czs('return Instantiation(args[0], args[1], pinmap)') in tt
    rep.ob('C11.pins', 'instantiation: (type, name, {pin name | position: signal}); unconnected named pins skipped', ok)
    if not ok:
        rep.violate('C11.pins', vmod, g, 'instantiation', 'instantiation must build Instantiation(type, name, pinmap) with pinmap[pin name] = signal for named pins (skipping empty ones) and pinmap[position] = signal for positional pins', node=g)
    g = vmeth.get('namedpin')
    ok = cz(body_no_doc(g)[0]) == czs('return tuple(args) if len(args) > 1 else (args[0], None)')
    rep.ob('C11.pins', 'namedpin -> (pin, signal) or (pin, None)', ok)
    if not ok:
        rep.violate('C11.pins', vmod, g, 'namedpin', 'namedpin must return (pin name, signal) or (pin name, None) for an empty connection', node=g)
    nt = [st for st in vmod.tree.body if isinstance(st, ast.Assign) and is_name(st.targets[0], 'Instantiation')]
    ok = len(nt) == 1 and cz(nt[0].value) == "namedtuple('Instantiation',['type','name','pins'])"
    rep.ob('C11.pins', 'Instantiation fields (type, name, pins)', ok)
    if not ok:
        rep.violate('C11.pins', vmod, '<module>', nt[0] if nt else 'Instantiation', 'Instantiation must be the record (type, name, pins)', node=nt[0] if nt else None)


def constants_and_names(rep, vmod, vmeth):
    rep.rule('C11.const', "sized constants: width'base digits -> width one-bit constants, most significant bit first; bases b/d/h; bit selects name[i] in range order; concatenations flatten in order")
    f = vmeth.get('sigsel')
    t = cz(f)
    ok = czs("width, rest = args[0].split(\"'\")") in t and czs('width = int(width)') in t and czs('base, const = rest[0], rest[1:]') in t \
        and czs("const = int(const, {'b': 2, 'd': 10, 'h': 16}[base.lower()])") in t
    rep.ob('C11.const', 'width and base parsed; value read in base 2/10/16', ok)
    if not ok:
        rep.violate('C11.const', vmod, f, 'sized constant parsing', "sigsel must split width'<base><digits> and read the digits in base {'b': 2, 'd': 10, 'h': 16}", node=f)
    want = czs('for _ in range(width):\n    l.insert(0, "1\'b1" if (const & 1) else "1\'b0")\n    const >>= 1')
    ok = want in t
    rep.ob('C11.const', 'bits emitted LSB first but inserted at the front: list is MSB first', ok, sample={'rule': 'C11.const', 'loop': 'for _ in range(width): l.insert(0, ...); const >>= 1'})
    if not ok:
        rep.violate('C11.const', vmod, f, 'constant expansion loop', "sigsel must expand a sized constant to `width` one-bit constants with the most significant bit first (insert(0, bit of const & 1); const >>= 1)", node=f)
    ok = czs("if len(args) > 1 and isinstance(args[1], range):\n    l = [f'{args[0]}[{i}]' for i in args[1]]\n    return l if len(l) > 1 else l[0]") in t
    rep.ob('C11.const', 'bit/part select: name[i] for i in the select range order', ok)
    if not ok:
        rep.violate('C11.const', vmod, f, 'bit select', 'sigsel must turn name[range] into the list name[i] for i in range order (a single element as a scalar)', node=f)
    g = vmeth.get('concat')
    want = [czs('sigs = []'), czs('for a in args:\n    if isinstance(a, list):\n        sigs += a\n    else:\n        sigs.append(a)'), czs('return sigs')]
    ok = [cz(s) for s in body_no_doc(g)] == want
    rep.ob('C11.const', 'concat flattens its members in order', ok)
    if not ok:
        rep.violate('C11.const', vmod, g, 'concat', 'concat must flatten its members left to right', node=g)
    rep.rule('C11.names', 'escaped identifiers lose exactly the leading backslash and the terminating white-space character')
    g = vmeth.get('name')
    want = [czs('s = args[0].value'), czs("return s[1:-1] if s[0] == '\\\\' else s")]
    ok = [cz(s) for s in body_no_doc(g)] == want
    rep.ob('C11.names', 'name()', ok)
    if not ok:
        rep.violate('C11.names', vmod, g, 'name', "name must return the token text, with the leading backslash and the trailing white-space character removed for escaped identifiers", node=g)
    # constants in pin connections / assigns become __constN__ cells
    m = vmeth.get('module')
    t = cz(m)
    ok = t.count("s.startswith(\"1'b\")") >= 2 and "f'__const{s[3]}__'" in norm(m)
    rep.ob('C11.names', "one-bit constants 1'b0 / 1'b1 become __const0__ / __const1__ cells", ok)
    if not ok:
        rep.violate('C11.names', vmod, m, "1'b constants", "module must turn 1'b0 / 1'b1 connections into cells of kind __const0__ / __const1__", node=m)


def bench_rules(rep, bmod, bmeth):
    rep.rule('C11.bench', 'bench: a gate statement creates cell + same-named fork and connects the drivers in argument order; input/output statements append their forks to io_nodes in statement order')
    a = bmeth.get('assignment')
    want = [czs('name, cell_type, drivers = args'), czs('cell = Node(self.c, str(name), str(cell_type))'), czs('Line(self.c, cell, self.c.get_or_add_fork(str(name)))'), czs('for d in drivers:\n    Line(self.c, d, cell)')]
    ok = [cz(s) for s in body_no_doc(a)] == want
    rep.ob('C11.bench', 'assignment', ok, sample={'rule': 'C11.bench', 'assignment': [norm(s) for s in body_no_doc(a)]})
    if not ok:
        rep.violate('C11.bench', bmod, a, 'assignment', 'bench assignment must create Node(name, kind), drive the same-named fork from it, and connect each driver fork to the next free input pin in argument order', node=a)
    p = bmeth.get('parameters')
    ok = cz(body_no_doc(p)[0]) == czs('return [self.c.get_or_add_fork(str(name)) for name in args]')
    rep.ob('C11.bench', 'parameters -> forks in order', ok)
    if not ok:
        rep.violate('C11.bench', bmod, p, 'parameters', 'bench parameters must map every name to its fork, in order', node=p)
    i = bmeth.get('interface')
    ok = cz(body_no_doc(i)[0]) == czs('self.c.io_nodes.extend(args[0])')
    rep.ob('C11.bench', 'interface: io_nodes.extend(forks)', ok)
    if not ok:
        rep.violate('C11.bench', bmod, i, 'interface', 'bench input/output statements must append their forks to io_nodes in order', node=i)
    s = bmeth.get('start')
    ok = cz(body_no_doc(s)[0]) == 'returnself.c'
    rep.ob('C11.bench', 'start returns the circuit', ok)
    if not ok:
        rep.violate('C11.bench', bmod, s, 'start', 'bench start must return the circuit', node=s)


def undecided_changes(rep, repo):
    """C11 is a partial check: the bodies of the transformer methods are decided only in the named structural respects. A method
    whose normal form differs from the reference (so it really computes something else, or is written in a way the normal form
    does not see through) and on which no rule fired is *not decided* by this check: exit 2, never a pass."""
    und = []
    for mname in ('verilog', 'bench'):
        res = repo.equiv_full.get(mname)
        if not res:
            continue
        for q in res.get('different', []) + res.get('new', []):
            if q in res.get('absorbed_helpers', []) or q in ('parse', 'load'):
                continue
            if mname == 'verilog' and getattr(rep, '_c11_verilog_evaluated', False) and (q.startswith('VerilogTransformer.') or q.startswith('SignalDeclaration.') or '.' not in q):
                continue        # decided by the evaluated rule C11.netlist (callbacks, declaration class and module-level helpers are what it evaluates)
            und.append(f'{mname}.{q}')
    if und and not rep.violations:
        raise ModelError('C11 decides only structural necessary conditions; the following function(s) differ from the confirmed reference beyond the normal form '
                         f'and none of the decided rules is affected: {", ".join(sorted(und))} - the change is not decided by this check')


def depends(rep, repo):
    """"Once parsed and its library cells resolved": resolution is Circuit.resolve_tlib_cells -> substitute; its rules
    (the k-th instance pin meets the k-th implementation port, every node_map read is defined, designated-cell handling) are
    part of this check. Rule ids keep their C10. prefix."""
    from checks import c10
    cmod = repo.mod('circuit')
    c10.function_rules(rep, repo, cmod, what=('resolve', 'substitute'))
    # "... its library cells resolved, simulates to exactly the Boolean function": the implementation a cell resolves to is the library
    # definition (pin order of the implementation ports, datasheet function): the C19 rules are part of this check
    from checks import c19
    keep = (rep.explanation, rep.trusted, rep.assumptions, rep.exhaustive)
    try:
        c19.run(rep, repo)
    finally:
        rep.explanation, rep.trusted, rep.assumptions, rep.exhaustive = keep
    undecided_changes(rep, repo)


def thorough(rep, repo):
    from kvstatic import thorough as thorough_mod
    thorough_mod.selftest_slice(rep, repo, 'C11')
