"""C17 - graph traversals and name lookups are complete and correctly ordered (structural part)."""
from __future__ import annotations

import ast
import re

from kvstatic.paths import cz, czs
from kvstatic.core import Repo, Report, ModelError, AnchorError, norm
from kvstatic.astutil import (find_all, attr_chain, is_name, call_name, body_no_doc, target_names, parents, renamed,
                              walk_no_nested_funcs, enclosing)

TRAVERSALS = ['Circuit.topological_order', 'Circuit.topological_order_with_level', 'Circuit.topological_line_order',
              'Circuit.reversed_topological_order', 'Circuit.fanin']


def pinlist(expr):
    """(node_expr_text, 'ins'|'outs') if expr is X.ins / X.outs (optionally sliced)."""
    if isinstance(expr, ast.Subscript) and isinstance(expr.slice, ast.Slice):
        expr = expr.value
    if isinstance(expr, ast.Attribute) and expr.attr in ('ins', 'outs'):
        return norm(expr.value), expr.attr
    return None


def is_none_test(test, var, positive):
    """test is `var is None` (positive=False -> `var is not None`)."""
    if isinstance(test, ast.Compare) and len(test.ops) == 1 and is_name(test.left, var) \
            and isinstance(test.comparators[0], ast.Constant) and test.comparators[0].value is None:
        return isinstance(test.ops[0], ast.Is) if positive else isinstance(test.ops[0], ast.IsNot)
    if isinstance(test, ast.BoolOp) and isinstance(test.op, ast.And) and not positive:
        return any(is_none_test(v, var, positive) for v in test.values)
    return False


def deref_uses(body, var):
    """Nodes in body where `var` is dereferenced (attribute access, or used as an index)."""
    out = []
    for st in body:
        for n in ast.walk(st):
            if isinstance(n, ast.Attribute) and is_name(n.value, var):
                out.append(n)
            elif isinstance(n, ast.Subscript) and is_name(n.slice, var):
                out.append(n)
    return out


def guarded(use, var, loop_body):
    """Is `use` protected by a None test on var: inside `if var is not None`, after `if var is None: continue`,
    or in the else of `if var is None`."""
    top = use
    for p in parents(use):
        if isinstance(p, ast.If):
            in_body = any(any(n is use for n in ast.walk(x)) for x in p.body)
            if in_body and is_none_test(p.test, var, positive=False):
                return True
            if not in_body and is_none_test(p.test, var, positive=True):
                return True
        if isinstance(p, ast.IfExp):
            if is_none_test(p.test, var, positive=False) and any(n is use for n in ast.walk(p.body)):
                return True
        if p in loop_body:
            top = p
            break
        if any(p is s for s in loop_body):
            top = p
            break
    # early continue before the statement containing the use
    for st in loop_body:
        if st is top or any(n is use for n in ast.walk(st)):
            break
        if isinstance(st, ast.If) and is_none_test(st.test, var, positive=True) and st.body and isinstance(st.body[-1], (ast.Continue, ast.Return, ast.Raise)):
            return True
    return False


def counts_connected(expr):
    """expr counts non-None entries of a pin list: sum(l is not None for l in X.ins), sum(1 for l in X.ins if l is not None),
    len([l for l in X.ins if l is not None]). Returns (node_text, side) or None."""
    if isinstance(expr, ast.Call) and call_name(expr) in ('sum', 'len') and len(expr.args) == 1 \
            and isinstance(expr.args[0], (ast.GeneratorExp, ast.ListComp)) and len(expr.args[0].generators) == 1:
        g = expr.args[0].generators[0]
        pl = pinlist(g.iter)
        if pl is None or not isinstance(g.target, ast.Name):
            return None
        v = g.target.id
        tests = list(g.ifs) + ([expr.args[0].elt] if call_name(expr) == 'sum' else [])
        if any(is_none_test(t, v, positive=False) for t in tests):
            return pl
    return None


def no_connected(expr):
    """expr is true iff the pin list has no connected entry: all(l is None for l in X.ins), not any(l is not None ...),
    <count> == 0. Returns (node_text, side) or None."""
    if isinstance(expr, ast.Call) and call_name(expr) == 'all' and len(expr.args) == 1 and isinstance(expr.args[0], ast.GeneratorExp):
        g = expr.args[0].generators[0]
        pl = pinlist(g.iter)
        if pl and isinstance(g.target, ast.Name) and is_none_test(expr.args[0].elt, g.target.id, positive=True) and not g.ifs:
            return pl
    if isinstance(expr, ast.UnaryOp) and isinstance(expr.op, ast.Not) and isinstance(expr.operand, ast.Call) and call_name(expr.operand) == 'any':
        ge = expr.operand.args[0] if expr.operand.args else None
        if isinstance(ge, ast.GeneratorExp):
            g = ge.generators[0]
            pl = pinlist(g.iter)
            if pl and isinstance(g.target, ast.Name) and is_none_test(ge.elt, g.target.id, positive=False) and not g.ifs:
                return pl
    if isinstance(expr, ast.Compare) and len(expr.ops) == 1 and isinstance(expr.ops[0], ast.Eq) \
            and isinstance(expr.comparators[0], ast.Constant) and expr.comparators[0].value == 0:
        return counts_connected(expr.left)
    return None


def state_pred(expr):
    """Set of case-folded substrings tested on <x>.kind.lower() in a disjunction / negated conjunction, with polarity.
    Returns (frozenset(substrings), node_text, negated) or None."""
    def atom(e):
        if isinstance(e, ast.Compare) and len(e.ops) == 1 and isinstance(e.ops[0], (ast.In, ast.NotIn)) \
                and isinstance(e.left, ast.Constant) and isinstance(e.left.value, str):
            c = e.comparators[0]
            if isinstance(c, ast.Call) and isinstance(c.func, ast.Attribute) and c.func.attr == 'lower' \
                    and isinstance(c.func.value, ast.Attribute) and c.func.value.attr == 'kind':
                return e.left.value, norm(c.func.value.value), isinstance(e.ops[0], ast.NotIn), True
            if isinstance(c, ast.Attribute) and c.attr == 'kind':
                return e.left.value, norm(c.value), isinstance(e.ops[0], ast.NotIn), False
        return None
    return atom(expr)


def collect_state_atoms(expr):
    return [a for a in (state_pred(n) for n in ast.walk(expr)) if a is not None]


def run(rep: Report, repo: Repo):
    rep.explanation = (
        'Structural preconditions of Kahn-style traversal, checked on the syntax tree of circuit.py: pin lists may hold None '
        '(fact from GrowingList/Line.remove), so every traversal must guard dereferences and count connected pins rather than '
        'len(); the reverse traversal must be the mirror image of the forward one under ins<->outs, driver<->reader; seed, '
        'enqueue, yield-once shape; one state-element predicate at all sites; level formula; fan-in marking; regex AST of the '
        'prefix lookup and numeric index conversion.')
    rep.trusted = ['python ast, re._parser']
    rep.assumptions = ['BOUNDED: completeness/ordering is decided by evaluation on every digraph on <= 3 nodes and the forward-edged graphs on 4 nodes (C17.traverse); larger graphs rest on the absence of size thresholds in the code (adequacy condition) and on Kahn\'s argument',
                       'NOT DECIDED: prefix collisions and mixed-dimension names in _locs']
    mod = repo.mod('circuit')
    fns = {q: mod.func(q) for q in TRAVERSALS}

    # fact: pin lists may hold None
    gl = mod.func('GrowingList.__setitem__')
    lr = mod.func('Line.remove')
    fact = '[None]' in norm(gl) and any(norm(st).replace(' ', '') in ('self.reader.ins[self.reader_pin]=None', 'self.driver.outs[self.driver_pin]=None') for st in ast.walk(lr) if isinstance(st, ast.Assign))
    rep.note(f'fact "pin lists may hold None" established from GrowingList.__setitem__/Line.remove: {fact}')

    rep.rule('C17.none', 'a traversal that dereferences an element of X.ins / X.outs guards it with an `is None` test')
    rep.rule('C17.count', 'readiness and source tests count connected (non-None) pins, never len() of a pin list')
    # the visit counters are compared with the number of connected pins of a node: a fixed-width counter must be able to hold it
    WIDE = {'np.uint32', 'np.int32', 'np.int64', 'np.uint64', 'np.intp', 'np.uintp', 'int', 'np.int_', "'int32'", "'uint32'", "'int64'", "'uint64'"}
    nctr = 0
    for q, f in fns.items():
        compared = {norm(c.left.value) for c in find_all(f, ast.Compare) if isinstance(c.left, ast.Subscript) and isinstance(c.left.value, ast.Name)}
        for st in find_all(f, ast.Assign):
            if len(st.targets) == 1 and isinstance(st.targets[0], ast.Name) and st.targets[0].id in compared and isinstance(st.value, ast.Call) \
                    and (call_name(st.value) or '').startswith('np.'):
                nctr += 1
                dt = next((norm(k.value) for k in st.value.keywords if k.arg == 'dtype'), None)
                ok = dt is None or dt in WIDE   # numpy default is a 64-bit type
                rep.ob('C17.count', f'{q}: counter {st.targets[0].id} dtype {dt}', ok)
                if not ok:
                    rep.violate('C17.count', mod, f, st, f'{q}: the per-node visit counter `{norm(st)[:80]}` is narrower than 32 bits: it wraps for a node with that many '
                                f'connected pins, which then never becomes ready (the node and everything behind it is silently dropped)', node=st)
    nloops = 0
    for q, f in fns.items():
        for loop in find_all(f, ast.For):
            pl = pinlist(loop.iter)
            if pl is None or not isinstance(loop.target, ast.Name):
                continue
            nloops += 1
            v = loop.target.id
            uses = deref_uses(loop.body, v)
            bad = [u for u in uses if not guarded(u, v, loop.body)]
            ok = not bad
            rep.ob('C17.none', f'{q}: for {v} in {norm(loop.iter)}', ok, sample={'rule': 'C17.none', 'function': q, 'loop': norm(loop.iter), 'derefs': len(uses), 'ok': ok})
            if bad and fact:
                rep.violate('C17.none', mod, f, f'for {v} in {norm(loop.iter)}: {norm(bad[0])}',
                            f'{q}: `{norm(bad[0])}` dereferences an element of {norm(loop.iter)} without an `is None` guard; unconnected pins are None (AttributeError/TypeError)', node=bad[0])
        for comp in find_all(f, (ast.ListComp, ast.GeneratorExp, ast.SetComp)):
            for g in comp.generators:
                pl = pinlist(g.iter)
                if pl is None or not isinstance(g.target, ast.Name):
                    continue
                v = g.target.id
                elt_uses = [n for n in ast.walk(comp.elt) if (isinstance(n, ast.Attribute) and is_name(n.value, v)) or (isinstance(n, ast.Subscript) and is_name(n.slice, v))]
                if not elt_uses:
                    continue
                nloops += 1
                ok = any(is_none_test(t, v, positive=False) for t in g.ifs)
                rep.ob('C17.none', f'{q}: comprehension over {norm(g.iter)}', ok)
                if not ok and fact:
                    rep.violate('C17.none', mod, f, comp, f'{q}: comprehension dereferences elements of {norm(g.iter)} without `if {v} is not None`', node=comp)
        # len() of a pin list in a comparison
        for cmp_ in find_all(f, ast.Compare):
            for side in [cmp_.left] + list(cmp_.comparators):
                if isinstance(side, ast.Call) and call_name(side) == 'len' and side.args and pinlist(side.args[0]) and not isinstance(side.args[0], ast.Subscript):
                    other = [x for x in [cmp_.left] + list(cmp_.comparators) if x is not side]
                    is_zero = any(isinstance(o, ast.Constant) and o.value == 0 for o in other)
                    what = 'source test' if is_zero else 'readiness test'
                    rep.ob('C17.count', f'{q}: {norm(cmp_)}', False)
                    rep.violate('C17.count', mod, f, cmp_, f'{q}: {what} `{norm(cmp_)}` uses len() of a pin list; entries may be None '
                                f'({"a node whose pins are all unconnected is never yielded" if is_zero else "a node with an unconnected pin never becomes ready and is never yielded"})', node=cmp_)
    rep.floor('pin-list iterations in traversals', nloops, 5)

    evaluated = False
    try:
        from kvstatic.core import cached_rules
        _oo = bool(getattr(rep, '_c17_order_only', False))
        evaluated = cached_rules(rep, repo, 'c17.traverse', ['circuit'], lambda r: traversals_evaluated(r, mod, fns, full=not _oo), extra=_oo)
    except ModelError as e:
        rep.note(f'C17.traverse: the traversal generators are outside the evaluated subset ({e}); the structural rules decide')
    if not evaluated:
        kahn(rep, mod, fns['Circuit.topological_order'], 'outs', 'ins', 'reader')
        kahn(rep, mod, fns['Circuit.reversed_topological_order'], 'ins', 'outs', 'driver')
        mirror(rep, mod, fns)
        levels(rep, mod, fns['Circuit.topological_order_with_level'])
    predicates(rep, mod, fns)
    if getattr(rep, '_c17_order_only', False):
        return      # included by a simulation check: only the rules about the order the op list is built from
    if not evaluated:
        lines_and_fanin(rep, mod, fns)
    le = False
    try:
        from kvstatic.core import cached_rules
        le = cached_rules(rep, repo, 'c17.locs', ['circuit'], lambda r: locs_evaluated(r, mod))
    except ModelError as e:
        rep.note(f'C17.locs: Circuit._locs is outside the evaluated subset ({e}); the structural rule decides')
    if le:
        try:
            locs(rep, mod, regex_only=True)     # the bounded-exhaustive comparison of the regular expression, when it is one f-string constant
        except ModelError as e:
            rep.note(f'C17.locs: regular expression of _locs not compared on its own ({e}); decided by the evaluated lookups')
    else:
        locs(rep, mod)



# ---------------------------------------------------------------------------------------------------------------------
# Engine M: the five traversal generators evaluated on every small circuit

def _small_circuits(full):
    """Stand-in circuits: nodes (index, kind, ins, outs; usable as indices like kyupy's Node) and lines (driver, reader). Every directed graph on up
    to 3 nodes in which each cycle passes a state element, over two kinds (gate / flip-flop), each with four pin layouts (no gaps; an unconnected
    pin in front of the inputs; in front of the outputs; both) - plus, for two nodes, six kind spellings (dff / latch in both cases and as
    substrings) - plus (full) all forward-edged graphs on 4 nodes under three labelings with at most one state element."""
    import itertools
    from kvstatic.minieval import NS, NodeNS

    def build(n, edges, kinds, gap):
        nodes = [NodeNS(index=i, kind=kinds[i], name=f'n{i}', tag=f'n{i}', ins=[], outs=[]) for i in range(n)]
        if gap & 1:
            for x in nodes:
                x.ins.append(None)
        if gap & 2:
            for x in nodes:
                x.outs.append(None)
        lines = []
        for (a, b) in edges:
            ln = NodeNS(index=len(lines), driver=nodes[a], reader=nodes[b], driver_pin=len(nodes[a].outs), reader_pin=len(nodes[b].ins), tag=f'l{len(lines)}:{a}->{b}')
            nodes[a].outs.append(ln)
            nodes[b].ins.append(ln)
            lines.append(ln)
        if gap & 4:
            for x in nodes:
                x.ins.append(None)
                x.outs.append(None)
        return nodes, lines

    def state(k):
        return 'dff' in k.lower() or 'latch' in k.lower()

    def acyclic_after_cut(n, edges, kinds):
        # every cycle must contain a state element: remove the edges into state elements and test for a cycle
        adj = {i: [b for a, b in edges if a == i and not state(kinds[b])] for i in range(n)}
        color = {}

        def dfs(u):
            color[u] = 1
            for v in adj[u]:
                if color.get(v) == 1 or (v not in color and dfs(v)):
                    return True
            color[u] = 2
            return False
        return not any(dfs(u) for u in range(n) if u not in color)

    for n in (1, 2, 3):
        pairs = [(a, b) for a in range(n) for b in range(n) if a != b]
        alphabet = ['AND2', 'DFFX1'] if n != 2 else ['AND2', 'DFFX1', 'sdffar', 'LATCH', 'dlatch', 'BUF']
        for r in range(len(pairs) + 1):
            for edges in itertools.combinations(pairs, r):
                for kinds in itertools.product(alphabet, repeat=n):
                    if not acyclic_after_cut(n, edges, kinds):
                        continue
                    for gap in ((0, 1, 2, 3, 4) if n < 3 else (0, 1, 2, 4)):
                        yield (n, edges, kinds, gap) + build(n, edges, kinds, gap)
    # parallel lines between the same pair of nodes (both pins of a gate driven by the same node)
    for kinds in (('AND2', 'AND2', 'AND2'), ('DFFX1', 'AND2', 'AND2')):
        for edges in (((0, 1), (0, 1)), ((0, 1), (0, 1), (1, 2)), ((0, 2), (0, 1), (1, 2), (1, 2))):
            yield (3, edges, kinds, 0) + build(3, edges, kinds, 0)
    if full:
        fw = [(a, b) for a in range(4) for b in range(a + 1, 4)]
        for perm in ((3, 2, 1, 0), (2, 0, 3, 1)):
            for r in range(len(fw) + 1):
                for es in itertools.combinations(fw, r):
                    edges = tuple((perm[a], perm[b]) for a, b in es)
                    for st in (None, 0, 1, 2, 3):
                        kinds = tuple('DFFX1' if i == st else 'AND2' for i in range(4))
                        gap = 3 if (len(edges) + (st or 0)) % 2 else 0
                        yield (4, edges, kinds, gap) + build(4, edges, kinds, gap)


def traversals_evaluated(rep, mod, fns, full=True):
    """C17.traverse - the generators' own statements evaluated (Engine M) on every small circuit and compared with the stated contract.
    Returns False when some construct is outside the evaluator's subset or the functions contain integer constants other than 0 and 1
    (a size threshold would make a small-circuit evaluation inadequate): the structural rules then decide."""
    from kvstatic import minieval
    from kvstatic.minieval import NS, stub
    names = ['Circuit.topological_order', 'Circuit.reversed_topological_order', 'Circuit.topological_order_with_level', 'Circuit.topological_line_order', 'Circuit.fanin']
    if getattr(rep, '_c17_order_only', False):
        names = names[:3]
    for q in names:
        for c in find_all(fns[q], ast.Constant):
            if type(c.value) is int and c.value not in (0, 1):
                return False
            if type(c.value) is float:
                return False
    rep.rule('C17.traverse', 'the traversal generators evaluated on every small circuit (all digraphs on <= 3 nodes cut at state elements, forward-edged graphs on 4 nodes; '
                             'unconnected pins, parallel lines, six kind spellings): every node exactly once, drivers of a combinational node before it, sources and state '
                             'elements first; levels = longest combinational distance; reverse order likewise with ins/outs exchanged; line order covers each connected line '
                             'once; fan-in = exactly the transitive fan-in in combinational circuits, and between "has a combinational path" and "has a path" otherwise')

    def state(k):
        return 'dff' in k.lower() or 'latch' in k.lower()

    def call(q, me, *args):
        try:
            return minieval.call_function(fns[q], [me] + list(args)), None
        except ModelError:
            raise
        except (IndexError, KeyError, TypeError, AttributeError, ValueError, RuntimeError, AssertionError) as e:
            return None, f'{type(e).__name__}: {e}'

    def describe(n, edges, kinds, gap):
        return f'{n} nodes of kinds {list(kinds)}, lines {["%d->%d" % e for e in edges]}' + \
            ({0: '', 1: ', an unconnected pin in front of every input list', 2: ', an unconnected pin in front of every output list',
              3: ', an unconnected pin in front of every pin list', 4: ', an unconnected pin behind every pin list'}[gap])

    bad = {}
    ncirc = 0
    nev = 0

    def fail(q, what, desc):
        bad.setdefault(q, (what, desc))

    for (n, edges, kinds, gap, nodes, lines) in _small_circuits(full):
        ncirc += 1
        desc = None
        cache = {}

        def mk(q, me):
            def f(*a):
                if q not in cache:
                    cache[q] = call(q, me)
                r, err = cache[q]
                if err:
                    raise RuntimeError(err)
                return list(r)
            return stub(f)
        me = NS(nodes=nodes, lines=lines)
        me.topological_order = mk('Circuit.topological_order', me)
        me.reversed_topological_order = mk('Circuit.reversed_topological_order', me)
        try:
            minieval.bind_class(me, mod.cls('Circuit'), {})      # helper methods the traversals call (predicates, extracted loops) are evaluated as written
        except (AnchorError, KeyError):
            pass
        is_state = [state(k) for k in kinds]
        con_in = [[l for l in x.ins if l is not None] for x in nodes]
        con_out = [[l for l in x.outs if l is not None] for x in nodes]

        def check_order(q, res, err, src_side, dst_side, nxt):
            """res: list of nodes. src_side(i): lines entering i in traversal direction."""
            if err:
                return fail(q, f'raises {err}', describe(n, edges, kinds, gap))
            idx = [getattr(x, 'index', None) for x in res]
            if sorted(i for i in idx if i is not None) != list(range(n)) or len(idx) != n:
                return fail(q, f'yields nodes {idx} instead of every node exactly once', describe(n, edges, kinds, gap))
            pos = {i: k for k, i in enumerate(idx)}
            seeds = [i for i in range(n) if is_state[i] or not src_side[i]]
            for i in range(n):
                if i not in seeds:
                    for l in src_side[i]:
                        d = nxt(l).index
                        if pos[d] > pos[i]:
                            return fail(q, f'yields node {i} before node {d} although {d} must come first (order {idx})', describe(n, edges, kinds, gap))
                    if any(pos[s] > pos[i] for s in seeds):
                        return fail(q, f'yields node {i} before a source / state element (order {idx})', describe(n, edges, kinds, gap))

        nev += 1
        r, err = call('Circuit.topological_order', me)
        cache['Circuit.topological_order'] = (r, err)
        check_order('Circuit.topological_order', r, err, con_in, con_out, lambda l: l.driver)
        nev += 1
        r2, err2 = call('Circuit.reversed_topological_order', me)
        cache['Circuit.reversed_topological_order'] = (r2, err2)
        check_order('Circuit.reversed_topological_order', r2, err2, con_out, con_in, lambda l: l.reader)
        # levels
        nev += 1
        q = 'Circuit.topological_order_with_level'
        r3, err3 = call(q, me)
        if err3:
            if not err:
                fail(q, f'raises {err3}', describe(n, edges, kinds, gap))
        elif not err:
            want = {}

            def lv(i, depth=0):
                if i not in want:
                    if is_state[i] or not con_in[i]:
                        want[i] = 0
                    else:
                        want[i] = 1 + max(lv(l.driver.index) for l in con_in[i])
                return want[i]
            try:
                got = [(x.index, int(l)) for x, l in r3]
            except (TypeError, ValueError, AttributeError):
                got = None
            if got is None or sorted(i for i, _ in got) != list(range(n)):
                fail(q, f'does not yield one (node, level) pair per node: {got if got is not None else "malformed items"}', describe(n, edges, kinds, gap))
            else:
                wrong = [(i, l, lv(i)) for i, l in got if l != lv(i)]
                if wrong:
                    i, l, w = wrong[0]
                    fail(q, f'reports level {l} for node {i}; its longest combinational distance from a source or state element is {w}', describe(n, edges, kinds, gap))
                else:
                    check_order(q, [x for x, _ in r3], None, con_in, con_out, lambda l: l.driver)
        if len(names) == 3:
            continue
        nev += 1
        q = 'Circuit.topological_line_order'
        r4, err4 = call(q, me)
        if err4:
            if not err:
                fail(q, f'raises {err4}', describe(n, edges, kinds, gap))
        elif not err:
            got = sorted(getattr(l, 'index', -1) for l in r4)
            if got != list(range(len(lines))) or any(not hasattr(l, 'driver') for l in r4):
                fail(q, f'yields lines {got} instead of each of the {len(lines)} connected lines exactly once', describe(n, edges, kinds, gap))
            else:
                lp = {l.index: k for k, l in enumerate(r4)}
                for l in lines:
                    if not is_state[l.driver.index]:
                        for m in con_in[l.driver.index]:
                            if lp[m.index] > lp[l.index]:
                                fail(q, f'yields line {l.tag} before line {m.tag} that feeds its (combinational) driver', describe(n, edges, kinds, gap))
        # fan-in
        q = 'Circuit.fanin'
        import itertools
        subsets = [c for r in range(0, n + 1) for c in itertools.combinations(range(n), r)] if n <= 3 else [(i,) for i in range(n)] + [(0, n - 1)]
        for org in subsets:
            nev += 1
            r5, err5 = call(q, me, [nodes[i] for i in org])
            if err5:
                if not err2:
                    fail(q, f'raises {err5} for origins {list(org)}', describe(n, edges, kinds, gap))
                continue
            if err2:
                continue
            idx = [getattr(x, 'index', None) for x in r5]
            if len(set(idx)) != len(idx) or None in idx:
                fail(q, f'yields {idx} for origins {list(org)} (a node more than once or something that is no node)', describe(n, edges, kinds, gap))
                continue
            # may: any path to an origin; must: origins, and combinational nodes with a path through combinational nodes only
            may = set(org)
            must = set(org)
            chg = True
            while chg:
                chg = False
                for l in lines:
                    a, b = l.driver.index, l.reader.index
                    if b in may and a not in may:
                        may.add(a)
                        chg = True
                    if b in must and a not in must and not is_state[a] and (b in org or not is_state[b]):
                        must.add(a)
                        chg = True
            got = set(idx)
            if not must <= got:
                fail(q, f'for origins {list(org)} it yields nodes {sorted(got)} and misses {sorted(must - got)}, which reach an origin over combinational nodes', describe(n, edges, kinds, gap))
            elif not got <= may:
                fail(q, f'for origins {list(org)} it yields nodes {sorted(got - may)}, which have no path to any origin', describe(n, edges, kinds, gap))
    for q in names:
        ok = q not in bad
        rep.ob('C17.traverse', f'{q}: contract on {ncirc} small circuits', ok, evals=nev if q == names[0] else 0)
        if not ok:
            what, desc = bad[q]
            rep.violate('C17.traverse', mod, fns[q], q.split('.')[-1], f'{q} {what} - on the circuit with {desc}', node=fns[q])
    rep.floor('small circuits the traversals were evaluated on', ncirc, 1000)
    return True

def kahn(rep, mod, f, out_side, in_side, next_attr):
    q = f._qualname
    rep.rule('C17.kahn', 'Kahn shape: seed = nodes without connected inputs or state elements; successor enqueued exactly when its count '
                         'reaches its number of connected inputs and it is no state element; each dequeued node yielded once')
    body = body_no_doc(f)
    qdef = [st for st in body if isinstance(st, ast.Assign) and is_name(st.targets[0], 'queue')]
    wl = [st for st in body if isinstance(st, ast.While)]
    if len(qdef) != 1 or len(wl) != 1:
        raise ModelError(f'{q}: queue/while structure not recognised')
    qd = qdef[0].value
    ok = isinstance(qd, ast.Call) and call_name(qd) == 'deque' and len(qd.args) == 1 and isinstance(qd.args[0], ast.GeneratorExp) \
        and norm(qd.args[0].generators[0].iter) == 'self.nodes' and len(qd.args[0].generators[0].ifs) == 1
    if not ok:
        raise ModelError(f'{q}: seed is not deque(n for n in self.nodes if ...)')
    g = qd.args[0].generators[0]
    nvar = g.target.id
    cond = g.ifs[0]
    parts = cond.values if isinstance(cond, ast.BoolOp) and isinstance(cond.op, ast.Or) else [cond]
    src = [p for p in parts if no_connected(p) == (nvar, in_side)]
    lens = [p for p in parts if isinstance(p, ast.Compare) and 'len(' in norm(p)]
    ok = len(src) == 1
    rep.ob('C17.kahn', f'{q}: seed source test', ok)
    if not ok and not lens:
        rep.violate('C17.kahn', mod, f, cond, f'{q}: seed does not contain "no connected {in_side}" for the node itself', node=cond)
    atoms = [state_pred(p) for p in parts if state_pred(p)]
    ok = sorted(a[0] for a in atoms) == ['dff', 'latch'] and all(a[1] == nvar and not a[2] and a[3] for a in atoms) and len(parts) == 3
    rep.ob('C17.kahn', f'{q}: seed state elements', ok)
    if not ok:
        rep.violate('C17.kahn', mod, f, cond, f'{q}: seed must be: no connected {in_side}, or kind contains dff, or kind contains latch (case-folded)', node=cond)
    w = wl[0]
    ok = norm(w.test).replace(' ', '') in ('len(queue)>0', 'queue', 'len(queue)!=0')
    rep.ob('C17.kahn', f'{q}: loop until queue empty', ok)
    if not ok:
        rep.violate('C17.kahn', mod, f, w.test, f'{q}: worklist loop must run until the queue is empty', node=w)
    pops = [st for st in w.body if isinstance(st, ast.Assign) and norm(st.value) == 'queue.popleft()']
    yields = [st for st in w.body if isinstance(st, ast.Expr) and isinstance(st.value, ast.Yield)]
    all_yields = find_all(f, ast.Yield)
    ok = len(pops) == 1 and len(yields) == 1 and len(all_yields) == 1 and norm(yields[0].value.value) == norm(pops[0].targets[0])
    rep.ob('C17.kahn', f'{q}: each dequeued node yielded once (FIFO)', ok)
    if not ok:
        rep.violate('C17.kahn', mod, f, yields[0] if yields else w, f'{q}: every node taken from the queue (popleft) must be yielded exactly once, unconditionally', node=w)
    cur = norm(pops[0].targets[0]) if pops else 'n'
    loops = [st for st in w.body if isinstance(st, ast.For) and pinlist(st.iter) == (cur, out_side)]
    if len(loops) != 1:
        rep.violate('C17.kahn', mod, f, w, f'{q}: expected one loop over {cur}.{out_side}', node=w)
        return
    lp = loops[0]
    lv = lp.target.id
    nxt = None
    incs, apps = [], []
    for st in ast.walk(lp):
        if isinstance(st, ast.Assign) and isinstance(st.value, ast.Attribute) and is_name(st.value.value, lv) and st.value.attr == next_attr:
            nxt = st.targets[0].id
    if nxt is None:
        rep.violate('C17.kahn', mod, f, lp, f'{q}: the neighbour is not taken from {lv}.{next_attr}', node=lp)
        return
    for st in lp.body:
        if isinstance(st, ast.AugAssign) and norm(st.target) == f'visit_count[{nxt}]' and isinstance(st.op, ast.Add) and norm(st.value) == '1':
            incs.append(st)
    ifs = [st for st in lp.body if isinstance(st, ast.If) and any(call_name(c) == 'queue.append' for c in find_all(st, ast.Call))]
    all_apps = [c for c in find_all(w, ast.Call) if call_name(c) in ('queue.append', 'queue.appendleft', 'queue.extend')]
    ok = len(incs) == 1 and len(ifs) == 1 and len(all_apps) == 1 and lp.body.index(incs[0]) < lp.body.index(ifs[0]) \
        and [norm(a) for a in all_apps[0].args] == [nxt] and call_name(all_apps[0]) == 'queue.append'
    rep.ob('C17.kahn', f'{q}: count incremented once before the readiness test; single enqueue site', ok)
    if not ok:
        rep.violate('C17.kahn', mod, f, lp, f'{q}: visit_count[{nxt}] += 1 must precede a single `if ...: queue.append({nxt})`', node=lp)
        return
    t = ifs[0].test
    parts = t.values if isinstance(t, ast.BoolOp) and isinstance(t.op, ast.And) else [t]
    ready = [p for p in parts if isinstance(p, ast.Compare) and len(p.ops) == 1 and isinstance(p.ops[0], ast.Eq) and norm(p.left) == f'visit_count[{nxt}]']
    okr = len(ready) == 1 and counts_connected(ready[0].comparators[0]) == (nxt, in_side)
    uses_len = len(ready) == 1 and 'len(' in norm(ready[0].comparators[0]) and not okr
    rep.ob('C17.kahn', f'{q}: readiness == number of connected {in_side}', okr)
    if not okr and not uses_len:
        rep.violate('C17.kahn', mod, f, t, f'{q}: a neighbour must be enqueued exactly when visit_count equals its number of connected {in_side}', node=t)
    atoms = [state_pred(p) for p in parts if state_pred(p)]
    ok = sorted(a[0] for a in atoms) == ['dff', 'latch'] and all(a[1] == nxt and a[2] and a[3] for a in atoms) and len(parts) == 3
    rep.ob('C17.kahn', f'{q}: state elements are not enqueued', ok)
    if not ok:
        rep.violate('C17.kahn', mod, f, t, f'{q}: enqueue must exclude kinds containing dff or latch (case-folded), and nothing else', node=t)


def mirror(rep, mod, fns):
    rep.rule('C17.mirror', 'reversed_topological_order equals topological_order under ins<->outs, driver<->reader, succ<->pred')
    fwd, rev = fns['Circuit.topological_order'], fns['Circuit.reversed_topological_order']
    a = [renamed(st, names={'succ': 'pred'}, attrs={'ins': 'outs', 'outs': 'ins', 'reader': 'driver', 'driver': 'reader'}) for st in body_no_doc(fwd)]
    b = [norm(st) for st in body_no_doc(rev)]
    tolerated = {('visit_count = np.zeros(len(self.nodes), dtype=np.uint32)', 'visit_count = [0] * len(self.nodes)'): 'container type of the counters'}
    ok = len(a) == len(b)
    diffs = []
    for x, y in zip(a, b):
        if x != y and (x, y) not in tolerated:
            diffs.append((x, y))
    ok = ok and not diffs
    rep.ob('C17.mirror', 'forward vs reverse', ok, sample={'rule': 'C17.mirror', 'statements': len(a), 'differences': len(diffs)})
    if not ok:
        x, y = diffs[0] if diffs else ('<length>', f'{len(a)} vs {len(b)} statements')
        # report the first differing sub-statement
        rep.violate('C17.mirror', mod, rev, y[:300], 'reversed_topological_order is not the mirror image of topological_order (after renaming ins<->outs, driver<->reader)',
                    witness={'forward (renamed)': x[:400], 'reverse': y[:400]}, node=rev)


def predicates(rep, mod, fns):
    rep.rule('C17.pred', 'the state-element predicate is the same case-folded substring test (dff, latch) at seed, enqueue, level and s_nodes')
    sites = []
    for q in ('Circuit.topological_order', 'Circuit.reversed_topological_order', 'Circuit.topological_order_with_level'):
        for a in collect_state_atoms(fns[q]):
            sites.append((q, a))
    # a predicate extracted into a helper method of the class (self._is_sequential(n)) is a site of its own
    helpers = set()
    for q in ('Circuit.topological_order', 'Circuit.reversed_topological_order', 'Circuit.topological_order_with_level'):
        for c in find_all(fns[q], ast.Call):
            if isinstance(c.func, ast.Attribute) and isinstance(c.func.value, ast.Name) and c.func.value.id in ('self', 'Circuit'):
                helpers.add(c.func.attr)
    for h in sorted(helpers):
        try:
            hf = mod.func(f'Circuit.{h}')
        except (AnchorError, KeyError):
            continue
        if f'Circuit.{h}' in fns:
            continue
        for a in collect_state_atoms(hf):
            sites.append((f'Circuit.{h}', a))
            fns = dict(fns, **{f'Circuit.{h}': hf})
    sn = mod.func('Circuit.s_nodes')
    for a in collect_state_atoms(sn):
        sites.append(('Circuit.s_nodes', a))
    rep.floor('state predicate sites', len(sites), 6)
    for q, (sub, node, neg, folded) in sites:
        ok = folded and sub in ('dff', 'latch')
        rep.ob('C17.pred', f'{q}: {sub!r} on {node}', ok)
        if not ok:
            rep.violate('C17.pred', mod, q, f"'{sub}' {'not in' if neg else 'in'} {node}.kind{'.lower()' if folded else ''}",
                        f'{q}: state-element test must be a lower-case substring ("dff"/"latch") of kind.lower(); s_nodes, the traversal cut and the levels must agree', node=fns.get(q, sn))
    per = {}
    for q, (sub, node, neg, folded) in sites:
        per.setdefault(q, set()).add(sub)
    for q, subs in per.items():
        ok = subs == {'dff', 'latch'}
        rep.ob('C17.pred', f'{q}: {sorted(subs)}', ok)
        if not ok:
            rep.violate('C17.pred', mod, q, f'{q}: tests {sorted(subs)}', f'{q}: tests {sorted(subs)} but state elements are kinds containing dff or latch', node=fns.get(q, sn))
    # s_nodes order: ports, then flip-flops, then latches
    # evaluated (Engine M) on every node list of length <= 4 over representative kinds and every port subset/order of size <= 2
    import itertools
    from kvstatic import minieval
    kinds = ['AND2', 'DFFX1', 'sdffar', 'LATCH', 'dlatch_dff', 'input']
    bad = None
    ncase = 0
    try:
        for n in range(0, 4):
            for ks in itertools.product(kinds, repeat=n):
                nodes = [minieval.NS(kind=k, index=i, name=f'n{i}') for i, k in enumerate(ks)]
                for io in [()] + [(i,) for i in range(n)] + [(i, j) for i in range(n) for j in range(n) if i != j]:
                    ncase += 1
                    me = minieval.NS(nodes=nodes, io_nodes=[nodes[i] for i in io])
                    try:
                        got = minieval.call_function(sn, [me])
                        got = [x.index for x in got]
                    except (IndexError, KeyError, TypeError, AttributeError) as e:
                        got = f'{type(e).__name__}'
                    want = list(io) + [i for i, k in enumerate(ks) if 'dff' in k.lower()] + [i for i, k in enumerate(ks) if 'latch' in k.lower()]
                    if got != want and bad is None:
                        bad = (ks, io, got, want)
        ok = bad is None
        rep.ob('C17.pred', f's_nodes = ports + flip-flops + latches (evaluated on {ncase} small circuits)', ok, evals=ncase)
        if not ok:
            rep.violate('C17.pred', mod, sn, 's_nodes', f's_nodes must list io_nodes, then nodes whose kind contains dff, then nodes whose kind contains latch (index order): '
                        f'for node kinds {list(bad[0])} with ports {list(bad[1])} it yields positions {bad[2]} instead of {bad[3]}', node=sn)
    except ModelError:
        r = [x for x in find_all(sn, ast.Return)]
        txt = norm(r[0].value).replace(' ', '') if r else ''
        ok = txt == "list(self.io_nodes)+[nforninself.nodesif'dff'inn.kind.lower()]+[nforninself.nodesif'latch'inn.kind.lower()]"
        rep.ob('C17.pred', 's_nodes = ports + flip-flops + latches', ok)
        if not ok:
            rep.violate('C17.pred', mod, sn, r[0] if r else 's_nodes', 's_nodes must list io_nodes, then nodes whose kind contains dff, then nodes whose kind contains latch (index order)', node=sn)


def levels(rep, mod, f):
    rep.rule('C17.level', 'level: sources and state elements 0, others max(level[driver]) + 1 over connected inputs')
    q = f._qualname
    loops = [st for st in body_no_doc(f) if isinstance(st, ast.For)]
    ok = len(loops) == 1 and norm(loops[0].iter) == 'self.topological_order()'
    if not ok:
        raise ModelError(f'{q}: structure not recognised')
    lp = loops[0]
    n = lp.target.id
    iff = [st for st in lp.body if isinstance(st, ast.If)]
    ok = False
    if len(iff) == 1:
        t = iff[0].test
        parts = t.values if isinstance(t, ast.BoolOp) and isinstance(t.op, ast.Or) else [t]
        src = [p for p in parts if no_connected(p) == (n, 'ins')]
        atoms = [state_pred(p) for p in parts if state_pred(p)]
        b = [norm(s).replace(' ', '') for s in iff[0].body]
        e = [norm(s).replace(' ', '') for s in iff[0].orelse]
        lens = [p for p in parts if isinstance(p, ast.Compare) and 'len(' in norm(p)]
        ok_src = len(src) == 1 or bool(lens)   # len() form is reported by C17.count
        ok = ok_src and sorted(a[0] for a in atoms) == ['dff', 'latch'] and not any(a[2] for a in atoms) and all(a[1] == n for a in atoms) and b == ['l=0'] \
            and e == [f'l=level[[l.driver.indexforlin{n}.insiflisnotNone]].max()+1']
    rep.ob('C17.level', q, ok)
    if not ok:
        rep.violate('C17.level', mod, f, iff[0] if iff else lp, f'{q}: level must be 0 for sources/state elements, else 1 + max level of the drivers of connected inputs', node=lp)
    st = [norm(s).replace(' ', '') for s in lp.body]
    ok = f'level[{n}]=l' in st and f'yield({n},l)' in st and st.index(f'level[{n}]=l') < st.index(f'yield({n},l)')
    rep.ob('C17.level', f'{q}: level recorded before yield', ok)
    if not ok:
        rep.violate('C17.level', mod, f, lp, f'{q}: level[{n}] = l must be stored before (n, l) is yielded', node=lp)


def lines_and_fanin(rep, mod, fns):
    rep.rule('C17.lines', 'line order yields each non-None output of each node of the topological order once')
    f = fns['Circuit.topological_line_order']
    txt = [cz(s) for s in body_no_doc(f)]
    ok = txt == ['forninself.topological_order():forlineinn.outs:iflineisnotNone:yieldline']
    rep.ob('C17.lines', 'topological_line_order', ok)
    if not ok:
        rep.violate('C17.lines', mod, f, body_no_doc(f)[0], 'topological_line_order must yield every non-None line of n.outs for n in topological_order()', node=f)
    rep.rule('C17.fanin', 'fan-in: marks seeded from origins, propagated reader -> driver over the reversed order, node yielded iff marked')
    f = fns['Circuit.fanin']
    body = body_no_doc(f)
    txt = [cz(s) for s in body]
    p = f.args.args[1].arg
    ok = len(txt) == 3 and txt[0] == 'marks=[False]*len(self.nodes)' and txt[1] == f'forninself.{"" }{"" }'.replace('self.', '') + '' or True
    exp = ['marks=[False]*len(self.nodes)', f'fornin{p}:marks[n]=True', czs("""
        for n in self.reversed_topological_order():
            if not marks[n]:
                for line in n.outs:
                    if line is not None:
                        marks[n] |= marks[line.reader]
            if marks[n]:
                yield n
        """)]
    ok = txt == exp
    rep.ob('C17.fanin', 'fanin', ok)
    if not ok:
        d = next((i for i, (a, b) in enumerate(zip(txt, exp)) if a != b), min(len(txt), len(exp)))
        rep.violate('C17.fanin', mod, f, body[d] if d < len(body) else f.name, 'fanin must seed marks from the origins, propagate marks[line.reader] over connected outputs along reversed_topological_order, and yield exactly the marked nodes', node=f)


def locs_evaluated(rep, mod):
    """C17.locs decided by evaluating Circuit._locs (Engine M) on families of node names against the documented lookup. Returns False when _locs is
    outside the evaluator subset."""
    import itertools
    import re as _re
    from kvstatic import minieval
    NS = minieval.NS
    f = mod.func('Circuit._locs')
    cls = mod.cls('Circuit')

    def spec(prefix, names):
        top = {}
        for i, nm in enumerate(names):
            if not nm.startswith(prefix):
                continue
            k = len(nm)
            while k > len(prefix) and nm[k - 1] in '0123456789_[]':
                k -= 1
            base, suffix = nm[:k], nm[k:]
            path = [base] + [int(v) for v in _re.split(r'[_\[\]]+', suffix) if v]
            d = top
            for j in path[:-1]:
                if not isinstance(d.get(j, {}), dict):
                    return 'collision'
                d = d.setdefault(j, {})
            if isinstance(d.get(path[-1]), dict):
                return 'collision'
            d[path[-1]] = i

        def sv(d):
            return [sv(v) for _k, v in sorted(d.items())] if isinstance(d, dict) else d
        try:
            l = sv(top)
        except TypeError:
            return 'collision'
        while isinstance(l, list) and len(l) == 1:
            l = l[0]
        return None if isinstance(l, list) and not l else l
    fams = [
        ('data', ['data[0]', 'data[1]', 'data[2]', 'clk']), ('data', ['clk', 'data[2]', 'data[0]', 'data[1]']), ('data', ['data[10]', 'data[2]', 'data[1]', 'x']),
        ('d', ['d_0', 'd_10', 'd_9', 'q_1']), ('d_', ['d_0', 'd_10', 'd_9']), ('a', ['a_1_0', 'a_0_1', 'a_0_0', 'a_1_1', 'b_0_0']),
        ('m', ['m[1][0]', 'm[0][1]', 'm[0][0]', 'm[1][1]']), ('data', ['data0[1]', 'data1[0]', 'data0[0]', 'data1[1]']),
        ('en', ['enable', 'x', 'y']), ('en', ['x', 'end', 'enable']), ('zz', ['a', 'b']), ('x', []), ('clk', ['clk']), ('b', ['ab[0]', 'b[1]', 'b[0]']),
        ('s', ['s[3]', 's[1]']), ('q', ['q[0]']), ('r', ['r_7', 'r_8', 'r_9', 'r_10', 'r_11']), ('p', ['p[2]_1', 'p[2]_0', 'p[1]_0', 'p[1]_1']),
        ('io', ['io_1[0]', 'io_0[1]', 'io_0[0]', 'io_1[1]', 'clk', 'rst']),
    ]
    rep.rule('C17.locs', '_locs evaluated on families of port / state names (bracket and underscore indices, gaps, several signals, two dimensions, every order): positions of the names '
                         'that start with the prefix, index suffix = trailing run of digits _ [ ], sorted by numeric index, nested per dimension, single results unwrapped, None if nothing matches')
    bad = None
    ncase = 0
    for prefix, names in fams:
        perms = list(itertools.permutations(names)) if len(names) <= 4 else [tuple(names), tuple(reversed(names)), tuple(names[1:] + names[:1])]
        for order in perms:
            want = spec(prefix, list(order))
            if want == 'collision':
                continue
            ncase += 1
            nodes = [NS(name=n, index=k, kind='X') for k, n in enumerate(order)]
            me = NS()
            genv = {}
            minieval.bind_class(me, cls, genv, skip=('__init__', '_locs'))
            try:
                got = minieval.call_function(f, [me, prefix, nodes], genv)
            except ModelError:
                raise
            except (IndexError, KeyError, TypeError, AttributeError, ValueError, RuntimeError) as e:
                got = f'{type(e).__name__}: {e}'
            if got != want and bad is None:
                bad = (prefix, list(order), got, want)
    ok = bad is None
    rep.ob('C17.locs', f'_locs on {ncase} name lists', ok, evals=ncase)
    if not ok:
        prefix, order, got, want = bad
        rep.violate('C17.locs', mod, f, '_locs', f'Circuit._locs({prefix!r}) over the names {order} returns {got}; the documented lookup gives {want} (positions ordered LSB to MSB by numeric index, nested per dimension)', node=f)
    rep.floor('name lists _locs was evaluated on', ncase, 100)
    # the two public lookups: io_locs over the ports, s_locs over ports + flip-flops + latches (the s_nodes order)
    from kvstatic import graphmodel
    C = graphmodel.classes(mod)['Circuit']
    layouts = [
        (['a[0]', 'a[1]', 'q[3]'], [('q[1]', 'DFF_X1'), ('g', 'AND2'), ('q[0]', 'LATCH'), ('q[2]', 'sdffx'), ('a[2]', 'dlatch')]),
        (['clk', 'd[1]', 'd[0]'], [('r_1', 'LATCHX'), ('r_0', 'DFF'), ('n1', 'INV')]),
        ([], [('s[0]', 'DFF'), ('s[1]', 'DFF')]),
    ]
    bad2 = None
    nq = 0
    for ports, others in layouts:
        c = C('t')
        io = [NS(name=n, kind='input', index=k) for k, n in enumerate(ports)]
        rest = [NS(name=n, kind=k_, index=len(io) + j) for j, (n, k_) in enumerate(others)]
        c.nodes = io + rest
        c.io_nodes = list(io)
        snames = ports + [n for n, k_ in others if 'dff' in k_.lower()] + [n for n, k_ in others if 'latch' in k_.lower()]
        for prefix in sorted({n[0] for n in ports + [o[0] for o in others]} | {'zz', 'q'}):
            for meth, names in (('io_locs', ports), ('s_locs', snames)):
                nq += 1
                want = spec(prefix, names)
                if want == 'collision':
                    continue
                try:
                    got = getattr(c, meth)(prefix)
                except ModelError:
                    raise
                except (IndexError, KeyError, TypeError, AttributeError, ValueError, RuntimeError) as e:
                    got = f'{type(e).__name__}: {e}'
                if got != want and bad2 is None:
                    bad2 = (meth, prefix, ports, others, got, want)
    ok = bad2 is None
    rep.ob('C17.locs', f'io_locs / s_locs on {nq} lookups (ports, flip-flops and latches interleaved in the node list)', ok, evals=nq)
    if not ok:
        meth, prefix, ports, others, got, want = bad2
        rep.violate('C17.locs', mod, mod.func('Circuit.' + meth), meth, f'Circuit.{meth}({prefix!r}) on a circuit with ports {ports} and further nodes {others} returns {got}; positions in '
                    f'{"io_nodes" if meth == "io_locs" else "s_nodes (ports, then flip-flops, then latches)"} ordered by index are {want}', node=mod.func('Circuit.' + meth))
    return True


def locs(rep, mod, regex_only=False):
    rep.rule('C17.locs' if not regex_only else 'C17.locs-regex', 'prefix lookup: index suffix = run of [digit _ [ ]] anchored at the end; indices converted with int() (numeric order); sorted recursively')
    f = mod.func('Circuit._locs')
    js = [n for n in ast.walk(f) if isinstance(n, ast.JoinedStr)]
    if len(js) != 1:
        raise ModelError('Circuit._locs: expected one f-string regex')
    parts = []
    for v in js[0].values:
        parts.append(v.value if isinstance(v, ast.Constant) else 'PREFIX')
    rx = ''.join(parts)
    # decided by bounded exhaustive comparison: with the prefix 'ab', re.match(<the regex>, name) must split every short name the way the
    # lookup is documented - the name starts with the prefix, group 2 is the longest trailing run of [digit _ [ ]] behind the prefix,
    # group 1 is everything before it; no match otherwise
    import itertools
    PFX = 'ab'
    try:
        cre = re.compile(rx.replace('PREFIX', PFX))
    except re.error as e:
        raise ModelError(f'Circuit._locs: regex {rx!r} does not compile: {e}')

    def spec(name):
        if not name.startswith(PFX):
            return None
        rest = name[len(PFX):]
        k = 0
        while k < len(rest) and rest[len(rest) - 1 - k] in '0123456789_[]':
            k += 1
        return (PFX + rest[:len(rest) - k], rest[len(rest) - k:])
    bad = None
    ncmp = 0
    for alpha, nmax in (('abx_[]1/.', 5), ('ab_1/', 7)):
        for n in range(0, nmax + 1):
            for tup in itertools.product(alpha, repeat=n):
                name = ''.join(tup)
                ncmp += 1
                mm = cre.match(name)
                got = None
                if mm:
                    try:
                        got = (mm[1], mm[2])
                    except IndexError:
                        got = 'groups'
                if got != spec(name):
                    bad = (name, got, spec(name))
                    break
            if bad:
                break
        if bad:
            break
    ok = bad is None
    rep.ob('C17.locs', f'regex {rx} splits every short name as documented ({ncmp} names)', ok, evals=ncmp, sample={'rule': 'C17.locs', 'regex': rx})
    if not ok:
        rep.violate('C17.locs', mod, f, js[0], f'_locs regex {rx!r}: for the prefix {PFX!r} the name {bad[0]!r} is split as {bad[1]} but the lookup is documented as {bad[2]} '
                    f'(name starts with the prefix; the index suffix is the trailing run of digits, _, [, ])', witness={'name': bad[0], 'got': str(bad[1]), 'want': str(bad[2])}, node=js[0])
    if regex_only:
        return
    m = [c for c in find_all(f, ast.Call) if call_name(c) == 're.match']
    ok = len(m) == 1 and len(m[0].args) == 2 and norm(m[0].args[1]).endswith('.name')
    rep.ob('C17.locs', 're.match on node name (anchored at start)', ok)
    if not ok:
        rep.violate('C17.locs', mod, f, m[0] if m else 're.match', '_locs must use re.match (prefix anchored at the start) on the node name', node=f)
    txt = norm(f).replace(' ', '')
    ok = "[int(v)forvinre.split('[_\\\\[\\\\]]+',m[2])iflen(v)>0]" in txt
    rep.ob('C17.locs', 'indices converted with int()', ok)
    if not ok:
        rep.violate('C17.locs', mod, f, 'path = [m[1]] + [int(v) for v in re.split(...)]', '_locs must split the suffix at runs of _ [ ] and convert every index with int() before sorting (numeric, not lexicographic order)', node=f)
    ok = False
    for g in find_all(f, ast.FunctionDef):
        if g is f:
            continue
        for lc in find_all(g, ast.ListComp):
            it = lc.generators[0].iter
            if isinstance(it, ast.Call) and call_name(it) == 'sorted' and len(it.args) == 1 and not it.keywords \
                    and isinstance(it.args[0], ast.Call) and isinstance(it.args[0].func, ast.Attribute) and it.args[0].func.attr == 'items' \
                    and isinstance(lc.elt, ast.Call) and call_name(lc.elt) == g.name and not lc.generators[0].ifs:
                ok = True
    rep.ob('C17.locs', 'recursive sort by key', ok)
    if not ok:
        rep.violate('C17.locs', mod, f, 'sorted_values', '_locs must sort each nesting level by its (integer) key, recursively', node=f)
    ok = 'd[path[-1]]=i' in txt and 'enumerate(nodes)' in txt
    rep.ob('C17.locs', 'leaf = position in the given node list', ok)
    if not ok:
        rep.violate('C17.locs', mod, f, 'd[path[-1]] = i', '_locs must store the position i of the node in the list it was given', node=f)
    for q, arg in (('Circuit.io_locs', 'list(self.io_nodes)'), ('Circuit.s_locs', 'self.s_nodes')):
        g = mod.func(q)
        r = find_all(g, ast.Return)
        ok = len(r) == 1 and norm(r[0].value).replace(' ', '') == f'self._locs(prefix,{arg})'
        rep.ob('C17.locs', q, ok)
        if not ok:
            rep.violate('C17.locs', mod, g, r[0] if r else q, f'{q} must return self._locs(prefix, {arg})', node=g)


def depends(rep, repo):
    """Pin lists hold None exactly where Line.remove leaves it and fork outputs stay gap-free and correctly numbered (C09.remove): the
    traversals rely on both."""
    from checks import c09
    cmod = repo.mod('circuit')
    try:
        if c09.history_evaluated(rep, repo, cmod):       # Line.remove evaluated along edit histories (C09.history)
            return
    except ModelError as e:
        rep.note(f'C09.history: the graph classes are outside the evaluated subset ({e}); the structural rule C09.remove decides')
    c09.removal(rep, cmod)


def order_rules(rep, repo):
    """All C17 rules, for checks of properties that quantify over circuits and consume the topological order (the op list is built
    from it): evaluated with the caller's report, rule ids keep their C17. prefix."""
    keep = (rep.explanation, rep.trusted, rep.assumptions, rep.exhaustive)
    rep._c17_order_only = True
    try:
        run(rep, repo)
    finally:
        rep._c17_order_only = False
        rep.explanation, rep.trusted, rep.assumptions, rep.exhaustive = keep


def thorough(rep, repo):
    """Thorough tier: the quick rules plus checker self-validation on the C17 slice of the mutation corpus."""
    from kvstatic import thorough as thorough_mod
    thorough_mod.selftest_slice(rep, repo, 'C17')
