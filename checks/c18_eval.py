"""C18.extract (evaluated) - StilTransformer and StilFile.__init__ evaluated (Engine M) on the parse tree of a fixture STIL text (fixtures/sample.stil)."""
from __future__ import annotations

import os

from kvstatic.core import ModelError
from kvstatic import xform, grammar, minieval

HERE = os.path.dirname(os.path.dirname(os.path.abspath(__file__)))

WANT = {
    'version': 1.0,
    'signal_groups': {'_pi': ['b', 'a', 'si1'], '_po': ['z', 'so1'], '_si': ['si1'], '_so': ['so1']},
    'scan_chains': {'1': ['si1', 'ff2', '!', 'ff1', 'ff0', 'so1'], '2': ['si2', 'q', '!', 'so2']},
    'si_ports': {'si1': '1', 'si2': '2'},
    'so_ports': {'so1': '1', 'so2': '2'},
    'patterns': [
        {'load': {'si1': '01-', 'si2': '1'}, 'launch': {}, 'capture': {'_pi': '01-', '_po': 'HLX'}, 'unload': {'so1': 'LH-', 'so2': 'H'}},
        {'load': {'si1': '110'}, 'launch': {'_pi': '110'}, 'capture': {'_pi': '111', '_po': 'LLH'}, 'unload': {'so1': 'HHL'}},
        {'load': {'si1': '000', 'si2': '-'}, 'launch': {}, 'capture': {'_pi': '1-1', '_po': 'XXH'}, 'unload': {'so1': 'LLL', 'so2': 'L'}},
    ],
}


def plain(x):
    if isinstance(x, tuple) and hasattr(type(x), '_fields'):
        return {k: plain(getattr(x, k)) for k in type(x)._fields}
    if isinstance(x, dict):
        return {str(k): plain(v) for k, v in x.items()}
    if isinstance(x, (list, tuple)):
        return [plain(v) for v in x]
    if isinstance(x, str):
        return str(x)
    return x


def evaluate(rep, repo, mod):
    rep.rule('C18.extract', 'StilTransformer and StilFile.__init__ evaluated on the parse tree of a fixture STIL text (signal groups, two scan chains with hierarchy prefixes, `.SI` '
                            'suffixes and inversion markers, load_unload / launch / capture calls with line breaks and N characters, a capture-only pattern followed by a launch+capture '
                            'pattern): version, groups, chains, port tables and every field of every extracted pattern equal what the text says')
    text, _ = grammar.extract_grammar(mod)
    fixture = open(os.path.join(HERE, 'fixtures', 'sample.stil')).read()
    try:
        tree = xform.parse_tree(text, fixture)
    except Exception as e:  # noqa: BLE001
        if type(e).__module__.startswith('lark'):
            rep.ob('C18.extract', 'fixture STIL text is accepted by the grammar', False)
            rep.violate('C18.extract', mod, '<module>', 'GRAMMAR', f'the grammar no longer accepts the fixture STIL text: {type(e).__name__}: {str(e)[:300]}')
            return True
        raise
    cls = mod.cls('StilTransformer')
    logic = minieval.NS()
    genv = xform.module_env(mod, cls.name, extra={'logic': logic, 'float': float})
    genv.pop('float', None)
    why = None
    try:
        sf, _me = xform.transform(tree, cls, genv)
        if not isinstance(sf, minieval.NS) or not hasattr(sf, 'patterns'):
            why = f'the transformer returns {type(sf).__name__}, not the StilFile'
        else:
            for k, v in WANT.items():
                g = plain(getattr(sf, k, None))
                if g != v and why is None:
                    why = f'StilFile.{k} is {g}; the text says {v}'
    except ModelError:
        raise
    except (IndexError, KeyError, TypeError, AttributeError, ValueError, RuntimeError, AssertionError) as e:
        why = f'raises {type(e).__name__}: {e}'
    ok = why is None
    rep.ob('C18.extract', 'fixture STIL text: version, groups, chains, ports, patterns', ok, evals=1)
    if not ok:
        rep.violate('C18.extract', mod, 'StilFile.__init__', 'StilFile', f'StilTransformer / StilFile.__init__ on fixtures/sample.stil: {why}', node=mod.func('StilFile.__init__'))
    return True
