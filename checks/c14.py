"""C14 - every SDF delay lands on the right line, polarity and dataset - none is lost (structural clauses)."""
from __future__ import annotations

import ast

from kvstatic.core import Repo, Report, ModelError, AnchorError, norm
from kvstatic import grammar
from kvstatic.paths import cz, czs, guard_texts
from kvstatic.astutil import find_all, attr_chain, is_name, call_name, body_no_doc, target_names, walk_no_nested_funcs, parents, renamed, flatten_if_chain


def run(rep: Report, repo: Repo):
    rep.explanation = (
        'Effect classification of the flow from the per-CELL results to DelayFile: because the grammar allows repeated CELL blocks '
        'for one instance (and several blocks with the empty instance), entries must be accumulated per instance key, never stored '
        'with a key-overwriting operation over the raw result list. Plus: grammar/transformer agreement for the SDF grammar (compiled '
        'with the repository\'s lark), the polarity table of edge qualifiers, the shape/index conventions of the delay array in both '
        'annotation methods (sibling comparison), and the pin -> line lookups.')
    rep.trusted = ['lark LALR compilation of the grammar constant; Token is a str subclass']
    rep.assumptions = ['BOUNDED: value-level landing is decided on one stand-in delay file (C14.records) and two stand-in circuits (C14.landing); arbitrary files are not']
    mod = repo.mod('sdf')
    text, gnode = grammar.extract_grammar(mod)
    G = grammar.Grammar(text, 'sdf')
    grammar.fresh_parser_rule(rep, 'C14.fresh', mod, 'SdfTransformer')
    rep.rule('C14.grammar', 'SDF grammar <-> SdfTransformer: arity, kind, exhaustiveness, no dead callback')
    methods, handlers, n = grammar.check_agreement(rep, 'C14.grammar', mod, G, 'SdfTransformer', consumed_as_tree=('delay',))
    rep.floor('SDF callbacks analysed', n, 5)
    grammar_facts(rep, mod, G, gnode)
    rec = False
    try:
        rec = records_evaluated(rep, repo, mod)
    except ModelError as e:
        rep.note(f'C14.records: SdfTransformer is outside the evaluated subset ({e}); the structural rules C14.accumulate / C14.triple decide')
    evaluated = annotation_evaluated(rep, repo, mod)
    if not rec:
        accumulation(rep, mod, methods)
    if not (rec and evaluated):
        triples(rep, mod, methods)
    if not evaluated:
        polarity(rep, mod)     # structural forms of what the evaluation decides (used when the code is outside the evaluator subset)
        pins(rep, mod)
        shape(rep, mod)
    else:
        parse_uses_transformer(rep, mod)


def parse_uses_transformer(rep, mod):
    p = mod.func('parse')
    calls = [c for c in find_all(p, ast.Call) if call_name(c) == 'Lark']
    ok = len(calls) == 1 and any(k.arg == 'transformer' and isinstance(k.value, ast.Call) and call_name(k.value) == 'SdfTransformer' for k in calls[0].keywords) \
        and calls[0].args and cz(calls[0].args[0]) == 'GRAMMAR'
    rep.rule('C14.accumulate', 'sdf.parse runs the grammar constant with an SdfTransformer')
    rep.ob('C14.accumulate', 'parse uses GRAMMAR with SdfTransformer', ok)
    if not ok:
        rep.violate('C14.accumulate', mod, p, 'parse', 'sdf.parse must run Lark(GRAMMAR, parser="lalr", transformer=SdfTransformer())', node=p)


def grammar_facts(rep, mod, G, gnode):
    rep.rule('C14.shape-of-entries', 'grammar: a CELL may repeat, INSTANCE id is optional, interconnect/iopath = two ids + triples, triple = 3 numbers or empty')
    seqs = G.callback_sequences('triple')
    ok = seqs == {(), ('T:__ANON_20', 'T:__ANON_20', 'T:__ANON_21')} or ({len(s) for s in seqs} == {0, 3} and all(k.startswith('T:') for s in seqs for k in s))
    rep.ob('C14.shape-of-entries', f'triple children {sorted(seqs)}', ok)
    if not ok:
        rep.violate('C14.shape-of-entries', mod, '<module>', 'triple', f'grammar rule triple must keep exactly three number tokens or none; found {sorted(seqs)}', node=gnode)
    for r, ids in (('interconnect', 'T:ID'), ('iopath', 'T:ID_OR_EDGE')):
        seqs = G.callback_sequences(r)
        ok = all(len(s) >= 2 and s[0] == ids and s[1] == ids and all(k == 'R:triple' for k in s[2:]) for s in seqs)
        rep.ob('C14.shape-of-entries', f'{r}: two ids then triples', ok)
        if not ok:
            rep.violate('C14.shape-of-entries', mod, '<module>', r, f'grammar rule {r} must yield two id tokens followed by triples only', node=gnode)
    seqs = G.callback_sequences('cell')
    ok = any(s.count('R:delay') >= 2 for s in seqs) and any('T:ID' not in s for s in seqs)
    rep.ob('C14.shape-of-entries', 'cell: several delay blocks possible, instance id optional', ok)
    ok = any('T:ID' in s for s in seqs) and all(k in ('T:ID', 'R:delay') for s in seqs for k in s)
    rep.ob('C14.shape-of-entries', 'cell: the instance id is kept as a token (the only string child), delay blocks as trees', ok)
    if not ok:
        rep.violate('C14.shape-of-entries', mod, '<module>', 'cell', f'grammar rule cell must keep the INSTANCE id token and the delay blocks, nothing else; kept kinds: {sorted({k for s in seqs for k in s})}', node=gnode)
    seqs = G.callback_sequences('start')
    ok = any(s.count('R:cell') >= 2 for s in seqs)
    rep.ob('C14.shape-of-entries', 'start: repeated cell results possible (keys can repeat)', ok)
    if not ok:
        raise ModelError('SDF grammar no longer allows repeated cells: the accumulation rule would be vacuous')


def classify_store(fdef, source_pred):
    """Find how tuple results flowing from `args` end up in a mapping. Returns list of (kind, node) with kind in
    'overwrite' / 'accumulate'."""
    out = []
    argname = [a.arg for a in fdef.args.args][-1] if fdef.args.args else None
    for n in walk_no_nested_funcs(fdef):
        # dict(<generator/list over args>)
        if isinstance(n, ast.Call) and call_name(n) == 'dict' and n.args:
            a = n.args[0]
            if isinstance(a, (ast.GeneratorExp, ast.ListComp)):
                it = a.generators[0].iter
                if not (isinstance(it, ast.Call) and isinstance(it.func, ast.Attribute) and it.func.attr == 'items'):
                    if any(is_name(x, argname) for x in ast.walk(it)):
                        out.append(('overwrite', n))
            elif is_name(a, argname) or (isinstance(a, ast.Call) and any(is_name(x, argname) for x in ast.walk(a))):
                out.append(('overwrite', n))
        if isinstance(n, ast.DictComp):
            it = n.generators[0].iter
            if any(is_name(x, argname) for x in ast.walk(it)) and not (isinstance(it, ast.Call) and isinstance(it.func, ast.Attribute) and it.func.attr == 'items'):
                out.append(('overwrite', n))
        if isinstance(n, ast.For) and any(is_name(x, argname) for x in ast.walk(n.iter)):
            for st in ast.walk(n):
                if isinstance(st, ast.Assign) and isinstance(st.targets[0], ast.Subscript) and not isinstance(st.targets[0].slice, ast.Constant):
                    key, base = cz(st.targets[0].slice), cz(st.targets[0].value)
                    init_guard = any(isinstance(q, ast.If) and cz(q.test) == f'{key}notin{base}' for q in parents(st)) and cz(st.value) in ('[]', 'list()')
                    if not init_guard:
                        out.append(('overwrite', st))
                if isinstance(st, ast.AugAssign) and isinstance(st.target, ast.Subscript) and isinstance(st.op, ast.Add):
                    out.append(('accumulate', st))
                if isinstance(st, ast.Call) and isinstance(st.func, ast.Attribute) and st.func.attr in ('extend', 'append'):
                    base = st.func.value
                    if (isinstance(base, ast.Call) and isinstance(base.func, ast.Attribute) and base.func.attr == 'setdefault') or isinstance(base, ast.Subscript):
                        out.append(('accumulate', st))
    return out


def accumulation(rep, mod, methods):
    rep.rule('C14.accumulate', 'per-CELL entry lists are accumulated per instance key (append/extend/+=/setdefault), not stored by a key-overwriting operation over the raw result list')
    st = methods.get('start')
    if st is None:
        raise AnchorError('SdfTransformer.start vanished')
    stores = classify_store(st, None)
    acc = [s for k, s in stores if k == 'accumulate']
    ovw = [s for k, s in stores if k == 'overwrite']
    ok = bool(acc) and not ovw
    rep.ob('C14.accumulate', f'SdfTransformer.start: {[(k, cz(s)[:60]) for k, s in stores]}', ok, sample={'rule': 'C14.accumulate', 'stores': [(k, norm(s)[:100]) for k, s in stores]})
    for s in ovw:
        rep.violate('C14.accumulate', mod, st, s, f'SdfTransformer.start: `{norm(s)[:120]}` keeps only the last (instance, entries) pair for a repeated key: '
                    f'delays of earlier CELL blocks of the same instance (and all but the last top-level INTERCONNECT block) are lost', node=s)
    if not acc and not ovw:
        raise ModelError('SdfTransformer.start: how cell results are collected was not recognised')
    # cell callback: all delay blocks of a cell are concatenated
    c = methods.get('cell')
    t = [cz(s) for s in body_no_doc(c)]
    ok = "entries=[eforainargsifhasattr(a,'children')foreina.children]" in t and "name=next((aforainargsifisinstance(a,str)),None)" in t and t[-1] == 'return(name,entries)'
    rep.ob('C14.accumulate', 'cell: entries of all delay blocks concatenated; name = instance id or None', ok)
    if not ok:
        rep.violate('C14.accumulate', mod, c, 'SdfTransformer.cell', 'cell must return (instance id or None, concatenation of the children of all its delay blocks)', node=c)
    # DelayFile: interconnects under key None, cells under non-empty names - copy from a dict (unique keys)
    d = mod.func('DelayFile.__init__')
    t = [cz(s) for s in body_no_doc(d)]
    ok = 'self._interconnects=cells.get(None,None)' in t and 'self.cells=dict(((n,l)for(n,l)incells.items()ifn))' in [x.replace('forn,lin', 'for(n,l)in') for x in t]
    rep.ob('C14.accumulate', 'DelayFile: top-level entries from key None, cells from the named keys of the accumulated mapping', ok)
    if not ok:
        rep.violate('C14.accumulate', mod, d, 'DelayFile.__init__', 'DelayFile.__init__ must take the top-level entries from cells[None] and the per-instance entries from the remaining (unique) keys', node=d)
    p = mod.func('parse')
    ok = 'Lark(GRAMMAR,parser=\'lalr\',transformer=SdfTransformer()).parse(text)' in cz(p)
    rep.ob('C14.accumulate', 'parse uses GRAMMAR with SdfTransformer', ok)
    if not ok:
        rep.violate('C14.accumulate', mod, p, 'parse', 'sdf.parse must run Lark(GRAMMAR, parser="lalr", transformer=SdfTransformer())', node=p)


def records_evaluated(rep, repo, mod):
    """C14.records - SdfTransformer evaluated (Engine M) bottom-up on the parse tree of a small delay file: repeated CELL blocks of one instance, several
    top-level INTERCONNECT blocks, empty triples, single value lists, several DELAY blocks per cell, a cell without INSTANCE id. The records the
    DelayFile holds must be the entries of the file, per instance, in file order. Returns False when a callback is outside the evaluator subset."""
    import collections
    from kvstatic import minieval
    NS, Tok = minieval.NS, minieval.TokenStr
    rep.rule('C14.records', 'SdfTransformer evaluated on a small delay file: every IOPATH of every CELL block is kept under its instance, every INTERCONNECT of every top-level block under '
                            'the file, in file order, as (from, to, rise triple, fall triple); a single value list counts for both polarities; an empty triple stays empty; fields lose their separator')
    cls = mod.cls('SdfTransformer')
    funcs = {st.name: st for st in cls.body if isinstance(st, ast.FunctionDef)}
    genv = {}
    for st in mod.tree.body:
        if isinstance(st, ast.ClassDef) and st.name != cls.name:
            genv[st.name] = minieval.make_class(st, genv)
        elif isinstance(st, ast.Assign) and len(st.targets) == 1 and isinstance(st.targets[0], ast.Name) and isinstance(st.value, ast.Call) \
                and call_name(st.value) == 'namedtuple' and len(st.value.args) == 2:
            try:
                nt = collections.namedtuple(st.targets[0].id, ast.literal_eval(st.value.args[1]))
            except ValueError:
                raise ModelError('namedtuple with non-constant fields')
            nt._kv_class = True
            genv[st.targets[0].id] = nt
    minieval.module_functions(mod.tree, genv)

    def T(rule, *ch):
        return NS(data=rule, children=list(ch), _tree=True)

    def triple(*v):
        if not v:
            return T('triple')
        return T('triple', Tok(f'{v[0]}:'), Tok(f'{v[1]}:'), Tok(f'{v[2]})'))

    def iop(a, b, *tr):
        return T('iopath', Tok(a, 'ID_OR_EDGE'), Tok(b, 'ID_OR_EDGE'), *tr)

    def ic(a, b, *tr):
        return T('interconnect', Tok(a, 'ID'), Tok(b, 'ID'), *tr)
    tree = T('start', Tok('top', 'NAME'),
             T('cell', T('delay', ic('u1/Z', 'u2/A', triple('0.1', '0.2', '0.3'), triple('0.4', '0.5', '0.6')))),
             T('cell', Tok('u1', 'ID'), T('delay', iop('A', 'Z', triple('1.0', '1.5', '2.0'), triple('', '', '')), iop('(posedge B)', 'Z', triple('3', '3', '3'), triple()))),
             T('cell', Tok('u2', 'ID'), T('delay', iop('A', 'Z', triple('4', '5', '6'))), T('delay', iop('B', 'Z', triple(), triple('7', '8', '9')))),
             T('cell', Tok('u1', 'ID'), T('delay', iop('(negedge B)', 'Z', triple('-1', '0', '1'), triple('2.5', '2.5', '2.5')))),
             T('cell', T('delay', ic('u2/Z', 'u3/B', triple('0.7', '0.8', '0.9')), ic('\\u1/Z', 'u3/A', triple(), triple()))),
             T('cell', Tok('u3', 'ID')))
    want_cells = {
        'u1': [('A', 'Z', [1.0, 1.5, 2.0], [0.0, 0.0, 0.0]), ('(posedge B)', 'Z', [3.0, 3.0, 3.0], []), ('(negedge B)', 'Z', [-1.0, 0.0, 1.0], [2.5, 2.5, 2.5])],
        'u2': [('A', 'Z', [4.0, 5.0, 6.0], [4.0, 5.0, 6.0]), ('B', 'Z', [], [7.0, 8.0, 9.0])],
        'u3': []}
    want_ic = [('u1/Z', 'u2/A', [0.1, 0.2, 0.3], [0.4, 0.5, 0.6]), ('u2/Z', 'u3/B', [0.7, 0.8, 0.9], [0.7, 0.8, 0.9]), ('\\u1/Z', 'u3/A', [], [])]

    def transform(t):
        if not getattr(t, '_tree', False):
            return t
        ch = [transform(c) for c in t.children]
        fd = funcs.get(t.data)
        if fd is None:
            return NS(data=t.data, children=ch)
        decos = {d.id if isinstance(d, ast.Name) else getattr(d, 'attr', None) for d in fd.decorator_list}
        if decos - {'staticmethod'}:
            raise ModelError(f'callback {t.data} has an unmodelled decorator')
        me = NS()
        minieval.bind_class(me, cls, genv, skip=('__init__',))
        return minieval.call_function(fd, ([] if 'staticmethod' in decos else [me]) + [ch], genv)
    why = None
    try:
        df = transform(tree)
        cells = getattr(df, 'cells', None)
        inter = getattr(df, '_interconnects', None)
        if not isinstance(cells, dict):
            why = f'the transformer returns {type(df).__name__} without a cells table'
        else:
            got_cells = {str(k): [tuple(minieval.freeze(list(x))) for x in v] for k, v in cells.items()}
            exp_cells = {k: [tuple(minieval.freeze(list(x))) for x in v] for k, v in want_cells.items() if v or k in got_cells}
            if got_cells != exp_cells:
                why = f'the per-instance records are {got_cells}; the file holds {exp_cells}'
            else:
                got_ic = [tuple(minieval.freeze(list(x))) for x in (inter or [])]
                exp_ic = [tuple(minieval.freeze(list(x))) for x in want_ic]
                if got_ic != exp_ic:
                    why = f'the top-level INTERCONNECT records are {got_ic}; the file holds {exp_ic}'
    except ModelError:
        raise
    except (IndexError, KeyError, TypeError, AttributeError, ValueError, RuntimeError, AssertionError) as e:
        why = f'raises {type(e).__name__}: {e}'
    ok = why is None
    rep.ob('C14.records', 'records of the stand-in delay file (3 instances, 6 CELL blocks, 2 top-level blocks)', ok, evals=9)
    if not ok:
        rep.violate('C14.records', mod, cls.name, 'SdfTransformer', f'SdfTransformer / DelayFile: {why} (file: u1 has two CELL blocks, u2 two DELAY blocks, two CELL blocks without INSTANCE id hold '
                    f'INTERCONNECTs, `()` is an empty triple, `(::)` three empty fields, one value list counts for rise and fall)', node=funcs.get('start'))
    return True


def triples(rep, mod, methods):
    rep.rule('C14.triple', 'triple -> 3 floats or []; a single delay list applies to both output polarities; empty triples read as [0, 0, 0] in both consumers')
    for nm in ('triple', 'interconnect', 'iopath'):
        if nm not in methods:
            rep.violate('C14.triple', mod, 'SdfTransformer', nm, f'SdfTransformer.{nm} callback is missing')
            return
    t = methods['triple']
    ok = cz(body_no_doc(t)[0]) == 'return[float(a.value[:-1])iflen(a.value)>1else0.0forainargs]'
    rep.ob('C14.triple', 'triple strips the separator and reads an empty field as 0.0', ok)
    if not ok:
        rep.violate('C14.triple', mod, t, body_no_doc(t)[0], 'triple must convert each of its tokens with float(tok[:-1]) (separator stripped) and read an empty field as 0.0', node=t)
    s = mod.func('sanitize')
    tt = [cz(x) for x in body_no_doc(s)]
    ok = tt == ['iflen(args)==3:args.append(args[2])', 'return[str(args[0]),str(args[1])]+args[2:]']
    rep.ob('C14.triple', 'sanitize duplicates a single delay list (rise = fall) and keeps id order', ok)
    if not ok:
        rep.violate('C14.triple', mod, s, 'sanitize', 'sanitize must duplicate a single value list for the second output polarity and return [id1, id2, rise, fall]', node=s)
    for nm, cls in (('interconnect', 'Interconnect'), ('iopath', 'IOPath')):
        ok = cz(body_no_doc(methods[nm])[0]) == f'return{cls}(*sanitize(args))'
        rep.ob('C14.triple', f'{nm} -> {cls}(*sanitize(args))', ok)
        if not ok:
            rep.violate('C14.triple', mod, methods[nm], nm, f'{nm} must build {cls}(*sanitize(args))', node=methods[nm])
    nt = {}
    for st in mod.tree.body:
        if isinstance(st, ast.Assign) and isinstance(st.value, ast.Call) and call_name(st.value) == 'namedtuple':
            nt[st.targets[0].id] = cz(st.value.args[1])
    ok = nt.get('Interconnect') == "['orig','dest','r','f']" and nt.get('IOPath') == "['ipin','opin','r','f']"
    rep.ob('C14.triple', 'entry records are (from, to, rise, fall)', ok)
    if not ok:
        rep.violate('C14.triple', mod, '<module>', f'{nt}', 'Interconnect / IOPath must be (orig|ipin, dest|opin, r, f): rise delays before fall delays')
    io, ic = mod.func('DelayFile.iopaths'), mod.func('DelayFile.interconnects')
    zi = [n for n in ast.walk(io) if isinstance(n, ast.ListComp) and '[0,0,0]' in cz(n)]
    zc = [n for n in ast.walk(ic) if isinstance(n, ast.ListComp) and '[0,0,0]' in cz(n)]
    def zform(n):
        # the local that holds the value lists and the comprehension variable are the maintainer's to name
        g = n.generators[0]
        if len(n.generators) != 1 or g.ifs or not isinstance(g.iter, ast.Name) or not isinstance(g.target, ast.Name):
            return None
        return renamed(n, names={g.iter.id: 'X', g.target.id: 'd'}).replace(' ', '')
    ok = len(zi) == 1 and len(zc) == 1 and zform(zi[0]) == zform(zc[0]) == '[diflen(d)>0else[0,0,0]fordinX]'
    rep.ob('C14.triple', 'empty triple -> [0, 0, 0] identically in iopaths and interconnects', ok)
    if not ok:
        rep.violate('C14.triple', mod, io, zi[0] if zi else 'empty-triple mapping', 'both annotation methods must map an empty value triple to [0, 0, 0] with the same expression', node=io)


def polarity(rep, mod):
    rep.rule('C14.polarity', "'(posedge ' -> input polarity [0], '(negedge ' -> [1], otherwise [0, 1]; the qualifier is stripped before the pin lookup")
    f = mod.func('DelayFile.iopaths')
    chains = [s for s in ast.walk(f) if isinstance(s, ast.If) and 'posedge' in cz(s.test)]
    ok = False
    if chains:
        arms, orelse = flatten_if_chain(chains[0])
        got = {cz(t): [cz(x) for x in b] for t, b in arms}
        ok = got.get("i_pin_spec.startswith('(posedge')") == ['i_pol_idxs=[0]'] and got.get("i_pin_spec.startswith('(negedge')") == ['i_pol_idxs=[1]'] and [cz(x) for x in orelse] == ['i_pol_idxs=[0,1]']
    rep.ob('C14.polarity', 'edge qualifier table', ok, sample={'rule': 'C14.polarity', 'table': got if chains else None})
    if not ok:
        rep.violate('C14.polarity', mod, f, chains[0] if chains else 'edge qualifier table', "iopaths: '(posedge ' must select input polarity index [0] (rising), '(negedge ' [1] (falling), no qualifier both [0, 1]", node=chains[0] if chains else f)
    subs = [c for c in find_all(f, ast.Call) if call_name(c) == 're.sub']
    ok = len(subs) == 1 and isinstance(subs[0].args[0], ast.Constant) and subs[0].args[0].value == r'\((neg|pos)edge ([^)]+)\)' and subs[0].args[1].value == r'\2' and cz(subs[0].args[2]) == 'i_pin_spec'
    rep.ob('C14.polarity', 'qualifier stripped to the bare pin name', ok)
    if not ok:
        rep.violate('C14.polarity', mod, f, subs[0] if subs else 're.sub', 'iopaths must strip `(posedge X)` / `(negedge X)` to X before the pin lookup', node=f)
    if subs and chains:
        st = subs[0]
        while not isinstance(st, ast.stmt):
            st = st._parent
        ok = st.lineno > chains[0].lineno
        rep.ob('C14.polarity', 'qualifier examined before it is stripped', ok)
        if not ok:
            rep.violate('C14.polarity', mod, f, st, 'the edge qualifier must be examined before it is stripped', node=st)


def shape(rep, mod):
    rep.rule('C14.shape', 'delay array: zeros (lines, 2, 2, 3) during construction, indexed [line, input polarity] <- [rise, fall] triples, dataset axis moved first; same in both methods')
    for q, store in (('DelayFile.iopaths', 'delays[line,i_pol_idxs]='), ('DelayFile.interconnects', 'delays[line,:]=delvals')):
        f = mod.func(q)
        t = cz(f)
        ok = 'delays=np.zeros((len(circuit.lines),2,2,3))' in t and 'returnnp.moveaxis(delays,-1,0)' in t and store in t
        rep.ob('C14.shape', q, ok)
        if not ok:
            rep.violate('C14.shape', mod, f, q, f'{q}: delays = np.zeros((len(circuit.lines), 2, 2, 3)); `{store}...`; return np.moveaxis(delays, -1, 0)', node=f)
    f = mod.func('DelayFile.iopaths')
    t = cz(f)
    ok = 'for(i_pin_spec,o_pin_spec,*dels)iniopaths' in t.replace('fori_pin_spec,o_pin_spec,*delsiniopaths', 'for(i_pin_spec,o_pin_spec,*dels)iniopaths')
    rep.ob('C14.shape', 'iopath record unpacked as (ipin, opin, *[rise, fall])', ok)
    if not ok:
        rep.violate('C14.shape', mod, f, 'for i_pin_spec, o_pin_spec, *dels in iopaths', 'iopaths must unpack each record as (input pin, output pin, rise triple, fall triple)', node=f)
    g = mod.func('DelayFile.interconnects')
    t = cz(g)
    ok = 'for(n1,n2,*delvals)inself._interconnects' in t.replace('forn1,n2,*delvalsinself._interconnects', 'for(n1,n2,*delvals)inself._interconnects')
    rep.ob('C14.shape', 'interconnect record unpacked as (from, to, *[rise, fall])', ok)
    if not ok:
        rep.violate('C14.shape', mod, g, 'for n1, n2, *delvals in self._interconnects', 'interconnects must iterate the top-level entries as (from, to, rise triple, fall triple)', node=g)


def pins(rep, mod):
    rep.rule('C14.pin', 'IOPATH annotates cell.ins[pin_index(kind, input pin)]; INTERCONNECT annotates the input line of the branch fork driving the destination pin')
    f = mod.func('DelayFile.iopaths')
    t = cz(f)
    ne = {cz(n.target): cz(n.value) for n in ast.walk(f) if isinstance(n, ast.NamedExpr)}
    ok = ne.get('line') == 'cell.ins[tlib.pin_index(cell.kind,i_pin_spec)]' and ne.get('cell') == 'circuit.cells.get(name,None)' and 'delays[line,i_pol_idxs]=' in t
    rep.ob('C14.pin', 'iopaths: line = cell.ins[tlib.pin_index(cell.kind, i_pin_spec)]', ok)
    if not ok:
        rep.violate('C14.pin', mod, f, 'line := cell.ins[tlib.pin_index(cell.kind, i_pin_spec)]', 'iopaths must annotate the line at input pin tlib.pin_index(cell.kind, <input pin of the IOPATH>) of the named cell', node=f)
    g = mod.func('DelayFile.interconnects')
    t = cz(g)
    need = ['(c1,c2)=(circuit.cells[cn1],circuit.cells[cn2])', 'p1=tlib.pin_index(c1.kind,pn1)ifpn1isnotNoneelse0', 'p2=tlib.pin_index(c2.kind,pn2)ifpn2isnotNoneelse0',
            '(f1,f2)=(c1.outs[p1].reader,c2.ins[p2].driver)', czs("""
                if f1 != f2:
                    assert len(f2.outs) == 1
                    assert f1.outs[f2.ins[0].driver_pin] == f2.ins[0]
                    line = f2.ins[0]
                elif len(f2.outs) == 1:
                    line = f2.ins[0]
                else:
                    log.warn(f'No branchfork to annotate interconnect delay {c1.name}/{p1}->{c2.name}/{p2}')
                    continue
                """), 'delays[line,:]=delvals']
    t2 = t.replace('c1,c2=(circuit', '(c1,c2)=(circuit').replace('f1,f2=(c1', '(f1,f2)=(c1')
    blocks = [cz(x) for x in ast.walk(g) if isinstance(x, ast.If)]
    for w in need:
        ok = w in t2 or w in blocks
        rep.ob('C14.pin', f'interconnects: {w[:70]}', ok)
        if not ok:
            rep.violate('C14.pin', mod, g, w[:120], f'interconnects: `{w[:140]}` required: origin from the driver cell\'s output pin, destination from the reader cell\'s input pin, annotated line = input of the (branch) fork in front of the destination', node=g)
    ok = "(cn1,pn1)=n1.split('/')if'/'inn1else(n1,None)" in t.replace("cn1,pn1=n1", "(cn1,pn1)=n1") and "(cn2,pn2)=n2.split('/')if'/'inn2else(n2,None)" in t.replace("cn2,pn2=n2", "(cn2,pn2)=n2")
    rep.ob('C14.pin', 'interconnects: instance/pin split of both endpoints', ok)
    if not ok:
        rep.violate('C14.pin', mod, g, "n.split('/')", 'interconnects must split both endpoints into (instance, pin) at "/"', node=g)


def annotation_evaluated(rep, repo, mod):
    """DelayFile.iopaths and DelayFile.interconnects evaluated (Engine M) on stand-in circuits: which line receives which delay
    triples at which input polarity, for escaped / bracketed instance names, edge qualifiers, empty triples, unconnected pins, unknown
    instances, branch forks present / absent / shared."""
    from kvstatic import minieval
    NS = minieval.NS
    rep.rule('C14.shape', 'delay array: zeros (lines, 2, 2, 3) during construction, dataset axis moved first; same in both methods (evaluated)')
    rep.rule('C14.landing', 'iopaths / interconnects store every delay entry of the file at the line of the named pin (branch-fork input for interconnects), '
                            'at the qualified input polarity, with empty triples as 0 - evaluated on stand-in circuits; nothing else is written')

    def L(tag, **kw):
        return NS(tag=tag, **kw)

    shapes = []

    class DRec(minieval.Rec):
        """the delay array: records its stores; `.transpose(3, 0, 1, 2)` is the method spelling of np.moveaxis(a, -1, 0) for four axes"""
        _kv_array = True
        _kv_methods = ('transpose',)
        _kv_attrs = ()

        def transpose(self, *axes):
            if len(axes) == 1 and isinstance(axes[0], (tuple, list)):
                axes = tuple(axes[0])
            if tuple(axes) == (3, 0, 1, 2):
                shapes.append(('moveaxis', self is (self._store[0] if self._store else None), -1, 0))
                return ('moved', self)
            shapes.append(('transpose', tuple(axes)))
            return ('transposed', self)

    def np_ns(store):
        def zeros(shape):
            r = DRec()
            r._store = store
            store.append(r)
            shapes.append(('zeros', minieval.freeze(shape)))
            return r

        def moveaxis(a, s_, d):
            shapes.append(('moveaxis', a is (store[0] if store else None), s_, d))
            return ('moved', a)
        return NS(zeros=minieval.stub(zeros), moveaxis=minieval.stub(moveaxis))
    PIN = {('AND2', 'A'): 0, ('AND2', 'B'): 1, ('AND2', 'Z'): 0, ('DFF', 'D'): 0, ('DFF', 'Q'): 0, ('DFF', 'QN'): 1,
           ('MUX', 'S'): 0, ('MUX', 'A'): 1, ('MUX', 'B'): 2, ('MUX', 'Z'): 0}      # pin A sits at different positions in AND2 and MUX

    def pin_index(kind, pin):
        if (kind, pin) not in PIN:
            raise AssertionError('unknown pin')
        return PIN[(kind, pin)]
    tlib = NS(pin_index=minieval.stub(pin_index))
    log = NS(warn=minieval.stub(lambda *a: None), info=minieval.stub(lambda *a: None))

    # ---------------- iopaths
    f = mod.func('DelayFile.iopaths')
    la, lb, ld = L('la'), L('lb'), L('ld')
    cells = {'u1': NS(kind='AND2', ins=[la, lb], outs=[L('lz')], name='u1'), 'u_2_': NS(kind='AND2', ins=[None, L('lb2')], outs=[L('lz2')], name='u_2_'),
             'ff[0]': NS(kind='DFF', ins=[ld], outs=[L('lq'), None], name='ff[0]'),
             'm1': NS(kind='MUX', ins=[L('ms'), L('ma'), L('mb')], outs=[L('mz')], name='m1')}
    circuit = NS(cells=cells, lines=[0] * 9)
    sdf_cells = {
        'u1': [('(posedge B)', 'Z', [7.0, 7.0, 7.0], []), ('(negedge B)', 'Z', [], [8.0, 8.0, 8.0]), ('A', 'Z', [1.0, 2.0, 3.0], [4.0, 5.0, 6.0])],
        'm1': [('A', 'Z', [1.5, 1.5, 1.5], [2.5, 2.5, 2.5]), ('(negedge S)', 'Z', [3.5, 3.5, 3.5], [4.5, 4.5, 4.5]), ('B', 'Z', [5.5, 5.5, 5.5], [6.5, 6.5, 6.5])],
        '\\u_2_': [('A', 'Z', [1.0, 1.0, 1.0], [1.0, 1.0, 1.0]), ('B', 'Z', [2.0, 2.0, 2.0], [3.0, 3.0, 3.0])],
        'ff\\[0\\]': [('(posedge D)', 'Q', [9.0, 9.0, 9.0], [9.5, 9.5, 9.5])],
        'nosuch': [('A', 'Z', [5.0, 5.0, 5.0], [5.0, 5.0, 5.0])],
    }
    want = {}

    def z(d):
        return tuple(d) if len(d) > 0 else (0, 0, 0)
    for name, entries in sdf_cells.items():
        cell = cells.get(name.replace('\\', ''))
        if cell is None:
            continue
        for ip, _op, *dels in entries:
            pol = (0,) if ip.startswith('(posedge ') else (1,) if ip.startswith('(negedge ') else (0, 1)
            pin = ip.split(' ')[1][:-1] if ip.startswith('(') else ip
            line = cell.ins[PIN[(cell.kind, pin)]]
            if line is not None:
                want[(line.tag, pol)] = tuple(z(d) for d in dels)
    n_ok = 0
    try:
        store = []
        me = NS(cells=sdf_cells, _interconnects=[])
        del shapes[:]
        ret = minieval.call_function(f, [me, circuit, tlib], {'np': np_ns(store), 'log': log})
        got = dict(store[0]) if store else None
        ok = got == want
        shape_ok = shapes[:1] == [('zeros', (len(circuit.lines), 2, 2, 3))] and shapes[-1:] == [('moveaxis', True, -1, 0)] and isinstance(ret, tuple) and ret[:1] == ('moved',)
        rep.ob('C14.shape', 'iopaths: array (lines, 2, 2, 3) during construction, dataset axis moved to the front of the result', shape_ok)
        if not shape_ok:
            rep.violate('C14.shape', mod, f, 'iopaths', f'DelayFile.iopaths must build zeros((len(circuit.lines), 2, 2, 3)) and return np.moveaxis(delays, -1, 0); array calls seen: {shapes}', node=f)
        n_ok += 1
        rep.ob('C14.landing', 'iopaths on the stand-in circuit', ok, evals=len(want))
        if not ok:
            rep.violate('C14.landing', mod, f, 'iopaths', f'DelayFile.iopaths: on the stand-in circuit (cells u1, u_2_ with pin A unconnected, ff[0]; file names with backslashes and brackets, '
                        f'edge qualifiers, an empty triple, an unknown instance) it stores {got} but the file says {want} (key: line of the input pin, input polarities; value: rise/fall triples)',
                        witness={'got': str(got), 'want': str(want)}, node=f)
    except ModelError as e:
        rep.note(f'C14.landing: iopaths outside the evaluator subset ({e}); structural rules only')
        n_ok -= 10
    except (AssertionError, KeyError, IndexError, TypeError, AttributeError, ValueError) as e:
        rep.ob('C14.landing', 'iopaths on the stand-in circuit', False)
        rep.violate('C14.landing', mod, f, 'iopaths', f'DelayFile.iopaths raises {type(e).__name__} on the stand-in circuit (known cells and pins only; an unknown instance must only be skipped)', node=f)

    # ---------------- interconnects
    g = mod.func('DelayFile.interconnects')

    def fork(tag, nouts):
        fk = NS(kind='__fork__', tag=tag, name=tag)
        fk.ins = [L(f'{tag}.in', driver_pin=0)]
        fk.outs = [L(f'{tag}.o{k}') for k in range(nouts)]
        return fk
    # net n1: u1.Z -> stem fork s1 (2 branches) -> branch forks b1, b2 -> u2.A, u3.B ; net n2: u2.Z -> fork s2 (no fanout) -> u3.A
    s1, s2 = fork('s1', 2), fork('s2', 1)
    b1, b2 = fork('b1', 1), fork('b2', 1)
    s1.outs[0], s1.outs[1] = b1.ins[0], b2.ins[0]
    b1.ins[0].driver_pin, b2.ins[0].driver_pin = 0, 1
    b1.ins[0].tag, b2.ins[0].tag = 'b1.in', 'b2.in'
    u1 = NS(kind='AND2', name='u1', ins=[None, None], outs=[L('u1.z', reader=s1)])
    u2 = NS(kind='AND2', name='u2', ins=[L('u2.a', driver=b1), None], outs=[L('u2.z', reader=s2)])
    u3 = NS(kind='AND2', name='u3', ins=[L('u3.a', driver=s2), L('u3.b', driver=b2)], outs=[None])
    s3 = fork('s3', 2)       # a fan-out without branch forks: cannot be annotated
    u4 = NS(kind='AND2', name='u4', ins=[L('u4.a', driver=s3), None], outs=[L('u4.z', reader=s3)])
    circuit2 = NS(cells={'u1': u1, 'u2': u2, 'u3': u3, 'u4': u4, 'p': NS(kind='AND2', name='p', ins=[L('p.i', driver=s2)], outs=[L('p.o', reader=s2)])}, lines=[0] * 20)
    inter = [('u1/Z', 'u2/A', [1.0, 1.0, 1.0], [2.0, 2.0, 2.0]), ('\\u1/Z', '\\u3/B', [3.0, 3.0, 3.0], []), ('u2/Z', 'u3/A', [4.0, 4.0, 4.0], [5.0, 5.0, 5.0]),
             ('u1/Z', 'u2/A', [0.0, 0.0, 0.0], [0.0, 0.0, 0.0]), ('u3/Z', 'u2/A', [6.0, 6.0, 6.0], [6.0, 6.0, 6.0]), ('u1/Z', 'u2/B', [6.0, 6.0, 6.0], [6.0, 6.0, 6.0]),
             ('u4/Z', 'u4/A', [7.0, 7.0, 7.0], [7.0, 7.0, 7.0]), ('p', 'u3/A', [8.0, 8.0, 8.0], [9.0, 9.0, 9.0])]
    want2 = {('b1.in', ':'): ((1.0, 1.0, 1.0), (2.0, 2.0, 2.0)), ('b2.in', ':'): ((3.0, 3.0, 3.0), (0, 0, 0)), ('s2.in', ':'): ((8.0, 8.0, 8.0), (9.0, 9.0, 9.0))}
    try:
        store = []
        me = NS(cells={}, _interconnects=inter)
        del shapes[:]
        ret = minieval.call_function(g, [me, circuit2, tlib], {'np': np_ns(store), 'log': log})
        got = dict(store[0]) if store else None
        ok = got == want2
        shape_ok = shapes[:1] == [('zeros', (len(circuit2.lines), 2, 2, 3))] and shapes[-1:] == [('moveaxis', True, -1, 0)] and isinstance(ret, tuple) and ret[:1] == ('moved',)
        rep.ob('C14.shape', 'interconnects: array (lines, 2, 2, 3) during construction, dataset axis moved to the front of the result', shape_ok)
        if not shape_ok:
            rep.violate('C14.shape', mod, g, 'interconnects', f'DelayFile.interconnects must build zeros((len(circuit.lines), 2, 2, 3)) and return np.moveaxis(delays, -1, 0); array calls seen: {shapes}', node=g)
        rep.ob('C14.landing', 'interconnects on the stand-in circuit', ok, evals=len(inter))
        if not ok:
            rep.violate('C14.landing', mod, g, 'interconnects', f'DelayFile.interconnects: on the stand-in circuit (a stem fork with two branch forks, a fan-out-free net, a fan-out without branch '
                        f'forks, unconnected pins, an all-zero entry, an escaped name, a port) it stores {got} but the file says {want2} (key: input line of the branch fork / sole fork; '
                        f'value: rise/fall triples, broadcast over axis 1)', witness={'got': str(got), 'want': str(want2)}, node=g)
    except ModelError as e:
        rep.note(f'C14.landing: interconnects outside the evaluator subset ({e}); structural rules only')
        n_ok -= 10
    except (AssertionError, KeyError, IndexError, TypeError, AttributeError, ValueError) as e:
        rep.ob('C14.landing', 'interconnects on the stand-in circuit', False)
        rep.violate('C14.landing', mod, g, 'interconnects', f'DelayFile.interconnects raises {type(e).__name__} on the stand-in circuit (every entry names existing cells and pins; entries that '
                    f'cannot be annotated must only be skipped)', node=g)


    return n_ok >= 0


def depends(rep, repo):
    """SDF entries meet their cells by instance name: how the Verilog parser spells instance names (escaped identifiers lose exactly the
    backslash and the terminating blank) and inserts branch forks (C11.lexical, C11.names, C11.pins) is part of this check."""
    from checks import c11
    keep = (rep.explanation, rep.trusted, rep.assumptions, rep.exhaustive)
    try:
        c11.run(rep, repo)
    finally:
        rep.explanation, rep.trusted, rep.assumptions, rep.exhaustive = keep


def thorough(rep, repo):
    """Thorough tier: the quick rules plus checker self-validation on the C14 slice of the mutation corpus."""
    from kvstatic import thorough as thorough_mod
    thorough_mod.selftest_slice(rep, repo, 'C14')
