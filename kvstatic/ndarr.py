"""Array stand-in for Engine M: the part of the ndarray interface that kyupy's *vector* plumbing code uses (s_to_c, c_to_s, s_ppo_to_ppi,
the location tables at the end of SimOps.__init__), over nested Python lists.

What is modelled (and nothing else - anything outside raises ModelError, i.e. the evaluated rule falls back, never a verdict):
  * item read with integers, slices and at most one index array / list per subscript (outer selection = numpy's result in that case);
    a read that selects a sub-array with integers and slices only is a *view* in numpy: here it is a copy that remembers where it was taken
    from; a store through it is written through to that array (a view does not see later changes of its origin: not modelled);
  * item store of a scalar or of an array that has the selected shape (or broadcasts to it from the right), duplicates: last one wins;
  * elementwise + - * // % & | ^ and comparisons with broadcasting from the right; bool (+) bool = or, bool (*) bool = and as in numpy;
  * shape / ndim / len / iteration over the first axis; max / min / sum / any / all / copy / astype(ignored) / tolist;
  * the functions in `numpy_ns()`: choose, where, arange, concatenate, flatnonzero, zeros, full, ones, zeros_like, full_like, array, asarray,
    logical_and / _or / _not / _xor, minimum, maximum.
Element width and dtype are not modelled."""
from __future__ import annotations

import operator

from .core import ModelError
from .minieval import NS, stub


def _depth(x):
    d = 0
    while isinstance(x, list):
        d += 1
        if not x:
            break
        x = x[0]
    return d


def _shape(x):
    s = []
    while isinstance(x, list):
        s.append(len(x))
        if not x:
            break
        x = x[0]
    return tuple(s)


def _copy(x):
    return [_copy(v) for v in x] if isinstance(x, list) else x


def _raw(x):
    if isinstance(x, NDArr):
        return x.d
    if isinstance(x, (list, tuple)):
        return [_raw(v) for v in x]
    if isinstance(x, range):
        return list(x)
    return x


def _bc(a, b, f):
    al, bl = isinstance(a, list), isinstance(b, list)
    if not al and not bl:
        return f(a, b)
    da, db = _depth(a) if al else 0, _depth(b) if bl else 0
    if da > db:
        return [_bc(x, b, f) for x in a]
    if db > da:
        return [_bc(a, y, f) for y in b]
    if len(a) == len(b):
        return [_bc(x, y, f) for x, y in zip(a, b)]
    if len(a) == 1:
        return [_bc(a[0], y, f) for y in b]
    if len(b) == 1:
        return [_bc(x, b[0], f) for x in a]
    raise ValueError(f'operands could not be broadcast together with shapes {_shape(a)} {_shape(b)}')      # what numpy raises


def _map(a, f):
    return [_map(x, f) for x in a] if isinstance(a, list) else f(a)


def _flat(a):
    if isinstance(a, list):
        for x in a:
            yield from _flat(x)
    else:
        yield a


def _add(x, y):
    if isinstance(x, bool) and isinstance(y, bool):
        return x or y
    return x + y


def _mul(x, y):
    if isinstance(x, bool) and isinstance(y, bool):
        return x and y
    return x * y


def _sub(x, y):
    if isinstance(x, bool) and isinstance(y, bool):
        raise TypeError('numpy boolean subtract, the `-` operator, is not supported')
    return x - y


def _sel(k, n):
    """selector for one axis of length n -> ('i', int) | ('l', [ints])"""
    if isinstance(k, NDArr):
        k = k.d
    if isinstance(k, bool):
        raise ModelError('ndarr: boolean index')
    if isinstance(k, slice):
        return ('s', list(range(*k.indices(n))))
    if isinstance(k, (list, tuple)):
        if any(isinstance(i, bool) for i in k):
            raise ModelError('ndarr: boolean mask index')
        if any(isinstance(i, (list, tuple)) for i in k):
            raise ModelError('ndarr: multi-dimensional index array')
        out = []
        for i in k:
            i = i.__index__()
            if i < -n or i >= n:
                raise IndexError(f'index {i} is out of bounds for axis with size {n}')
            out.append(i % n if n else i)
        return ('l', out)
    if hasattr(k, '__index__'):
        i = k.__index__()
        if i < -n or i >= n:
            raise IndexError(f'index {i} is out of bounds for axis with size {n}')
        return ('i', i % n)
    raise ModelError(f'ndarr: index of type {type(k).__name__}')


class DType:
    """element type token: compared by name, callable as a scalar conversion (np.float32(x)); the value range of the type is not modelled"""
    _kv_stub = True

    def __init__(self, name):
        self.name = name

    def __call__(self, x=0):
        return float(x) if self.name.startswith('float') else int(x)

    def __eq__(self, o):
        return isinstance(o, DType) and o.name == self.name

    def __ne__(self, o):
        return not self.__eq__(o)

    def __hash__(self):
        return hash(self.name)

    def __repr__(self):
        return f'np.{self.name}'


DTYPES = ('float32', 'float64', 'int8', 'int16', 'int32', 'int64', 'uint8', 'uint16', 'uint32', 'uint64', 'bool_')


class NumpyNS(NS):
    """stand-in module: a name it does not provide is outside the model (not an AttributeError of the analysed code)"""
    def __getattr__(self, name):
        raise ModelError(f'ndarr: np.{name} is not modelled')


class NDArr:
    _kv_array = True
    _kv_methods = ('max', 'min', 'sum', 'any', 'all', 'copy', 'astype', 'tolist', 'flatten', 'ravel', 'fill')
    _kv_attrs = ('shape', 'ndim', 'size', 'T', 'dtype', 'nbytes')

    def __init__(self, data, view=False, dt=None):
        self.d = _copy(_raw(data))
        self.view = view
        self.dt = dt if dt is not None else getattr(data, 'dt', None)       # element type token (None: not stated)
        if not isinstance(self.d, list):
            raise ModelError('ndarr: zero-dimensional array')

    # ---------------------------------------------------------------- shape
    @property
    def shape(self):
        return _shape(self.d)

    @property
    def ndim(self):
        return len(self.shape)

    @property
    def size(self):
        n = 1
        for k in self.shape:
            n *= k
        return n

    @property
    def dtype(self):
        if self.dt is None:
            raise ModelError('ndarr: dtype of an array whose element type was not stated')
        return self.dt

    @property
    def nbytes(self):
        return self.size

    @property
    def T(self):
        if self.ndim == 1:
            return NDArr(self.d)
        if self.ndim == 2:
            return NDArr([list(r) for r in zip(*self.d)] if self.d and self.d[0] else [])
        raise ModelError('ndarr: transpose of more than two axes')

    def __len__(self):
        return len(self.d)

    def __iter__(self):
        for row in list(self.d):
            yield NDArr(row, view=True) if isinstance(row, list) else row

    def __index__(self):
        raise TypeError('only integer scalar arrays can be converted to a scalar index')

    def __bool__(self):
        if self.size == 1:
            return bool(next(_flat(self.d)))
        raise ValueError('The truth value of an array with more than one element is ambiguous. Use a.any() or a.all()')

    # ---------------------------------------------------------------- item access
    def _selectors(self, k):
        if not isinstance(k, tuple):
            k = (k,)
        if any(x is Ellipsis for x in k):
            if sum(x is Ellipsis for x in k) > 1:
                raise IndexError("an index can only have a single ellipsis ('...')")
            i = [x is Ellipsis for x in k].index(True)
            k = k[:i] + (slice(None),) * (self.ndim - (len(k) - 1)) + k[i + 1:]
        if any(x is None for x in k):
            raise ModelError('ndarr: newaxis')
        shape = self.shape
        if len(k) > len(shape):
            raise IndexError(f'too many indices for array: array is {len(shape)}-dimensional, but {len(k)} were indexed')
        sels = [_sel(x, shape[a]) for a, x in enumerate(k)]
        if sum(1 for t, _ in sels if t == 'l') > 1:
            raise ModelError('ndarr: more than one index array in a subscript')
        kinds = [t for t, _ in sels]
        if 'l' in kinds and 's' in kinds:
            # numpy moves the advanced axes to the front when integers and an index array are separated by a slice
            first = min(a for a, t in enumerate(kinds) if t in 'il')
            last = max(a for a, t in enumerate(kinds) if t in 'il')
            if any(kinds[a] == 's' for a in range(first, last + 1)):
                raise ModelError('ndarr: index array and integer separated by a slice')
        return sels

    def _demask(self, k):
        """a one-dimensional boolean mask over a one-dimensional array -> the list of selected positions (numpy: a[mask]); anything else unchanged"""
        m = k.d if isinstance(k, NDArr) else k
        if isinstance(m, list) and m and self.ndim == 1 and all(isinstance(b, bool) for b in m):
            if len(m) != len(self.d):
                raise IndexError(f'boolean index did not match indexed array along axis 0; size of axis is {len(self.d)} but size of corresponding boolean axis is {len(m)}')
            return [i for i, b in enumerate(m) if b]
        return k

    def _nd_index(self, k):
        """an index array of two or more dimensions into a one-dimensional array (numpy: the result has the shape of the index) -> nested list
        of checked positions, or None when k is no such index"""
        if isinstance(k, NDArr):
            k = k.d
        if not isinstance(k, list) or _depth(k) < 2 or self.ndim != 1:
            return None
        n = len(self.d)

        def chk(i):
            if isinstance(i, bool) or not hasattr(i, '__index__'):
                raise ModelError('ndarr: multi-dimensional index array with non-integer elements')
            i = i.__index__()
            if i < -n or i >= n:
                raise IndexError(f'index {i} is out of bounds for axis 0 with size {n}')
            return i % n if n else i
        return _map(k, chk)

    def __getitem__(self, k):
        k = self._demask(k)
        nd = self._nd_index(k)
        if nd is not None:
            return NDArr(_map(nd, lambda i: self.d[i]), dt=self.dt)
        r = self._getitem(k)
        if isinstance(r, NDArr):
            r.dt = self.dt
            if r.view:
                r._origin = (self, k)       # a store through the view is written through to the array it was taken from
        return r

    def _getitem(self, k):
        sels = self._selectors(k)

        def get(d, sels):
            if not sels:
                return _copy(d)
            (t, v), rest = sels[0], sels[1:]
            if t == 'i':
                return get(d[v], rest)
            return [get(d[i], rest) for i in v]
        r = get(self.d, sels)
        if isinstance(r, list):
            return NDArr(r, view=all(t != 'l' for t, _ in sels))
        return r

    def __setitem__(self, k, val):
        origin = getattr(self, '_origin', None)
        if self.view and origin is None:
            raise ModelError('ndarr: store through a view of unknown origin')
        k = self._demask(k)
        nd = self._nd_index(k)
        if nd is not None:
            v = _raw(val)
            if isinstance(v, NS):
                raise ModelError('ndarr: object stored into an array')
            if isinstance(v, list) and _depth(v) > _depth(nd):
                raise ValueError(f'shape mismatch: value array of shape {_shape(v)} could not be broadcast to indexing result of shape {_shape(nd)}')
            for i, x in _flat(_bc(nd, v, lambda i_, x_: (i_, x_))):      # duplicates: the last one wins, as in numpy (a[idx] += 1 counts once)
                self.d[i] = x
            if origin is not None:
                parent, pk = origin
                parent[pk] = NDArr(self.d)
            return
        sels = self._selectors(k)
        val = _raw(val)
        # shape of the selection
        shape = self.shape
        sel_shape = [len(v) for t, v in sels if t != 'i'] + list(shape[len(sels):])
        vshape = list(_shape(val)) if isinstance(val, list) else []
        if len(vshape) > len(sel_shape):
            lead = vshape[:len(vshape) - len(sel_shape)]
            if any(n != 1 for n in lead):
                raise ValueError(f'could not broadcast input array from shape {tuple(vshape)} into shape {tuple(sel_shape)}')
            for _ in lead:
                val = val[0]
            vshape = vshape[len(lead):]
        for a, b in zip(reversed(vshape), reversed(sel_shape)):
            if a != b and a != 1:
                raise ValueError(f'could not broadcast input array from shape {tuple(vshape)} into shape {tuple(sel_shape)}')

        if isinstance(val, NS):
            raise ModelError('ndarr: object stored into an array')
        import itertools
        full = list(sels) + [('s', list(range(n))) for n in shape[len(sels):]]
        off = len(sel_shape) - len(vshape)
        for combo in itertools.product(*[[v] if t == 'i' else list(enumerate(v)) for t, v in full]):
            path, midx = [], []
            for (t, _), c in zip(full, combo):
                if t == 'i':
                    path.append(c)
                else:
                    midx.append(c[0])
                    path.append(c[1])
            v = val
            for a_, n in enumerate(vshape):
                v = v[midx[off + a_] if n != 1 else 0]
            d = self.d
            for i in path[:-1]:
                d = d[i]
            d[path[-1]] = v
        if origin is not None:
            parent, pk = origin
            parent[pk] = NDArr(self.d)          # write-through (the other direction - the view seeing later changes of its origin - is not modelled)

    # ---------------------------------------------------------------- arithmetic
    def _bin(self, o, f, swap=False):
        dt = self.dt if not isinstance(o, NDArr) or o.dt == self.dt else None     # array (op) scalar keeps the element type; mixed arrays: not modelled
        if f in (operator.eq, operator.ne, operator.lt, operator.le, operator.gt, operator.ge):
            dt = DType('bool_')
        o = _raw(o)
        return NDArr(_bc(o, self.d, f) if swap else _bc(self.d, o, f), dt=dt)

    def __add__(self, o): return self._bin(o, _add)
    def __radd__(self, o): return self._bin(o, _add, True)
    def __sub__(self, o): return self._bin(o, _sub)
    def __rsub__(self, o): return self._bin(o, _sub, True)
    def __mul__(self, o): return self._bin(o, _mul)
    def __rmul__(self, o): return self._bin(o, _mul, True)
    def __floordiv__(self, o): return self._bin(o, operator.floordiv)
    def __mod__(self, o): return self._bin(o, operator.mod)
    def __and__(self, o): return self._bin(o, operator.and_)
    def __rand__(self, o): return self._bin(o, operator.and_, True)
    def __or__(self, o): return self._bin(o, operator.or_)
    def __ror__(self, o): return self._bin(o, operator.or_, True)
    def __xor__(self, o): return self._bin(o, operator.xor)
    def __rxor__(self, o): return self._bin(o, operator.xor, True)
    def __lshift__(self, o): return self._bin(o, operator.lshift)
    def __rshift__(self, o): return self._bin(o, operator.rshift)
    def __eq__(self, o): return self._bin(o, operator.eq)
    def __ne__(self, o): return self._bin(o, operator.ne)
    def __lt__(self, o): return self._bin(o, operator.lt)
    def __le__(self, o): return self._bin(o, operator.le)
    def __gt__(self, o): return self._bin(o, operator.gt)
    def __ge__(self, o): return self._bin(o, operator.ge)
    __hash__ = None

    def __neg__(self):
        return NDArr(_map(self.d, operator.neg))

    def __invert__(self):
        return NDArr(_map(self.d, lambda x: (not x) if isinstance(x, bool) else ~x))

    # ---------------------------------------------------------------- methods
    def max(self):
        v = list(_flat(self.d))
        if not v:
            raise ValueError('zero-size array to reduction operation maximum which has no identity')
        return max(v)

    def min(self):
        v = list(_flat(self.d))
        if not v:
            raise ValueError('zero-size array to reduction operation minimum which has no identity')
        return min(v)

    def sum(self):
        return sum(int(x) if isinstance(x, bool) else x for x in _flat(self.d))

    def any(self):
        return any(_flat(self.d))

    def all(self):
        return all(_flat(self.d))

    def copy(self):
        return NDArr(self.d, dt=self.dt)

    def astype(self, dtype=None, **_k):
        return NDArr(self.d, dt=dtype if isinstance(dtype, DType) else None)

    def tolist(self):
        return _copy(self.d)

    def flatten(self):
        return NDArr(list(_flat(self.d)))

    def ravel(self):
        if self.ndim == 1:
            return NDArr(self.d, view=True)
        return NDArr(list(_flat(self.d)))

    def fill(self, v):
        if self.view:
            raise ModelError('ndarr: store through a view')
        self.d = _map(self.d, lambda _x: v)


def _full(shape, v):
    if isinstance(shape, int):
        shape = (shape,)
    shape = tuple(int(n.__index__()) for n in shape)

    def mk(s):
        return [mk(s[1:]) for _ in range(s[0])] if len(s) > 1 else [v] * s[0]
    if not shape:
        raise ModelError('ndarr: zero-dimensional array')
    return NDArr(mk(shape))


def numpy_ns(**extra):
    """stand-in for the module `np` (only functions on the stand-in arrays)"""
    def choose(a, choices, **kw):
        if kw:
            raise ModelError('ndarr: np.choose with keywords')
        a = _raw(a)
        ch = [_raw(c) for c in choices]

        def pick(idx, chs):
            if isinstance(idx, list):
                out = []
                for j, i in enumerate(idx):
                    sub = []
                    for c in chs:
                        if isinstance(c, list) and _depth(c) == _depth(idx):
                            if len(c) != len(idx) and len(c) != 1:
                                raise ValueError('shape mismatch: objects cannot be broadcast to a single shape')
                            sub.append(c[j if len(c) != 1 else 0])
                        else:
                            sub.append(c)
                    out.append(pick(i, sub))
                return out
            i = int(idx)
            if i < 0 or i >= len(chs):
                raise ValueError('invalid entry in choice array')
            c = chs[i]
            if isinstance(c, list):
                raise ModelError('ndarr: np.choose with a choice of higher rank than the selector')
            return c
        r = pick(a, ch)
        return NDArr(r) if isinstance(r, list) else r

    def where(c, a=None, b=None):
        if a is None or b is None:
            raise ModelError('ndarr: one-argument np.where')
        c, a, b = _raw(c), _raw(a), _raw(b)
        r = _bc(_bc(c, a, lambda x, y: (x, y)), b, lambda xy, z: xy[1] if xy[0] else z)
        return NDArr(r) if isinstance(r, list) else r

    def arange(*a, **kw):
        if kw and set(kw) - {'dtype'}:
            raise ModelError('ndarr: np.arange keywords')
        if not all(isinstance(x, int) and not isinstance(x, bool) for x in a):
            raise ModelError('ndarr: np.arange with non-integers')
        return NDArr(list(range(*a)))

    def concatenate(parts, **kw):
        if kw:
            raise ModelError('ndarr: np.concatenate keywords')
        out = []
        for p in parts:
            p = _raw(p)
            if not isinstance(p, list):
                raise ValueError('zero-dimensional arrays cannot be concatenated')
            out.extend(p)
        return NDArr(out)

    def append(a, v, **kw):
        if kw:
            raise ModelError('ndarr: np.append keywords')
        a, v = _raw(a), _raw(v)
        flat_a = list(_flat(a)) if isinstance(a, list) else [a]
        flat_v = list(_flat(v)) if isinstance(v, list) else [v]
        return NDArr(flat_a + flat_v)        # without an axis both operands are flattened

    def diff(a, **kw):
        if kw:
            raise ModelError('ndarr: np.diff keywords')
        a = _raw(a)
        if not isinstance(a, list) or _depth(a) != 1:
            raise ModelError('ndarr: np.diff of another operand than a one-dimensional array')
        return NDArr([_sub(y, x) for x, y in zip(a, a[1:])])

    def flatnonzero(a):
        return NDArr([i for i, x in enumerate(_flat(_raw(a))) if x])

    def _dt(kw, default=None):
        d = kw.get('dtype', default)
        if d is not None and not isinstance(d, DType):
            raise ModelError('ndarr: dtype that is not a numpy type name')
        return d

    def zeros(shape, **kw):
        r = _full(shape, 0)
        r.dt = _dt(kw, DType('float64'))
        return r

    def ones(shape, **kw):
        r = _full(shape, 1)
        r.dt = _dt(kw, DType('float64'))
        return r

    def full(shape, v, **kw):
        r = _full(shape, v)
        r.dt = _dt(kw)
        return r

    def zeros_like(a, **kw): return NDArr(_map(_raw(a), lambda _x: 0), dt=_dt(kw, getattr(a, 'dt', None)))

    def full_like(a, v, **kw): return NDArr(_map(_raw(a), lambda _x: v), dt=_dt(kw, getattr(a, 'dt', None)))

    def array(a, **kw):
        return NDArr(a, dt=_dt(kw, getattr(a, 'dt', None)))

    def un(f):
        def g(a):
            r = _map(_raw(a), f)
            return NDArr(r) if isinstance(r, list) else r
        return g

    def bi(f):
        def g(a, b):
            r = _bc(_raw(a), _raw(b), f)
            return NDArr(r) if isinstance(r, list) else r
        return g
    def expand_dims(a, axis=0):
        if axis != 0:
            raise ModelError('ndarr: np.expand_dims on another axis than 0')
        return NDArr([_raw(a)], dt=getattr(a, 'dt', None))

    def full_(shape, v, **kw):
        return _full(shape, v)
    fns = dict(append=append, diff=diff, choose=choose, where=where, arange=arange, concatenate=concatenate, flatnonzero=flatnonzero, zeros=zeros, ones=ones, full=full,
               zeros_like=zeros_like, full_like=full_like, array=array, asarray=array, hstack=concatenate, expand_dims=expand_dims,
               logical_not=un(lambda x: not x), logical_and=bi(lambda x, y: bool(x) and bool(y)), logical_or=bi(lambda x, y: bool(x) or bool(y)),
               logical_xor=bi(lambda x, y: bool(x) != bool(y)), minimum=bi(min), maximum=bi(max),
               )
    def add_at(a, idx, v):
        """np.add.at: unbuffered a[idx] += v (an index that occurs k times is incremented k times)"""
        if not isinstance(a, NDArr) or a.ndim != 1:
            raise ModelError('ndarr: np.add.at on another target than a one-dimensional array')
        idx, v = _raw(idx), _raw(v)
        pairs = list(_flat(_bc(idx, v, lambda i_, x_: (i_, x_)))) if isinstance(idx, list) or isinstance(v, list) else [(idx, v)]
        for i, x in pairs:
            if isinstance(i, bool) or not hasattr(i, '__index__'):
                raise ModelError('ndarr: np.add.at with a non-integer index')
            a[i] = a[i] + x
    def subtract_at(a, idx, v):
        add_at(a, idx, _map(_raw(v), lambda x: -x) if isinstance(_raw(v), list) else -v)
    fns.update(extra)
    out = NumpyNS(**{k: stub(v) for k, v in fns.items()})
    out.add = NS(at=stub(add_at))
    out.subtract = NS(at=stub(subtract_at))
    for nm in DTYPES:
        setattr(out, nm, DType(nm))
    return out
