"""Applying a lark Transformer class of the analysed code, in Engine M, to the parse tree lark builds for a fixture text.

The grammar is a string constant of the analysed module; it is compiled with the repository's own lark (as Engine E does) and used to parse a small
fixture text *without* a transformer: the result is the raw parse tree (inlined `?rules` and filtered tokens already applied by lark). The callbacks of the
transformer class are then applied bottom-up the way lark.Transformer does - callback named like the rule, children transformed first, a rule without
callback stays a tree - but evaluated by Engine M (kvstatic/minieval.py), never by importing the analysed module."""
from __future__ import annotations

import ast
import collections

from .core import ModelError
from . import minieval


def parse_tree(grammar_text, text, start='start'):
    from lark import Lark
    return Lark(grammar_text, parser='lalr', start=start).parse(text)


def module_env(mod, skip_class, extra=None):
    """module-level classes (evaluated), namedtuples, constant tables and functions of the analysed module"""
    genv = dict(extra or {})
    for st in mod.tree.body:
        if isinstance(st, ast.ClassDef) and st.name != skip_class and st.name not in genv:
            genv[st.name] = minieval.make_class(st, genv)
        elif isinstance(st, ast.Assign) and len(st.targets) == 1 and isinstance(st.targets[0], ast.Name) and st.targets[0].id not in genv:
            v = st.value
            if isinstance(v, ast.Call) and getattr(v.func, 'id', None) == 'namedtuple' and len(v.args) == 2:
                try:
                    nt = collections.namedtuple(st.targets[0].id, ast.literal_eval(v.args[1]))
                except ValueError:
                    raise ModelError('namedtuple with non-constant fields')
                nt._kv_class = True
                genv[st.targets[0].id] = nt
            else:
                try:
                    genv[st.targets[0].id] = ast.literal_eval(v)
                except (ValueError, SyntaxError):
                    pass
    minieval.module_functions(mod.tree, genv)
    return genv


def transform(tree, cls, genv, me=None):
    """result of applying the callbacks of class `cls` (ast.ClassDef) bottom-up to a lark tree; `me` is the transformer stand-in object
    (created by evaluating the class's own __init__ when not given)"""
    funcs = {st.name: st for st in cls.body if isinstance(st, ast.FunctionDef)}
    if me is None:
        K = minieval.make_class(cls, genv)
        me = K()

    def rec(t):
        if not hasattr(t, 'children') or not hasattr(t, 'data'):
            return t
        ch = [rec(c) for c in t.children]
        fd = funcs.get(str(t.data))
        if fd is None:
            return minieval.NS(data=str(t.data), children=ch)
        decos = {d.id if isinstance(d, ast.Name) else getattr(d, 'attr', None) for d in fd.decorator_list}
        if decos - {'staticmethod'}:
            raise ModelError(f'callback {t.data} has an unmodelled decorator')
        return minieval.call_function(fd, ([] if 'staticmethod' in decos else [me]) + [ch], genv)
    return rec(tree), me
