"""Engine M applied to the schedule / memory-map block of SimOps.__init__.

The statements from `stems = ...` to `self.c_len = ...` (stem table, levelisation with reference counts, pins, per-level allocation and
release, stem -> branch and line -> output-slot copies) are an algorithm over integer tables. They are evaluated here, as written, on a
deterministic family of stand-in circuits (ports, flip-flops, gates with unconnected pins, forks in the styles the parsers produce: none,
one per signal, per-reader branch forks, fork chains, port forks) x strip_forks x c_reuse x uniform / per-line capacities, with

  * `self.ops` given by the documented node -> op translation (that translation itself is decided by C01.wiring),
  * `Heap` replaced by a reference allocator that records every alloc / free (the real allocator is decided by the C08.heap-* rules),
  * `np.zeros / np.full / np.asarray` replaced by logging integer arrays,

and the outcome is compared with the contract of the schedule and the memory map:

  level     the level boundaries partition the op list; every operand (through the stem when forks are stripped) that some op produces
            is produced in an earlier level
  release   nothing is released unless c_reuse; a region is released only after the allocations of the last level that reads it, never twice,
            never if it is pinned (zero / scratch slots, input slots, lines captured by ports and state elements)
  alloc     every produced line has a region of the recorded capacity, which is at least max(c_caps_min, requested); the recorded capacity
            is not larger than the region
  alias     a stripped branch has location and capacity of its stem; an output slot has those of the line at input 0
  size      c_len is at least the end of every region ever allocated (the allocator's high-water mark)
  ops       the op table itself is not modified

A construct outside the evaluator's subset, or an integer constant other than -1, 0, 1 inside the block (a size threshold would make small
circuits inadequate), makes `run` return None: the structural rules of C07 / C08 decide then."""
from __future__ import annotations

import ast
import random

from .core import ModelError
from . import minieval
from .minieval import NS, NodeNS, IntArr, stub


def block(init):
    body = list(init.body)
    if body and isinstance(body[0], ast.Expr) and isinstance(body[0].value, ast.Constant):
        body = body[1:]
    i0 = i1 = None
    for k, st in enumerate(body):
        if i0 is None and isinstance(st, ast.Assign) and len(st.targets) == 1 and isinstance(st.targets[0], ast.Name) and st.targets[0].id == 'stems':
            i0 = k
        if isinstance(st, ast.Assign) and len(st.targets) == 1 and isinstance(st.targets[0], ast.Attribute) and st.targets[0].attr == 'c_len' \
                and isinstance(st.targets[0].value, ast.Name) and st.targets[0].value.id == 'self':
            i1 = k
    if i0 is None or i1 is None or i1 < i0:
        raise ModelError('SimOps.__init__: the block from `stems = ...` to `self.c_len = ...` was not found')
    # local helper functions defined before the block belong to it
    pre = [st for st in body[:i0] if isinstance(st, ast.FunctionDef)]
    return pre + body[i0:i1 + 1]


def adequate(stmts):
    """no size thresholds: integer constants other than 0 and 1 occur only as (small) positions inside a subscript - op-column numbers"""
    for st in stmts:
        in_slice = set()
        ndim_cmp = set()
        for n in ast.walk(st):
            if isinstance(n, ast.Compare) and any(isinstance(x, ast.Attribute) and x.attr == 'ndim' for x in [n.left] + n.comparators):
                ndim_cmp.update(id(x) for x in [n.left] + n.comparators if isinstance(x, ast.Constant))
        for n in ast.walk(st):
            if isinstance(n, ast.Subscript):
                for c in ast.walk(n.slice):
                    in_slice.add(id(c))
            # a small dimension in the shape tuple of a table constructor is a column count (np.zeros((0, 4))), no threshold on the circuit size
            if isinstance(n, ast.Call) and isinstance(n.func, ast.Attribute) and n.func.attr in ('zeros', 'full', 'ones', 'empty') and n.args \
                    and isinstance(n.args[0], ast.Tuple):
                for c in n.args[0].elts:
                    in_slice.add(id(c))
        for c in ast.walk(st):
            if isinstance(c, ast.Constant) and type(c.value) is int and c.value not in (0, 1) and id(c) in ndim_cmp:
                continue        # `x.ndim == 2` asks for the rank of a table, not for the size of the circuit
            if isinstance(c, ast.Constant) and type(c.value) is int and c.value not in (0, 1):
                if not (id(c) in in_slice and 0 <= c.value <= 9):
                    return False
            if isinstance(c, ast.Constant) and type(c.value) is float:
                return False
    return True


# ------------------------------------------------------------------------------------------------ stand-in circuits

def _mk_circuit(seed):
    rng = random.Random(seed)
    nodes, lines, forks = [], [], {}

    def node(kind, name):
        n = NodeNS(index=len(nodes), kind=kind, name=name, ins=[], outs=[], tag=name)
        nodes.append(n)
        if kind == '__fork__':
            forks[name] = n
        return n

    def line(drv, dpin, rdr, rpin):
        l = NodeNS(index=len(lines), driver=drv, reader=rdr, driver_pin=dpin, reader_pin=rpin, tag=f'l{len(lines)}')
        while len(drv.outs) <= dpin:
            drv.outs.append(None)
        while len(rdr.ins) <= rpin:
            rdr.ins.append(None)
        drv.outs[dpin] = l
        rdr.ins[rpin] = l
        lines.append(l)
        return l

    style = rng.choice(['minimal', 'verilog', 'verilog', 'bench'])
    n_pi, n_ff, n_g, n_po = rng.choice([1, 2, 3]), rng.choice([0, 0, 1, 2]), rng.randint(1, 5), rng.choice([1, 2])
    pis = [node('__fork__' if style == 'bench' else 'input', f'pi{k}') for k in range(n_pi)]
    ffs = [node(rng.choice(['DFF_X1', 'SDFFX']), f'ff{k}') for k in range(n_ff)]
    sources = [(p, 0) for p in pis] + [(f, 0) for f in ffs]
    for f in ffs:
        if rng.random() < 0.4:
            sources.append((f, 1))      # QN
    consumers = {}

    def use(src, rdr, rpin):
        consumers.setdefault(src, []).append((rdr, rpin))
    gates = []
    for k in range(n_g):
        g = node(rng.choice(['AND2', 'OR3', 'NAND4', 'INV', 'MUX21']), f'g{k}')
        ar = rng.choice([1, 2, 2, 3, 4, 4, 4])
        pins = list(range(ar))
        connected = [p for p in pins if rng.random() > 0.2] or [rng.choice(pins)]
        for p in connected:
            use(rng.choice(sources), g, p)
        gates.append(g)
        if rng.random() < 0.85:
            sources.append((g, 0))
    pos = [node('__fork__' if style == 'bench' else 'output', f'po{k}') for k in range(n_po)]
    for p in pos:
        use(rng.choice(sources), p, 0)
    if style == 'bench' and gates and rng.random() < 0.5 and not any((gates[-1], 3) in cs for cs in consumers.values()):
        use((pos[0], 0), gates[-1], 3)       # a bench output signal that is read again: the port fork has an input and an output
    for f in ffs:
        if rng.random() < 0.85:
            use(rng.choice(sources), f, 0)
    # wires, with forks in the chosen style
    nf = [0]

    def fork(name):
        nf[0] += 1
        return node('__fork__', f'{name}~{nf[0]}')
    for src, cons in consumers.items():
        drv, dpin = src
        if style == 'bench' and drv in pis:
            for rdr, rpin in cons:           # the port is a fork itself: one output per reader
                line(drv, len(drv.outs), rdr, rpin)
            continue
        if style == 'minimal' and len(cons) == 1:
            line(drv, dpin, cons[0][0], cons[0][1])
            continue
        f = fork(drv.name)
        line(drv, dpin, f, 0)
        groups = [cons]
        if len(cons) >= 2 and rng.random() < 0.5:      # a fork chain: some readers behind a second (and third) fork
            cut = rng.randint(1, len(cons) - 1)
            f2 = fork(drv.name)
            line(f, len(f.outs), f2, 0)
            for rdr, rpin in cons[cut:]:
                if rng.random() < 0.5:
                    f3 = fork(rdr.name)
                    line(f2, len(f2.outs), f3, 0)
                    line(f3, 0, rdr, rpin)
                else:
                    line(f2, len(f2.outs), rdr, rpin)
            groups = [cons[:cut]]
        for rdr, rpin in groups[0]:
            if style == 'verilog' and rng.random() < 0.35:     # a named branch fork in front of the reader
                fb = fork(rdr.name)
                line(f, len(f.outs), fb, 0)
                line(fb, 0, rdr, rpin)
            else:
                line(f, len(f.outs), rdr, rpin)
        if rng.random() < 0.15:
            f.outs.append(None)         # a removed branch leaves an unconnected output
    s_nodes = pis + pos + ffs
    names = list(forks)
    rng.shuffle(names)                  # the fork table is not in topological order in general
    forks = {k: forks[k] for k in names}
    return NS(nodes=nodes, lines=lines, forks=forks, s_nodes=s_nodes, io_nodes=pis + pos, cells={n.name: n for n in nodes if n.kind != '__fork__'})


def _state(n):
    return 'dff' in n.kind.lower() or 'latch' in n.kind.lower()


def _order(c):
    """a topological order of the stand-in circuit, cut at ports / state elements"""
    inter = set(c.s_nodes)
    done, out = set(), []

    def visit(n):
        if n in done:
            return
        done.add(n)
        if n not in inter:
            for l in n.ins:
                if l is not None:
                    visit(l.driver)
        out.append(n)
    for n in c.s_nodes:
        visit(n)
    for n in c.nodes:
        visit(n)
    return out


def _ops(c, strip_forks, Z, T, ppi):
    idx = {n: i for i, n in enumerate(c.s_nodes)}
    ops = []
    for n in _order(c):
        if n in idx:
            src = ppi + idx[n]
            for k, o in enumerate(n.outs):
                if o is None:
                    continue
                if 'dff' in n.kind.lower() and k >= 2:
                    continue
                ops.append([12 if (k == 1 and 'dff' in n.kind.lower()) else 11, o.index, src, Z, Z, Z, -1, 0, 0])
            continue
        i = [(n.ins[k].index if k < len(n.ins) and n.ins[k] is not None else Z) for k in range(4)]
        if n.kind == '__fork__':
            if not strip_forks:
                for o in n.outs:
                    if o is not None:
                        ops.append([11, o.index] + i + [-1, 0, 0])
            continue
        o0 = n.outs[0].index if n.outs and n.outs[0] is not None else T
        ops.append([20 + len(n.ins), o0] + i + [-1, 0, 0])
    return ops


def _stems(c, strip_forks):
    """line index -> stem line index (spec): outputs of a non-interface fork map to the line entering the outermost non-interface fork of its chain"""
    st = {}
    if not strip_forks:
        return st
    inter = set(c.s_nodes)
    for f in c.forks.values():
        if f in inter:
            continue
        prev = f.ins[0]
        while prev.driver.kind == '__fork__' and prev.driver not in inter:
            prev = prev.driver.ins[0]
        for o in f.outs:
            if o is not None:
                st[o.index] = prev.index
    return st


# ------------------------------------------------------------------------------------------------ stand-ins for numpy and Heap

class _Clock:
    def __init__(self):
        self.t = 0

    def tick(self):
        self.t += 1
        return self.t


class _Rows(list):
    """the op table of the per-op form: a list of rows; a two-dimensional subscript is array code - outside this form (the vector form takes over)"""
    def __getitem__(self, k):
        if isinstance(k, tuple):
            raise ModelError('minieval: two-dimensional subscript of the op table')
        return list.__getitem__(self, k)

    def __getattr__(self, name):
        if name.startswith('_'):
            raise AttributeError(name)          # probes of the evaluator itself
        raise ModelError(f'minieval: array attribute .{name} of the op table')


class LogArr(IntArr):
    def __init__(self, vals, clock):
        super().__init__(vals)
        self.clock = clock
        self.stores = []

    def __setitem__(self, k, val):
        if isinstance(val, bool) or not isinstance(val, int):
            try:
                val = int(val)
            except (TypeError, ValueError):
                raise ModelError('minieval: non-integer stored into an integer table')
        super().__setitem__(k, val)
        if not isinstance(k, slice):
            self.stores.append((k.__index__(), val, self.clock.tick()))

    def _map(self, f):
        return LogArr([f(x) for x in self.v], self.clock)


def _lognd():
    from .ndarr import NDArr

    class LogND(NDArr):
        """one-dimensional integer table of the array stand-in (kvstatic/ndarr.py) that records its element stores like LogArr does"""
        def __init__(self, vals, clock):
            super().__init__(vals)
            self.clock = clock
            self.stores = []

        def __setitem__(self, k, val):
            k = self._demask(k)
            nd = self._nd_index(k)
            if nd is not None:
                from .ndarr import _flat
                idxs = list(_flat(nd))
            else:
                sels = self._selectors(k)
                if len(sels) != 1:
                    raise ModelError('minieval: store with more than one subscript into a one-dimensional table')
                t, v = sels[0]
                idxs = [v] if t == 'i' else list(v)
            super().__setitem__(k, val)
            tick = self.clock.tick()
            for i in idxs:
                x = self.d[i]
                if isinstance(x, bool) or not isinstance(x, int):
                    try:
                        x = self.d[i] = int(x)
                    except (TypeError, ValueError):
                        raise ModelError('minieval: non-integer stored into an integer table')
                self.stores.append((i, x, tick))
    return LogND


def _np_nd(clock):
    """`np` for the vector form of the block: the array stand-in of kvstatic/ndarr.py, with logging one-dimensional tables"""
    from . import ndarr
    LogND = _lognd()

    def mk(r):
        return LogND(r.d, clock) if r.ndim == 1 else r

    def zeros(shape, dtype=None):
        return mk(ndarr._full(shape, 0))

    def full(shape, val, dtype=None):
        return mk(ndarr._full(shape, int(val)))

    def asarray(x, dtype=None):
        r = ndarr.NDArr(x)
        return mk(r)
    ns = ndarr.numpy_ns(zeros=zeros, full=full, asarray=asarray, array=asarray)
    return ns, LogND


def _np(clock):
    def shape1(shape):
        if isinstance(shape, (tuple, list)):
            if len(shape) != 1:
                raise ModelError('minieval: only one-dimensional tables are modelled')
            shape = shape[0]
        if not isinstance(shape, int):
            raise ModelError('minieval: table size is not an integer')
        return shape

    def zeros(shape, dtype=None):
        return LogArr([0] * shape1(shape), clock)

    def full(shape, val, dtype=None):
        return LogArr([int(val)] * shape1(shape), clock)

    def asarray(x, dtype=None):
        return LogArr([int(v) for v in x], clock)
    return NS(zeros=stub(zeros), full=stub(full), asarray=stub(asarray), array=stub(asarray), int32='int32', int64='int64', uint32='uint32', intp='intp')


class RefHeap:
    """first-fit reference allocator with coalescing; records its history"""
    def __init__(self, clock):
        self.clock = clock
        self.free_chunks = []      # (addr, size), sorted
        self.top = 0
        self.live = {}             # addr -> region
        self.regions = []
        self.errors = []
        self.ns = NS(alloc=stub(lambda size: self.alloc(size)), free=stub(lambda loc: self.free(loc)), max_size=0, current_size=0)

    def alloc(self, size):
        try:
            size = int(size)
        except (TypeError, ValueError):
            raise ModelError('minieval: non-integer allocation size')
        t = self.clock.tick()
        if size <= 0:
            self.errors.append(f'alloc({size})')
            size = 0
        addr = None
        for k, (a, s) in enumerate(self.free_chunks):
            if s >= size and size > 0:
                addr = a
                if s == size:
                    del self.free_chunks[k]
                else:
                    self.free_chunks[k] = (a + size, s - size)
                break
        if addr is None:
            addr = self.top
            self.top += size
        self.ns.max_size = max(self.ns.max_size, self.top)
        self.ns.current_size = self.top
        r = NS(addr=addr, size=size, t_alloc=t, t_free=None)
        self.live[addr] = r
        self.regions.append(r)
        return addr

    def free(self, loc):
        t = self.clock.tick()
        try:
            loc = int(loc)
        except (TypeError, ValueError):
            self.errors.append(f'free({loc!r})')
            return
        r = self.live.pop(loc, None)
        if r is None:
            self.errors.append(f'free({loc}) of a location that is not allocated (released twice, or never allocated)')
            return
        r.t_free = t
        self.free_chunks.append((r.addr, r.size))
        self.free_chunks.sort()
        merged = []
        for a, s in self.free_chunks:
            if merged and merged[-1][0] + merged[-1][1] == a:
                merged[-1] = (merged[-1][0], merged[-1][1] + s)
            else:
                merged.append((a, s))
        self.free_chunks = merged
        if merged and merged[-1][0] + merged[-1][1] == self.top:      # the tail is free: the heap shrinks (as kyupy's Heap does)
            self.top = merged[-1][0]
            del self.free_chunks[-1]
        self.ns.current_size = self.top

    def at(self, addr, t):
        """the region that occupied addr at time t"""
        best = None
        for r in self.regions:
            if r.addr == addr and r.t_alloc <= t and (r.t_free is None or r.t_free > t):
                best = r
        return best


# ------------------------------------------------------------------------------------------------ evaluation and contract

N_CIRCUITS = 100


def run(init):
    """{'findings': {rule: (message, description)}, 'evaluations': n, 'circuits': n} or None (outside the subset / inadequate)."""
    stmts = block(init)
    if not adequate(stmts):
        return None
    cls = getattr(init, '_parent', None)
    modtree = getattr(cls, '_parent', None)
    try:
        return _run_mode(stmts, cls, modtree, False)
    except ModelError:
        # the vector form of the block (index arrays over all ops at once, np.where, .any()): the same evaluation with the array stand-in of
        # kvstatic/ndarr.py; outside that subset as well -> ModelError, the structural rules decide
        return _run_mode(stmts, cls, modtree, True)


def _run_mode(stmts, cls, modtree, nd):
    findings = {}
    nev = 0

    def fail(rule, msg, desc):
        findings.setdefault(rule, (msg, desc))
    for seed in range(N_CIRCUITS):
        c = _mk_circuit(seed)
        nl, ns = len(c.lines), len(c.s_nodes)
        Z, T, T2 = nl, nl + 1, nl + 2
        ppi, ppo = nl + 3, nl + 3 + ns
        total = ppo + ns
        for strip in (False, True):
            ops = _ops(c, strip, Z, T, ppi)
            stem = _stems(c, strip)
            for reuse in (False, True):
                for capmode in (0, 1):
                    rng = random.Random(seed * 7 + capmode)
                    cmin = (1, 4)[capmode]
                    req = [1] * (nl + 3) if capmode == 0 else [rng.choice([2, 4, 8, 16]) for _ in range(nl + 3)]
                    nev += 1
                    clock = _Clock()
                    heap = RefHeap(clock)
                    me = NS(ops=_Rows(list(o) for o in ops), zero_idx=Z, tmp_idx=T, tmp2_idx=T2, ppi_offset=ppi, ppo_offset=ppo, c_locs_len=total,
                            s_len=ns, circuit=c)
                    tables = IntArr
                    if nd:
                        from .ndarr import NDArr
                        if not ops:
                            continue
                        me.ops = NDArr([list(o) for o in ops])
                        npns, tables = _np_nd(clock)
                        genv = {'np': npns, 'Heap': stub(lambda: heap.ns)}
                    else:
                        genv = {'np': _np(clock), 'Heap': stub(lambda: heap.ns)}
                    if isinstance(cls, ast.ClassDef):
                        minieval.bind_class(me, cls, genv)
                    if isinstance(modtree, ast.Module):
                        minieval.module_functions(modtree, genv)
                    env = dict(genv)
                    env.update({'self': me, 'circuit': c, 'strip_forks': strip, 'c_reuse': reuse, 'c_caps': list(req), 'c_caps_min': cmin,
                                'interface_dict': {n: i for i, n in enumerate(c.s_nodes)}, 'ops': me.ops})
                    desc = (f'stand-in circuit #{seed} ({len(c.nodes)} nodes, {nl} lines, {len(c.forks)} forks, {ns} ports/state elements), '
                            f'strip_forks={strip}, c_reuse={reuse}, c_caps_min={cmin}, {"uniform" if capmode == 0 else "per-line"} capacities')
                    try:
                        minieval.run(stmts, env)
                    except minieval.Returned:
                        fail('C08.size', 'the constructor returns before the memory map is complete', desc)
                        continue
                    except ModelError:
                        raise
                    except (TypeError, AttributeError) as e:
                        if not nd:
                            # the per-op stand-ins (lists of rows, one-dimensional integer tables) do not have the array interface: array code is
                            # judged in the vector form, where the same exception is a finding
                            raise ModelError(f'minieval: per-op form: {type(e).__name__}: {e}')
                        fail('C07.level', f'raises {type(e).__name__}: {e}', desc)
                        continue
                    except (IndexError, KeyError, ValueError, RuntimeError, AssertionError, ZeroDivisionError) as e:
                        fail('C07.level', f'raises {type(e).__name__}: {e}', desc)
                        continue
                    if nd and not (isinstance(getattr(me, 'c_locs', None), tables) and isinstance(getattr(me, 'c_caps', None), tables)):
                        raise ModelError('minieval: c_locs / c_caps are replaced by derived arrays (their stores are not recorded)')
                    _contract(c, me, ops, stem, strip, reuse, req, cmin, heap, Z, T, T2, ppi, ppo, desc, fail, tables)
    return {'findings': findings, 'evaluations': nev, 'circuits': N_CIRCUITS, 'form': 'vector' if nd else 'scalar'}


def _contract(c, me, ops, stem, strip, reuse, req, cmin, heap, Z, T, T2, ppi, ppo, desc, fail, tables=IntArr):
    nops = len(ops)
    # ---- ops untouched
    if [[int(x) for x in o] for o in me.ops] != ops:
        fail('C07.operands', 'the op table is modified by the scheduling passes (columns 2..5 also select the delay and the waveform of an operand in the simulators)', desc)
        return
    # ---- level partition
    try:
        ls, lt = [int(x) for x in me.level_starts], [int(x) for x in me.level_stops]
    except (AttributeError, TypeError):
        fail('C07.level', 'level_starts / level_stops are not produced', desc)
        return
    ok = len(ls) == len(lt) and len(ls) >= 1 and ls[0] == 0 and lt[-1] == nops and all(ls[k + 1] == lt[k] for k in range(len(ls) - 1)) \
        and all(a <= b for a, b in zip(ls, lt))
    if not ok:
        fail('C07.level', f'level_starts {ls} / level_stops {lt} do not partition the {nops} ops into consecutive ranges', desc)
        return
    level = {}
    for k, (a, b) in enumerate(zip(ls, lt)):
        for i in range(a, b):
            level[i] = k
    writer = {}
    for i, o in enumerate(ops):
        if o[1] != T:
            writer[o[1]] = i
    for i, o in enumerate(ops):
        for x in o[2:6]:
            rx = stem.get(x, x)
            j = writer.get(rx)
            if j is not None and level[j] >= level[i]:
                fail('C07.level', f'op {i} (level {level[i]}) reads line {x}{" (stem %d)" % rx if rx != x else ""} which op {j} produces in level {level[j]}: '
                     f'an operand must be produced in an earlier level', desc)
                return
    # ---- regions of the lines
    c_locs, c_caps = getattr(me, 'c_locs', None), getattr(me, 'c_caps', None)
    if not isinstance(c_locs, tables) or not isinstance(c_caps, tables):
        fail('C08.alloc', 'c_locs / c_caps are not produced as integer tables', desc)
        return
    if heap.errors:
        fail('C07.release', heap.errors[0], desc)
        return
    if not reuse and any(r.t_free is not None for r in heap.regions):
        fail('C07.release', 'memory is released although c_reuse is off', desc)
        return
    last_store = {}
    for idx, val, t in getattr(c_locs, 'stores', []):
        last_store[idx] = (val, t)
    region = {}

    def region_of(idx):
        if idx in region:
            return region[idx]
        if idx not in last_store:
            return None
        val, t = last_store[idx]
        region[idx] = heap.at(val, t) if val >= 0 else None
        return region[idx]
    t_end = {}
    per_idx = {}
    for idx, val, t in getattr(c_locs, 'stores', []):
        per_idx.setdefault(idx, []).append(t)
    nwriters = {}
    for o in ops:
        nwriters[o[1]] = nwriters.get(o[1], 0) + 1
    seen = {}
    for i, o in enumerate(ops):
        ts = per_idx.get(o[1], [])
        k = seen.get(o[1], 0)
        seen[o[1]] = k + 1
        if len(ts) == nwriters[o[1]] + (1 if o[1] == T else 0):      # the scratch slot is also stored once when it is pinned
            t = ts[k + (1 if o[1] == T else 0)]
        elif o[1] != T and ts:
            t = ts[-1]
        else:
            continue
        t_end[level[i]] = max(t_end.get(level[i], 0), t)
    for i, o in enumerate(ops):
        out = o[1]
        r = region_of(out)
        if r is None or c_locs[out] != r.addr:
            fail('C08.alloc', f'the output line {out} of op {i} has no allocated region (c_locs = {c_locs[out]})', desc)
            return
        want = max(cmin, req[out])
        if c_caps[out] < want or c_caps[out] > r.size:
            fail('C08.alloc', f'line {out}: recorded capacity {c_caps[out]}, allocated {r.size}, needed max(c_caps_min, c_caps[line]) = {want}', desc)
            return
    pinned = {Z: 'the zero line', T: 'scratch slot 1', T2: 'scratch slot 2'}
    for k, n in enumerate(c.s_nodes):
        if len(n.outs) > 0:
            pinned[ppi + k] = f'the input slot of {n.name}'
        if len(n.ins) > 0 and n.ins[0] is not None:
            src = n.ins[0].index
            pinned[stem.get(src, src)] = f'line {src} captured by {n.name}'
    for idx, what in pinned.items():
        r = region_of(idx)
        if r is None:
            if idx in (Z, T, T2) or idx >= ppi:
                fail('C08.pins', f'{what} has no memory (c_locs = {c_locs[idx]})', desc)
                return
            continue         # a captured line nobody drives
        if r.t_free is not None:
            fail('C08.pins', f'the memory of {what} is released (it must stay valid until the results are read)', desc)
            return
        if idx in (Z, T, T2) or idx >= ppi:
            if c_caps[idx] < cmin or c_caps[idx] > r.size:
                fail('C08.pins', f'{what}: recorded capacity {c_caps[idx]}, allocated {r.size}, needed c_caps_min = {cmin}', desc)
                return
    if len({region_of(x).addr for x in (Z, T, T2)}) != 3:
        fail('C08.pins', 'zero line and scratch slots share memory', desc)
        return
    # ---- release timing
    for i, o in enumerate(ops):
        for x in o[2:6]:
            rx = stem.get(x, x)
            r = region_of(rx)
            if r is None:
                if x == Z or writer.get(rx) is None:
                    continue
                fail('C08.alloc', f'operand line {x} of op {i} has no memory', desc)
                return
            if r.t_free is not None and r.t_free < t_end.get(level[i], 0):
                fail('C07.release', f'the memory of line {rx}, read by op {i} in level {level[i]}, is released before the allocations of that level are complete: '
                     f'it can be handed to an op of the same level (or was released while still needed)', desc)
                return
    if not reuse:
        pass
    # ---- aliases
    for b, s_ in stem.items():
        if c_locs[b] != c_locs[s_] or c_caps[b] != c_caps[s_]:
            fail('C08.alias', f'stripped branch line {b} has (loc, cap) = ({c_locs[b]}, {c_caps[b]}), its stem {s_} has ({c_locs[s_]}, {c_caps[s_]})', desc)
            return
    for k, n in enumerate(c.s_nodes):
        if len(n.ins) > 0 and n.ins[0] is not None:
            src = n.ins[0].index
            if c_locs[ppo + k] != c_locs[src] or c_caps[ppo + k] != c_caps[src]:
                fail('C08.alias', f'the output slot of {n.name} has (loc, cap) = ({c_locs[ppo + k]}, {c_caps[ppo + k]}), the line at its input 0 has ({c_locs[src]}, {c_caps[src]})', desc)
                return
            rs = region_of(stem.get(src, src))
            if rs is not None and c_locs[src] != rs.addr:
                fail('C08.alias', f'line {src} captured by {n.name} does not point at the memory of its waveform', desc)
                return
    # ---- size
    hi = max([r.addr + r.size for r in heap.regions] or [0])
    c_len = getattr(me, 'c_len', None)
    if not isinstance(c_len, int) or c_len < hi:
        fail('C08.size', f'c_len = {c_len} but memory up to {hi} was handed out', desc)
