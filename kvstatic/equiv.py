"""Equivalence modulo refactoring (see canon.py): functions of the analysed module whose normal form equals the normal
form of the same function in the reference copy are analysed in their reference form.

absorb(mod, refmod) rewrites mod.tree in place and returns {'same': n, 'equivalent': [...], 'different': [...],
'absorbed_helpers': [...], 'new': [...], 'missing': [...]}.
"""
from __future__ import annotations

import ast
import copy
import os

from .canon import canon_text, clone, directed

REFERENCE_ROOT = os.path.join(os.path.dirname(os.path.dirname(os.path.abspath(__file__))), 'reference', 'kyupy')


def _functions(tree):
    """qualname -> (FunctionDef, ClassDef or None, containing body list) for module-level functions and methods."""
    out = {}

    def visit(body, prefix, cls):
        for st in body:
            if isinstance(st, (ast.FunctionDef, ast.AsyncFunctionDef)):
                out.setdefault(prefix + st.name, (st, cls, body))
            elif isinstance(st, ast.ClassDef):
                visit(st.body, prefix + st.name + '.', st)
    visit(tree.body, '', None)
    return out


def _still_used(name, trees):
    return any((isinstance(n, ast.Name) and n.id == name) or (isinstance(n, ast.Attribute) and n.attr == name) for t in trees for n in ast.walk(t))


def _dump(n):
    return ast.dump(n, include_attributes=False)


def _module_names(tree):
    import ast
    import builtins
    out = set(dir(builtins))
    for st in tree.body:
        for n in ast.walk(st) if isinstance(st, (ast.Import, ast.ImportFrom, ast.Assign, ast.AnnAssign, ast.AugAssign)) else []:
            if isinstance(n, ast.alias):
                out.add((n.asname or n.name).split('.')[0])
            elif isinstance(n, ast.Name) and isinstance(n.ctx, ast.Store):
                out.add(n.id)
        if isinstance(st, (ast.FunctionDef, ast.ClassDef)):
            out.add(st.name)
    return out


def _well_scoped(d, a, globals_=frozenset()):
    """Sanity condition on a normalised function: it reads no name that is bound nowhere in it and that the original function did not read either
    (a rewrite that moves an expression out of the scope of a variable it uses would produce exactly that). A normalised form failing it is discarded."""
    import ast

    def names(fn):
        loads, stores = set(), set()
        for n in ast.walk(fn):
            if isinstance(n, ast.Name):
                (loads if isinstance(n.ctx, ast.Load) else stores).add(n.id)
            elif isinstance(n, ast.arg):
                stores.add(n.arg)
            elif isinstance(n, (ast.FunctionDef, ast.ClassDef)):
                stores.add(n.name)
        return loads, stores
    dl, ds = names(d)
    al, _ = names(a)
    if (dl - ds) - al - set(globals_):
        return False
    # a comprehension variable must not be read outside its comprehension unless it is also bound outside
    outer = set()
    for n in ast.walk(d):
        if isinstance(n, ast.arg):
            outer.add(n.arg)
    comp_only = {}
    for n in ast.walk(d):
        if isinstance(n, (ast.ListComp, ast.SetComp, ast.DictComp, ast.GeneratorExp)):
            for g in n.generators:
                for t in ast.walk(g.target):
                    if isinstance(t, ast.Name):
                        comp_only.setdefault(t.id, []).append(n)
    if comp_only:
        bound_outside = set(outer)
        inside = {id(x) for comps in comp_only.values() for c in comps for x in ast.walk(c)}
        for n in ast.walk(d):
            if isinstance(n, ast.Name) and isinstance(n.ctx, ast.Store) and id(n) not in inside:
                bound_outside.add(n.id)
        for n in ast.walk(d):
            if isinstance(n, ast.Name) and isinstance(n.ctx, ast.Load) and n.id in comp_only and n.id not in bound_outside and id(n) not in inside and n.id not in al - set(comp_only):
                return False
    return True


def absorb(mod, refmod):
    res = {'same': 0, 'equivalent': [], 'different': [], 'directed': [], 'absorbed_helpers': [], 'new': [], 'missing': []}
    fa = _functions(mod.tree)
    fr = _functions(refmod.tree)
    subst = {}
    directed_subst = {}
    for q, (a, cls, body) in fa.items():
        if q not in fr:
            res['new'].append(q)
            continue
        r, rcls, _ = fr[q]
        if _dump(a) == _dump(r):
            res['same'] += 1
            continue
        try:
            ca = canon_text(a, mod.tree, cls)
            cr = canon_text(r, refmod.tree, rcls)
        except RecursionError:
            ca, cr = 'a', 'r'
        except Exception as e:  # noqa: BLE001 - a normaliser crash must never hide or create an alarm: treat as "different"
            ca, cr = f'a:{type(e).__name__}', 'r'
        if ca == cr:
            subst[q] = (a, r, body)
            res['equivalent'].append(q)
        else:
            res['different'].append(q)
            try:
                d = directed(a, r, mod.tree, refmod.tree, cls, rcls)
            except Exception:  # noqa: BLE001
                d = None
            if d is not None and _dump(d) != _dump(a) and _well_scoped(d, a, _module_names(mod.tree)):
                directed_subst[q] = (a, d, body)
                res['directed'].append(q)
    res['missing'] = [q for q in fr if q not in fa]
    if not subst and not res['new'] and not directed_subst:
        return res
    # helpers that exist only in the analysed tree and are referenced only from functions found equivalent
    top_of = {}
    for q, (a, _c, _b) in fa.items():
        for n in ast.walk(a):
            top_of[id(n)] = q
    for q in res['new']:
        a, cls, body = fa[q]
        name = a.name
        users = set()
        for n in ast.walk(mod.tree):
            if (isinstance(n, ast.Name) and n.id == name) or (isinstance(n, ast.Attribute) and n.attr == name):
                users.add(top_of.get(id(n), '<module>'))
        users.discard(q)
        if users and all(u in subst or u in directed_subst for u in users) and not _still_used(name, [d for _a, d, _b in directed_subst.values()]):
            body.remove(a)
            res['absorbed_helpers'].append(q)
    for q, (a, r, body) in subst.items():
        new = clone(r)
        for n in ast.walk(new):
            if hasattr(n, 'lineno'):  # keep the statement order visible in the line numbers, anchored at the actual function
                n.lineno = a.lineno + (n.lineno - r.lineno)
                if getattr(n, 'end_lineno', None) is not None:
                    n.end_lineno = a.lineno + (n.end_lineno - r.lineno)
        new._equiv_substituted = True
        body[body.index(a)] = new
    for q, (a, d, body) in directed_subst.items():
        body[body.index(a)] = d
    for parent in ast.walk(mod.tree):
        for child in ast.iter_child_nodes(parent):
            child._parent = parent
    mod._index()
    return res
